"""Shared by C02 / C04 (and usable by the checks built on the store models): history
generation over symbolic event handles, driving the three real storage back ends through
the AbstractStorage API, canonical wire form (the one coq/Extract/ExC02.v reads), and the
model run.

A *symbolic* history names events by handle (["live", k] = k-th live id of the bucket in id
order, ["foreign", k], ["dead", k], ["gone", k]); it is resolved against the implementation's
own dumps while it runs, which yields the *concrete* history (wire ops with real ids) that
is then fed to the model of that back end.  Labels: strings "" <-> 0, "s<n>" <-> n; data {}
<-> 0, {"x": n} <-> n; created <-> seconds after BASE.

Round 2 additions (all optional, the former API is unchanged):
  * layer "datastore": the same histories issued THROUGH aw_datastore.Datastore / Bucket (the public
    API: Bucket.insert(Event | list), Bucket.replace, ...) instead of on the storage object; the model
    side is Model/Datastore.v under Model/DatastoreApi.v (driver ExC02ds, case tag 30);
  * events passed to replace / replace_last may carry an id of their own (any handle kind);
  * object identity: a symbolic event may carry a 5th element ["obj", "passed"|"got", k] = "pass the
    very Event OBJECT that was passed to / returned by an earlier call of this run" (no fresh copy); its
    value at the time of the call is what the wire op (and so the model, which has no aliasing) sees;
  * ["touch", ["obj", ...], field, value]: the caller changes such an object IN PLACE between two calls
    (data dict mutated, timestamp / duration / id assigned) - no operation, so no bucket may change."""
import copy as _copy
import json as _json
import multiprocessing
import os
import shutil
import tempfile
from datetime import datetime, timedelta, timezone

from . import common
from . import edgevals as _ev
from .evutil import BASE, dt, us_of_dt, us_of_td

BACKENDS = ["memory", "sqlite", "peewee"]
BACKEND_CODE = {"memory": 0, "sqlite": 1, "peewee": 2}
ERR = {"KeyError": 4, "ValueError": 5, "IndexError": 6, "AttributeError": 7, "TypeError": 8,
       "IntegrityError": 9,
       # no model produces it (named so that a report says what was raised; 10 = any other class)
       "UnicodeEncodeError": 11}
ERRNAME = {v: k for k, v in ERR.items()}
ERRNAME[10] = "other"
MISSING_BUCKET = 7          # a bucket label no history ever creates
SEC = 1_000_000
HOUR = 3600 * SEC

OPCODE = {"create": 0, "update": 1, "delete_bucket": 2, "buckets": 3, "metadata": 4, "insert": 5,
          "insert_many": 6, "replace": 7, "replace_last": 8, "delete": 9, "get_event": 10, "get": 11,
          "count": 12,
          # not a call at all: the CALLER changes, in place, an Event object it passed to / got from the
          # store earlier ([13, field, value]; which object: run["objs"][j]).  Never sent to the model (its
          # state does not depend on the caller's objects): run_model_batch leaves the state as it is.
          "touch": 13}
TOUCH_FIELDS = ["data", "timestamp", "duration", "id"]
OPNAME = {v: k for k, v in OPCODE.items()}
WRITE_CODES = {0, 1, 2, 5, 6, 7, 8, 9}


# ---------------------------------------------------------------------------
# labels


def s_of(n):
    return None if n is None else ("" if n == 0 else "s%d" % n)


def n_of(s):
    if s is None:
        return None
    return 0 if s == "" else int(s[1:])


def data_of(n):
    """label -> a FRESH data dict.  0 = {}; small labels = {"x": n}; labels >= RICH_BASE (round 5) = {"x": n, ..edge
    members..}: text with lone surrogates / astral code points / NUL / U+2028 as values and keys, nested containers,
    and containers / scalars that are dict / list / str / int SUBCLASSES (harness/edgevals.py) - values every back end
    of the unchanged tree stores and returns `==` (established by notes/probes/fix6_roundtrip.py, notes C02.md)."""
    if n == 0:
        return {}
    r = RICH.get(n)
    if r is None:
        return {"x": n}
    plain, style = r
    d = dict(plain)
    return _ev.dress(d, style) if style else _copy.deepcopy(d)


def _canon(d):
    return _json.dumps(d, sort_keys=True)


def label_of_data(d):
    """data dict -> label.  A rich value (label >= RICH_BASE) that is not `==` / not the same JSON text as the value
    of its label comes back as the NEGATIVE label (no model ever produces one: the damage shows as a disagreement
    and, through the oracles' expected payloads, as a failing input)."""
    if d == {}:
        return 0
    n = d["x"]
    if isinstance(n, int) and n in RICH:
        n = int(n)                       # (an int SUBCLASS instance in the styles that dress scalars)
        want = data_of(n)
        if not (d == want and _canon(d) == _canon(want)):
            return -n
    return n


RICH_BASE = 100


def _rich_table():
    vals = []
    for d in _ev.EDGE_DATA[:8]:                       # lone surrogates, astral, NUL, U+2028: as values and as keys
        vals.append((d, None))
    for st in ("odict", "ddict", "listsub", "mixed", "scalars", "all"):
        vals.append((_ev.NESTED, st))                 # dict / list / str / int subclasses at every depth
    vals.append(({"title": _ev.EDGE_STRINGS[0], "tags": [_ev.EDGE_STRINGS[1], {"k": [_ev.EDGE_STRINGS[7]]}]}, "mixed"))
    out = {}
    for k, (d, st) in enumerate(vals):
        n = RICH_BASE + k
        plain = {"x": n}
        plain.update(d)
        out[n] = (plain, st)
    return out


RICH = _rich_table()
RICH_LABELS = sorted(RICH)


def rnd_label(rng, p=0.15):
    """an event data label: mostly the six small ones, with probability p a rich one"""
    if rng.random() < p:
        return rng.choice(RICH_LABELS)
    return rng.randrange(0, 6)


def scramble_nested(d):
    """the caller changes, in place, every container BELOW the top level of a data dict it holds"""
    stack = [v for v in (d.values() if isinstance(d, dict) else d) if isinstance(v, (dict, list))]
    while stack:
        c = stack.pop()
        stack.extend(v for v in (c.values() if isinstance(c, dict) else c) if isinstance(v, (dict, list)))
        if isinstance(c, dict):
            c["touched"] = "by the caller"
        else:
            c.append("touched by the caller")


def created_of(n):
    return dt(BASE + n * SEC).isoformat()


def created_label(s):
    if isinstance(s, datetime):
        d = s
    else:
        d = datetime.fromisoformat(str(s))
    if d.tzinfo is None:
        d = d.replace(tzinfo=timezone.utc)
    return (us_of_dt(d) - BASE) // SEC


def opt(v):
    return [] if v is None else [v]


def unopt(l):
    return None if l == [] else l[0]


# ---------------------------------------------------------------------------
# driving one real back end


def open_storage(backend, tmpdir, n):
    if backend == "memory":
        from aw_datastore.storages import MemoryStorage
        return MemoryStorage(testing=True)
    if backend == "sqlite":
        from aw_datastore.storages import SqliteStorage
        return SqliteStorage(testing=True, filepath=os.path.join(tmpdir, f"s{n}.db"))
    from aw_datastore.storages import PeeweeStorage
    return PeeweeStorage(testing=True, filepath=os.path.join(tmpdir, f"p{n}.db"))


def close_storage(backend, st, tmpdir, n):
    if backend == "sqlite":
        st.conn.close()
    elif backend == "peewee":
        st.db.close()
    for pre in ("s", "p"):
        for suf in ("", "-wal", "-shm", "-journal"):
            try:
                os.unlink(os.path.join(tmpdir, f"{pre}{n}.db{suf}"))
            except OSError:
                pass


LAYERS = ["storage", "datastore"]


class ViaDatastore:
    """AbstractStorage-shaped facade over the PUBLIC API: every call goes through
    aw_datastore.Datastore (bucket lifecycle) or through a Bucket object (everything addressed to one
    bucket), as a client of the library does.  The Bucket object is the one create_bucket handed back;
    for a bucket this client never created (or deleted meanwhile) it is a Bucket built from the bare id
    (a handle that went stale) - a Bucket holds nothing but its id, so the storage decides."""

    def __init__(self, ds):
        self.ds = ds
        self.raw = ds.storage_strategy
        self.handles = {}

    def _bucket(self, bid):
        h = self.handles.get(bid)
        if h is None:
            from aw_datastore.datastore import Bucket
            h = Bucket(self.ds, bid)
        return h

    def create_bucket(self, bid, type_id, client, hostname, created, name=None, data=None):
        b = self.ds.create_bucket(bid, type_id, client, hostname, created=datetime.fromisoformat(created),
                                  name=name, data=data)
        self.handles[bid] = b
        return b

    def update_bucket(self, bid, type_id=None, client=None, hostname=None, name=None, data=None):
        return self.ds.update_bucket(bid, type_id=type_id, client=client, hostname=hostname, name=name, data=data)

    def delete_bucket(self, bid):
        self.handles.pop(bid, None)
        return self.ds.delete_bucket(bid)

    def buckets(self):
        return self.ds.buckets()

    def get_metadata(self, bid):
        return self._bucket(bid).metadata()

    def insert_one(self, bid, event):
        return self._bucket(bid).insert(event)

    def insert_many(self, bid, events):
        return self._bucket(bid).insert(events)

    def replace(self, bid, event_id, event):
        return self._bucket(bid).replace(event_id, event)

    def replace_last(self, bid, event):
        return self._bucket(bid).replace_last(event)

    def delete(self, bid, event_id):
        return self._bucket(bid).delete(event_id)

    def get_event(self, bid, event_id):
        return self._bucket(bid).get_by_id(event_id)

    def get_events(self, bid, limit, starttime=None, endtime=None):
        return self._bucket(bid).get(limit, starttime, endtime)

    def get_eventcount(self, bid, starttime=None, endtime=None):
        return self._bucket(bid).get_eventcount(starttime, endtime)


def open_layer(backend, tmpdir, n, layer="storage"):
    """The object histories are run on: the storage itself, or the ViaDatastore facade over a Datastore
    built on that storage class (same files as open_storage)."""
    if layer == "storage":
        return open_storage(backend, tmpdir, n)
    from aw_datastore import Datastore
    from aw_datastore.storages import MemoryStorage, PeeweeStorage, SqliteStorage
    if backend == "memory":
        return ViaDatastore(Datastore(MemoryStorage, testing=True))
    if backend == "sqlite":
        return ViaDatastore(Datastore(SqliteStorage, testing=True, filepath=os.path.join(tmpdir, f"s{n}.db")))
    return ViaDatastore(Datastore(PeeweeStorage, testing=True, filepath=os.path.join(tmpdir, f"p{n}.db")))


def close_layer(backend, st, tmpdir, n):
    close_storage(backend, st.raw if isinstance(st, ViaDatastore) else st, tmpdir, n)


def mk_ev(w):
    from aw_core.models import Event
    i, t, d, x = w
    return Event(id=unopt(i), timestamp=dt(t), duration=timedelta(microseconds=d), data=data_of(x))


def ev_w(e):
    return [opt(e.id), us_of_dt(e.timestamp), us_of_td(e.duration), label_of_data(e.data)]


def meta_w(m):
    return [n_of(m["type"]), n_of(m["client"]), n_of(m["hostname"]), created_label(m["created"]),
            opt(n_of(m["name"])), label_of_data(m["data"])]


def canon_out(code, r):
    """The value a storage method returned, in the model's `out` wire form."""
    if code == OPCODE["get_event"]:
        return [1, [] if r is None else [ev_w(r)]]
    if code == OPCODE["count"]:
        return [3, int(r)]
    if code == OPCODE["buckets"]:
        return [6, [[n_of(k), meta_w(v)] for k, v in r.items()]]
    if code == OPCODE["delete"]:
        return [4, 1 if r else 0]       # peewee returns the row count 0/1 (1 == True)
    if r is None:
        return [0]
    if isinstance(r, bool):
        return [4, 1 if r else 0]
    if isinstance(r, list):
        return [2, [ev_w(e) for e in r]]
    if isinstance(r, dict) and "timestamp" in r:
        return [1, [ev_w(r)]]
    if isinstance(r, dict):
        return [5, n_of(r["id"]), meta_w(r)]
    if type(r).__name__ == "Bucket" and hasattr(r, "bucket_id"):
        return [7, n_of(r.bucket_id)]       # Datastore.create_bucket hands back a Bucket object
    raise TypeError(f"unexpected return value {r!r}")


def _is_event(x):
    return isinstance(x, dict) and hasattr(x, "timestamp") and "timestamp" in x


def apply_op(st, op, args=None, keep=None):
    """Run one concrete wire op on the storage (or on a ViaDatastore facade); returns [0, out] or
    [1, errcode].  args: optional list parallel to the op's event arguments, an entry that is not None
    is the Event OBJECT to pass (instead of a fresh mk_ev of the wire event).  keep: optional pair of
    lists (passed, got) to which the Event objects handed to / handed back by the call are appended."""
    code = op[0]

    def arg(w, k=0):
        o = args[k] if args is not None and k < len(args) and args[k] is not None else mk_ev(w)
        if keep is not None:
            keep[0].append(o)
        return o
    try:
        if code == 0:
            _, b, (ty, cl, ho, cr, na, da) = op
            r = st.create_bucket(s_of(b), s_of(ty), s_of(cl), s_of(ho), created_of(cr),
                                 s_of(unopt(na)), data_of(da) if da != 0 else None)
        elif code == 1:
            _, b, ty, cl, ho, na, da = op
            da = unopt(da)
            r = st.update_bucket(s_of(b), s_of(unopt(ty)), s_of(unopt(cl)), s_of(unopt(ho)),
                                 s_of(unopt(na)), None if da is None else data_of(da))
        elif code == 2:
            r = st.delete_bucket(s_of(op[1]))
        elif code == 3:
            r = st.buckets()
        elif code == 4:
            r = st.get_metadata(s_of(op[1]))
        elif code == 5:
            r = st.insert_one(s_of(op[1]), arg(op[2]))
        elif code == 6:
            r = st.insert_many(s_of(op[1]), [arg(w, k) for k, w in enumerate(op[2])])
        elif code == 7:
            r = st.replace(s_of(op[1]), op[2], arg(op[3]))
        elif code == 8:
            r = st.replace_last(s_of(op[1]), arg(op[2]))
        elif code == 9:
            r = st.delete(s_of(op[1]), op[2])
        elif code == 10:
            r = st.get_event(s_of(op[1]), op[2])
        elif code == 11:
            _, b, limit, s, e = op
            s, e = unopt(s), unopt(e)
            r = st.get_events(s_of(b), limit, None if s is None else dt(s), None if e is None else dt(e))
        elif code == 12:
            _, b, s, e = op
            s, e = unopt(s), unopt(e)
            r = st.get_eventcount(s_of(b), None if s is None else dt(s), None if e is None else dt(e))
        elif code == 13:
            o, field, v = args[0], TOUCH_FIELDS[op[1]], op[2]
            if field == "data":
                d = o.data              # the dict the caller holds: changed in place, not replaced
                scramble_nested(d)      # .. at every depth: the containers below the top level first
                d.clear()
                d.update(data_of(v))
            elif field == "timestamp":
                o.timestamp = dt(v)
            elif field == "duration":
                o.duration = timedelta(microseconds=v)
            else:
                o.id = v
            r = None
        else:
            raise RuntimeError("bad op")
    except Exception as ex:  # noqa: BLE001 -- the error class is the observation
        return [1, ERR.get(type(ex).__name__, 10)]
    if keep is not None:
        keep[1].extend([r] if _is_event(r) else [e for e in r if _is_event(e)] if isinstance(r, list) else [])
    return [0, canon_out(code, r)]


def dump(st, univ):
    """Metadata and events (sorted by id) of every bucket of the universe, through the API."""
    out = []
    for b in univ:
        try:
            m = st.get_metadata(s_of(b))
        except ValueError:
            out.append([])
            continue
        evs = sorted((ev_w(e) for e in st.get_events(s_of(b), -1)), key=lambda w: (w[0], w[1:]))
        out.append([[meta_w(m), evs]])
    return out


def live_ids(view):
    return [] if view == [] else [w[0][0] for w in view[0][1]]


def resolve(h, b, univ, views, seen):
    """Handle -> concrete id (or None when it cannot be resolved)."""
    kind, k = h
    here = sorted(live_ids(views[univ.index(b)])) if b in univ else []
    if kind == "lit":
        return k
    if kind == "live":
        return here[k % len(here)] if here else None
    if kind == "foreign":
        other = sorted({i for bb, v in zip(univ, views) if bb != b for i in live_ids(v)} - set(here))
        if other:
            return other[k % len(other)]
        kind = "dead"
    if kind == "gone":
        gone = sorted(seen - set(here))
        if gone:
            return gone[k % len(gone)]
        kind = "dead"
    return (max(seen) if seen else 0) + 1 + k


def pick_object(tag, held):
    """["obj", "passed"|"got", k] -> (provenance, Event object) among the 6 most recent objects the
    caller handed to ("passed") / got back from ("got") the store in this run; None when it holds none."""
    _, src, k = tag
    order = [0, 1] if src == "passed" else [1, 0]
    for which in order:
        lst = held[which]
        if lst:
            idx = len(lst) - 1 - (k % min(len(lst), 6))
            return [["passed", "got"][which], idx], lst[idx]
    return None


def concretise_objs(op, univ, views, seen, held=None):
    """Symbolic op -> (wire op, args, provenance) or None when a ["live", k] handle has nothing to
    name.  args / provenance are parallel to the op's event arguments: the Event object to re-use and
    where the caller got it from (["passed"|"got", index]), None for a fresh object."""
    name = op[0]
    code = OPCODE[name]
    args, prov = [], []

    def ev(e, b):
        h, t, d, x = e[:4]
        if len(e) > 4 and e[4] is not None and held is not None:
            got = pick_object(e[4], held)
            if got is not None:
                prov.append(got[0])
                args.append(got[1])
                return ev_w(got[1])          # the value the object has NOW is what is passed
        if h is None:
            w = [[], t, d, x]
        else:
            i = resolve(h, b, univ, views, seen)
            if i is None:
                return None
            w = [[i], t, d, x]
        prov.append(None)
        args.append(None)
        return w

    def done(wire):
        return wire, args, prov
    if name == "touch":
        got = pick_object(op[1], held) if held is not None else None
        if got is None:
            return None
        return [code, TOUCH_FIELDS.index(op[2]), op[3]], [got[1]], [got[0]]
    if name == "create":
        ty, cl, ho, cr, na, da = op[2]
        return done([code, op[1], [ty, cl, ho, cr, opt(na), da]])
    if name == "update":
        return done([code, op[1]] + [opt(v) for v in op[2:7]])
    if name in ("delete_bucket", "metadata"):
        return done([code, op[1]])
    if name == "buckets":
        return done([code])
    if name in ("insert", "replace_last"):
        e = ev(op[2], op[1])
        return None if e is None else done([code, op[1], e])
    if name == "insert_many":
        es = [ev(e, op[1]) for e in op[2]]
        es = [e for e in es if e is not None]
        return done([code, op[1], es])
    if name == "replace":
        i = resolve(op[2], op[1], univ, views, seen)
        if i is None:
            return None
        e = ev(op[3], op[1])
        return None if e is None else done([code, op[1], i, e])
    if name in ("delete", "get_event"):
        i = resolve(op[2], op[1], univ, views, seen)
        return None if i is None else done([code, op[1], i])
    if name == "get":
        return done([code, op[1], op[2], opt(op[3]), opt(op[4])])
    if name == "count":
        return done([code, op[1], opt(op[2]), opt(op[3])])
    raise ValueError(name)


def concretise(op, univ, views, seen):
    """Symbolic op -> wire op, or None when a ["live", k] handle has nothing to name."""
    c = concretise_objs(op, univ, views, seen)
    return None if c is None else c[0]


def run_history(backend, sym_ops, univ, tmpdir, n, quiet_from=None, layer="storage"):
    """-> {"ops": concrete wire ops, "steps": [[res, view...] per op], "layer", "objs": per op the
    provenance of every re-used Event object (None = fresh)}.
    Ops at index >= quiet_from (an index into sym_ops) are applied WITHOUT the dump after them
    (the dump reads through get_events, which commits on sqlite): their step is [res] only, handles
    are resolved against the last dump taken, and "final" holds the one dump taken at the end.
    layer "datastore": every call goes through aw_datastore.Datastore / Bucket (ViaDatastore)."""
    st = open_layer(backend, tmpdir, n, layer)
    try:
        views = dump(st, univ)
        seen = set()
        ops, steps, objs = [], [], []
        held = ([], [])
        quiet_at = None
        for idx, sop in enumerate(sym_ops):
            c = concretise_objs(sop, univ, views, seen, held)
            if c is None:
                continue
            op, args, prov = c
            quiet = quiet_from is not None and idx >= quiet_from
            if quiet and quiet_at is None:
                quiet_at = len(ops)
            res = apply_op(st, op, args, held)
            ops.append(op)
            objs.append(prov if any(p is not None for p in prov) else None)
            if quiet:
                steps.append([res])
                continue
            views = dump(st, univ)
            for v in views:
                seen.update(live_ids(v))
            steps.append([res] + views)
        out = {"ops": ops, "steps": steps, "layer": layer, "objs": objs}
        if quiet_from is not None:
            out["quiet_at"] = len(ops) if quiet_at is None else quiet_at
            out["final"] = dump(st, univ)
        return out
    finally:
        close_layer(backend, st, tmpdir, n)


def replay_run(backend, ops, univ, layer="storage", objs=None):
    """Re-run CONCRETE wire ops (what a replay file holds) on a fresh back end, with the same object
    identities (objs[j] = provenance per event argument of op j) -> [[res, view...] per op]."""
    tmpdir = tempfile.mkdtemp(prefix="awstore-replay-")
    st = open_layer(backend, tmpdir, 0, layer)
    try:
        held = ([], [])
        steps = []
        for j, op in enumerate(ops):
            prov = (objs[j] if objs and j < len(objs) else None) or []
            args = [None if p is None else held[0 if p[0] == "passed" else 1][p[1]] for p in prov]
            res = apply_op(st, op, args, held)
            steps.append([res] + dump(st, univ))
        return steps
    finally:
        close_layer(backend, st, tmpdir, 0)
        shutil.rmtree(tmpdir, ignore_errors=True)


_WORK = {}


def _worker(args):
    lo, hi = args
    tmpdir = tempfile.mkdtemp(prefix="awstore-", dir=_WORK["tmp"])
    out = []
    try:
        for n in range(lo, hi):
            h = _WORK["hist"][n]
            sym, univ = h[0], h[1]
            q = h[2] if len(h) > 2 else None
            layer = h[3] if len(h) > 3 else "storage"
            out.append({be: run_history(be, sym, univ, tmpdir, n, q, layer) for be in _WORK["backends"]})
    finally:
        shutil.rmtree(tmpdir, ignore_errors=True)
    return lo, out


def run_impl_batch(histories, backends=BACKENDS, procs=None):
    """histories: list of (symbolic ops, universe[, quiet_from | None[, layer]]).  One result dict
    {backend: run} per history.
    Forks workers (each keeps at most one PeeweeStorage open at a time)."""
    procs = procs or min(12, os.cpu_count() or 2)
    # PeeweeStorage.__init__ creates the default data dir with a check-then-mkdir: do it once
    # here so that forked workers cannot race on it
    from aw_core.dirs import get_data_dir
    get_data_dir("aw-server")
    tmp = tempfile.mkdtemp(prefix="awstore-batch-")
    _WORK.update(hist=histories, backends=list(backends), tmp=tmp)
    n = len(histories)
    step = max(1, min(50, (n + procs * 4 - 1) // (procs * 4)))
    jobs = [(i, min(n, i + step)) for i in range(0, n, step)]
    results = [None] * n
    try:
        if procs == 1 or n <= 2:
            parts = [_worker(j) for j in jobs]
        else:
            ctx = multiprocessing.get_context("fork")
            with ctx.Pool(procs) as pool:
                parts = pool.map(_worker, jobs, chunksize=1)
        for lo, out in parts:
            results[lo:lo + len(out)] = out
    finally:
        shutil.rmtree(tmp, ignore_errors=True)
    return results


# ---------------------------------------------------------------------------
# the model side


def canon_step(step):
    """Model output for one op -> same canonical shape as the implementation side (events of a
    view sorted by id; results untouched)."""
    res, views = step[0], step[1:]
    out = []
    for v in views:
        if v == []:
            out.append([])
        else:
            m, evs = v[0]
            out.append([[m, sorted(evs, key=lambda w: (w[0], w[1:]))]])
    return [res] + out


def run_model_batch(prop, runs):
    """runs: list of (backend, universe, concrete ops[, layer]) -> list of per-op canonical steps.
    Layer "datastore" needs the two-layer driver (Extract/ExC02ds.v): case tag 30."""
    cases = [common.sx(([30] if len(r) > 3 and r[3] == "datastore" else [])
                       + [BACKEND_CODE[r[0]], r[1], [o for o in r[2] if o[0] != 13]])
             for r in runs]
    outs = common.run_driver(prop, cases)
    res = []
    for r, o in zip(runs, outs):
        if o == [-999]:
            res.append(None)
            continue
        steps = [canon_step(s) for s in o]
        if any(op[0] == 13 for op in r[2]):
            # a caller touching its own object is no step of the model: result None, state as it was
            it, full, views = iter(steps), [], [[] for _ in r[1]]
            for op in r[2]:
                if op[0] == 13:
                    full.append([[0, [0]]] + views)
                else:
                    st = next(it)
                    views = st[1:]
                    full.append(st)
            steps = full
        res.append(steps)
    return res


def first_difference(model_steps, run):
    """Index and the two sides of the first step on which model and implementation differ (None when
    they agree).  Steps taken without a dump compare the result only; a quiet run also compares the
    final dump with the model's views after the last op."""
    steps = run["steps"]
    if model_steps is None or len(model_steps) != len(steps):
        return -1, model_steps, "driver could not decode the history"
    for j, (ms, is_) in enumerate(zip(model_steps, steps)):
        if (ms[:1] if len(is_) == 1 else ms) != is_:
            return j, ms, is_
    if "final" in run and steps and model_steps[-1][1:] != run["final"]:
        return len(steps) - 1, model_steps[-1][1:], run["final"]
    return None


# ---------------------------------------------------------------------------
# generators


def rnd_meta(rng, falsy=False):
    lo = 0 if falsy else 1
    return [rng.randrange(lo, 5), rng.randrange(lo, 5), rng.randrange(lo, 5), rng.randrange(0, 4),
            rng.choice([None, None, rng.randrange(lo, 9)]), rng.choice([0, 0, 1, 2, 1, 2, rng.choice(RICH_LABELS)])]


DURS = [0, 0, 0, 500_000, SEC, SEC, 2 * SEC, 1_500_000, 3 * SEC, 1, 1001, 25 * HOUR]


def rnd_ev(rng, pool, handle=None):
    return [handle, BASE + rng.choice(pool) * SEC, rng.choice(DURS), rnd_label(rng)]


def rnd_window(rng, pool):
    """Window edges a quarter second off every event edge (edge arithmetic is C03's)."""
    def edge():
        return BASE + rng.choice(pool + [pool[-1] + 4, 24 * 3600 + 1800]) * SEC + rng.choice([250_000, 750_000])
    a, b = edge(), edge()
    k = rng.random()
    if k < 0.3:
        return None, max(a, b)
    if k < 0.6:
        return min(a, b), None
    return min(a, b), max(a, b)


def gen_history(rng, malformed, max_ops=40, reuse=0.0):
    """One symbolic history over 1-3 buckets.  Well-formed = the side condition of C02's
    quantifier holds (ops address existing buckets, replace/upsert ids are live, replace_last on
    non-empty buckets, single inserts carry no id); `malformed` switches on everything else.
    The event handed to replace / replace_last carries an id of its own in half of the calls (a live
    id of the bucket - the addressed one or another -; with `malformed` any kind: foreign, dead, gone).
    reuse = probability that an event argument is not a fresh object but one the caller already
    passed to / got back from the store (["obj", ...] tag, see pick_object)."""
    nb = rng.choice([1, 2, 2, 3, 3])
    buckets = list(range(1, nb + 1))
    univ = buckets + [MISSING_BUCKET]
    pool = sorted(rng.sample(range(0, 9), rng.choice([4, 5, 6])))
    n_ops = rng.randrange(1, max_ops + 1)
    ops = []
    exists = set()
    count = {b: 0 for b in univ}          # upper bound of live events (generator's own bookkeeping)
    for b in buckets:
        if rng.random() < 0.9:
            ops.append(["create", b, rnd_meta(rng)])
            exists.add(b)
    while len(ops) < n_ops + nb:
        r = rng.random()
        bad = malformed and rng.random() < 0.25
        if bad:
            b = rng.choice(univ)
        elif exists:
            b = rng.choice(sorted(exists))
        else:
            b = rng.choice(buckets)
            ops.append(["create", b, rnd_meta(rng)])
            exists.add(b)
            continue

        def idh(live_ok=True):
            if bad or (malformed and rng.random() < 0.3):
                return [rng.choice(["foreign", "foreign", "dead", "gone", "live"]), rng.randrange(0, 4)]
            return ["live", rng.randrange(0, 6)]

        def carried(addressed=None):
            """The id the event handed to replace / replace_last carries itself."""
            if rng.random() < 0.5:
                return None
            if addressed is not None and rng.random() < 0.4:
                return list(addressed)
            return idh()

        def obj(e):
            if reuse and rng.random() < reuse:
                return e + [["obj", rng.choice(["passed", "passed", "got"]), rng.randrange(0, 6)]]
            return e
        if r < 0.22:
            h = idh() if (malformed and rng.random() < 0.2) else None
            ops.append(["insert", b, obj(rnd_ev(rng, pool, h))])
            count[b] += 1
        elif r < 0.34:
            evs = []
            for _ in range(rng.choice([0, 1, 1, 2, 3, 3, 5])):
                up = rng.random() < 0.35 and (count[b] > 0 or malformed)
                evs.append(obj(rnd_ev(rng, pool, idh() if up else None)))
            ops.append(["insert_many", b, evs])
            count[b] += len(evs)
        elif r < 0.44:
            if count[b] > 0 or malformed:
                i = idh()
                ops.append(["replace", b, i, obj(rnd_ev(rng, pool, carried(i)))])
        elif r < 0.58:
            if count[b] > 0 or bad:
                ops.append(["get", b, 1, None, None])
                ops.append(["replace_last", b, obj(rnd_ev(rng, pool, carried()))])
                ops.append(["get", b, -1, None, None])
        elif r < 0.68:
            h = idh()
            if not malformed and rng.random() < 0.4:
                # "never existed" is inside the quantifier: an id nobody ever issued, or (global id
                # space of the SQL back ends) an id that is live in ANOTHER bucket
                h = [rng.choice(["dead", "foreign", "foreign"]), rng.randrange(0, 3)]
            ops.append(["delete", b, h])
        elif r < 0.74:
            ops.append(["get_event", b, idh() if rng.random() < 0.8 or malformed else ["dead", 0]])
        elif r < 0.84:
            lim = rng.choice([-1, -1, 1, 1, 2, 3, 0, -5])
            if rng.random() < 0.35:
                s, e = rnd_window(rng, pool)
                ops.append(["get", b, lim, s, e])
                ops.append(["count", b, s, e])
            else:
                ops.append(["get", b, lim, None, None])
        elif r < 0.87:
            ops.append(["count", b, None, None])
        elif r < 0.90:
            ops.append(["metadata", b])
            ops.append(["buckets"])
        elif r < 0.94:
            if malformed and rng.random() < 0.4:
                vals = [rng.choice([None, None, 0, rng.randrange(1, 6)]) for _ in range(5)]
            else:
                vals = [rng.choice([None, rng.randrange(1, 6)]) for _ in range(5)]
                if all(v is None for v in vals):
                    vals[rng.randrange(0, 5)] = rng.randrange(1, 6)
            ops.append(["update", b] + vals)
        elif r < 0.97:
            ops.append(["delete_bucket", b])
            exists.discard(b)
            count[b] = 0
        else:
            if b not in exists or bad:
                if b != MISSING_BUCKET:
                    ops.append(["create", b, rnd_meta(rng, falsy=malformed)])
                    exists.add(b)
                    count[b] = 0
        # the caller goes on using an object it passed / got: changes it in place (no operation at all)
        if reuse and ops and ops[-1][0] in ("insert", "insert_many", "replace", "replace_last", "get", "get_event") \
                and rng.random() < reuse / 2:
            f = rng.choice(TOUCH_FIELDS + ["data"])
            v = {"data": rnd_label(rng), "timestamp": BASE + rng.choice(pool) * SEC + 1000,
                 "duration": rng.choice(DURS), "id": rng.randrange(0, 8)}[f]
            ops.append(["touch", ["obj", rng.choice(["passed", "passed", "got"]), rng.randrange(0, 3)], f, v])
            b_dump = rng.choice(sorted(exists)) if exists else b
            ops.append(["get", b_dump, -1, None, None])
        # reads straight after a write (a layer that keeps state of its own - a cached count, a
        # remembered last event - is stale exactly here), a quarter of the writes
        if ops and ops[-1][0] in ("insert", "insert_many", "replace", "delete", "update") and ops[-1][1] == b \
                and (b in exists or malformed) and rng.random() < 0.25:
            k = rng.random()
            if k < 0.4:
                ops.append(["count", b, None, None])
            elif k < 0.7:
                ops.append(["get_event", b, ["live", rng.randrange(0, 6)]])
            elif k < 0.85:
                ops.append(["get", b, 1, None, None])
            else:
                ops.append(["metadata", b])
    return ops, univ


def boundary_histories():
    """Deterministic corpus: every tie pattern of start/end instants of two events on a 0..2 grid
    in one bucket, a second bucket holding the same instants, limit-1 read + replace_last, then
    delete-newest + insert (id reuse) + bulk upsert."""
    out = []
    m = [1, 1, 1, 0, None, 0]
    for t1 in (0, 1):
        for d1 in (0, 1, 2):
            for t2 in (0, 1, 2):
                for d2 in (0, 1):
                    e1 = [None, BASE + t1 * SEC, d1 * SEC, 1]
                    e2 = [None, BASE + t2 * SEC, d2 * SEC, 2]
                    ops = [["create", 1, m], ["create", 2, m],
                           ["insert", 1, e1], ["insert", 2, [None, BASE + t2 * SEC, d2 * SEC, 3]],
                           ["insert", 1, e2], ["insert", 2, [None, BASE + t1 * SEC, d1 * SEC, 4]],
                           ["get", 1, 1, None, None], ["replace_last", 1, [None, BASE + t2 * SEC, 3 * SEC, 5]],
                           ["get", 1, -1, None, None], ["get", 2, -1, None, None],
                           ["delete", 1, ["foreign", 0]], ["delete", 2, ["foreign", 1]],
                           ["get", 1, -1, None, None], ["get", 2, -1, None, None],
                           ["delete", 1, ["live", 1]], ["insert", 1, [None, BASE + t1 * SEC, 0, 6]],
                           ["insert_many", 1, [[None, BASE + t2 * SEC, 0, 7], [["live", 0], BASE + t2 * SEC, d1 * SEC, 8],
                                               [None, BASE + t2 * SEC, SEC, 9]]],
                           ["get", 1, 1, None, None], ["replace_last", 1, [None, BASE + 2 * SEC, 0, 10]],
                           ["get", 1, -1, None, None], ["count", 1, None, None],
                           ["delete_bucket", 2], ["create", 2, m], ["insert", 2, e1], ["get", 2, -1, None, None]]
                    out.append((ops, [1, 2, MISSING_BUCKET]))
    return out


def malformed_boundary_histories():
    """Deterministic corpus of ill-addressed operations: for every write op, an id of another
    bucket / a dead id / a missing bucket / an empty bucket."""
    out = []
    m = [1, 2, 3, 0, 4, 1]
    ea = [None, BASE, SEC, 1]
    eb = [None, BASE, SEC, 2]
    x = [None, BASE + SEC, 0, 9]
    base = [["create", 1, m], ["create", 2, m], ["create", 3, m],
            ["insert", 1, ea], ["insert", 2, eb], ["insert", 1, [None, BASE + SEC, 0, 3]]]
    for h in (["foreign", 0], ["dead", 0], ["gone", 0], ["live", 0]):
        for b in (2, 3, MISSING_BUCKET):
            bad = [["replace", b, h, x], ["delete", b, h], ["get_event", b, h],
                   ["insert", b, [h] + x[1:]], ["insert_many", b, [x, [h] + x[1:], x]],
                   ["insert_many", b, [[h] + x[1:]]], ["replace_last", b, x],
                   ["get", b, -1, None, None], ["get", b, 0, None, None], ["count", b, None, None],
                   ["update", b, None, None, None, None, None], ["update", b, 0, None, 5, None, 0],
                   ["create", b, m], ["delete_bucket", b], ["delete_bucket", b], ["metadata", b], ["buckets"]]
            for i in range(len(bad)):
                out.append((base + [["delete", 1, ["live", 1]]] + bad[i:i + 3], [1, 2, 3, MISSING_BUCKET]))
    return out


def recreate_histories():
    """Bucket ids and event ids that come back: bucket 1 holds the globally newest event id and has just had a
    replace_last that kept the instant; it is deleted, another bucket receives the next event (on peewee the freed
    row id is handed out again), bucket 1 is created again, and then every write that addresses 'the last event' or
    a remembered id of the old bucket 1 arrives.  Anything a store remembers per bucket id or per row across
    delete_bucket lands on the other bucket's event."""
    out = []
    m = [1, 2, 3, 0, 4, 1]
    for t_keep in (True, False):
        for n_other in (0, 2):
            ea = [None, BASE + 5 * SEC, SEC, 1]
            x = [None, BASE + (5 if t_keep else 6) * SEC, 2 * SEC, 1]
            y = [None, x[1], 3 * SEC, 7]
            base = ([["create", 1, m], ["create", 2, m], ["insert", 2, [None, BASE, SEC, 2]]]
                    + [["insert", 2, [None, BASE + (i + 1) * SEC, 0, 4]] for i in range(n_other)]
                    + [["insert", 1, ea], ["replace_last", 1, x], ["get", 1, 1, None, None],
                       ["delete_bucket", 1], ["insert", 2, [None, BASE + 9 * SEC, SEC, 5]], ["create", 1, m]])
            tails = [[["replace_last", 1, y]],
                     [["replace", 1, ["gone", 0], y]],
                     [["delete", 1, ["gone", 0]]],
                     [["get_event", 1, ["gone", 0]]],
                     [["insert", 1, [None, BASE + 20 * SEC, 0, 8]], ["replace_last", 1, y]],
                     [["insert_many", 1, [y, y]], ["replace_last", 1, y], ["delete_bucket", 1], ["create", 1, m],
                      ["replace_last", 1, y]]]
            for tail in tails:
                out.append((base + tail + [["get", 2, -1, None, None], ["get", 1, -1, None, None], ["buckets"]], [1, 2]))
    return out


def bulk_boundary_histories():
    """Deterministic corpus for the bulk call: lists of every small length and composition
    (0, 1, 2, 3 elements; upserts of live ids u, plain inserts n, mixed in both orders; the same id
    twice), on a bucket of four events with a second bucket holding the same instants, followed by the
    reads (all, by id, count).  Meant to be run on BOTH layers: the public Bucket.insert takes `an
    Event or a list` and decides by type / length what to call."""
    out = []
    m = [1, 1, 1, 0, None, 0]
    base = [["create", 1, m], ["create", 2, m]]
    for k in range(4):
        base += [["insert", 1, [None, BASE + k * SEC, SEC, k + 1]], ["insert", 2, [None, BASE + k * SEC, SEC, k + 1]]]
    base += [["delete", 1, ["live", 0]], ["delete", 2, ["live", 3]]]

    def n(k):
        return [None, BASE + (5 + k) * SEC, k * SEC, 10 + k]

    def u(k, x):
        return [["live", k], BASE + k * SEC, 2 * SEC + x, 20 + x]
    shapes = [[], [n(0)], [u(0, 0)], [u(1, 1)], [u(2, 2)], [n(0), n(1)], [u(0, 0), u(1, 1)], [u(1, 0), u(1, 1)],
              [n(0), u(2, 1)], [u(2, 1), n(0)], [u(0, 0), u(1, 1), u(2, 2)], [n(0), n(1), n(2)],
              [u(1, 0), n(0), u(0, 1)], [n(0), u(2, 0), n(1)]]
    for i, shape in enumerate(shapes):
        ops = list(base) + [["insert_many", 1, shape], ["get", 1, -1, None, None], ["count", 1, None, None],
                            ["get_event", 1, ["live", 0]], ["get_event", 1, ["live", 1]]]
        # a second bulk call and single calls afterwards: ids issued after the bulk call
        nxt = shapes[(i + 3) % len(shapes)]
        ops += [["insert_many", 1, nxt], ["insert", 1, n(3)], ["insert_many", 2, shape],
                ["get", 1, 1, None, None], ["replace_last", 1, [None, BASE + 9 * SEC, 0, 30]],
                ["get", 1, -1, None, None], ["get", 2, -1, None, None], ["count", 2, None, None]]
        out.append((ops, [1, 2, MISSING_BUCKET]))
    return out


def read_write_read_histories():
    """Deterministic corpus: every read (count, all, limit 1, by id, metadata, listing) BEFORE and AFTER
    every kind of write, the same reads twice in a row, on two buckets holding the same instants - a
    layer that answers a read from something it remembered is stale on the second round."""
    out = []
    m = [1, 1, 1, 0, None, 0]
    base = [["create", 1, m], ["create", 2, m]]
    for k in range(3):
        base += [["insert", 1, [None, BASE + k * SEC, SEC, k + 1]], ["insert", 2, [None, BASE + k * SEC, SEC, k + 1]]]

    def reads(b):
        return [["count", b, None, None], ["get", b, -1, None, None], ["get", b, 1, None, None],
                ["get_event", b, ["live", 0]], ["get_event", b, ["live", 5]], ["metadata", b], ["buckets"],
                ["count", b, None, None]]
    x = [None, BASE + 7 * SEC, 2 * SEC, 9]
    writes = [[["insert", 1, x]], [["insert_many", 1, [x]]], [["insert_many", 1, [x, [["live", 1], BASE, 3 * SEC, 8]]]],
              [["replace", 1, ["live", 1], x]], [["replace_last", 1, x]], [["delete", 1, ["live", 2]]],
              [["delete", 1, ["live", 0]], ["insert", 1, x]], [["update", 1, 2, None, None, 3, None]],
              [["delete_bucket", 1], ["create", 1, m], ["insert", 1, x]]]
    for i, w in enumerate(writes):
        w2 = writes[(i + 5) % len(writes)]
        out.append((base + reads(1) + w + reads(1) + reads(2) + w2 + reads(1) + [["delete", 1, ["live", 0]]] + reads(1),
                    [1, 2, MISSING_BUCKET]))
    return out


def carried_id_histories():
    """Deterministic corpus: the event ARGUMENT carries an id of its own that differs from the id the
    call addresses.  For replace (addressed id live in the bucket) and replace_last (addresses the
    newest event) and insert / one-element bulk call, the carried id is an id of another bucket
    (two different ones), a dead id, a deleted id, the addressed id itself, another live id of the same
    bucket.  Three populated buckets; ids are global on the SQL back ends."""
    out = []
    m = [1, 2, 3, 0, 4, 1]
    base = [["create", 1, m], ["create", 2, m], ["create", 3, m],
            ["insert", 1, [None, BASE, SEC, 1]], ["insert", 2, [None, BASE, SEC, 2]],
            ["insert", 1, [None, BASE + 10 * SEC, SEC, 3]], ["insert", 2, [None, BASE + 10 * SEC, SEC, 4]],
            ["insert", 3, [None, BASE, SEC, 5]], ["insert", 2, [None, BASE + 5 * SEC, 0, 6]],
            ["insert", 3, [None, BASE + 5 * SEC, 0, 7]], ["delete", 3, ["live", 1]]]
    for h in (["foreign", 0], ["foreign", 1], ["foreign", 2], ["dead", 0], ["gone", 0], ["live", 0], ["live", 1], ["live", 2]):
        e = [h, BASE + 4 * SEC, SEC, 9]
        for a in (0, 1, 2):
            out.append((base + [["replace", 2, ["live", a], e], ["get", 2, -1, None, None]], [1, 2, 3, MISSING_BUCKET]))
        for b in (2, 3):
            out.append((base + [["get", b, 1, None, None], ["replace_last", b, e], ["get", b, -1, None, None],
                                ["insert_many", b, [e]], ["insert", b, e]], [1, 2, 3, MISSING_BUCKET]))
    return out


def reuse_histories():
    """Deterministic corpus: ONE Event object handed to two (then three) calls addressed to different
    buckets - first call x second call over insert / one-element bulk / replace / replace_last -, and an
    Event object the store handed back (limit-1 read, read by id, result of insert) handed to a write on
    another bucket (copying an event from bucket to bucket).  The buckets hold 3, 1 and 2 events, so the
    ids the calls address differ from bucket to bucket."""
    out = []
    m = [1, 1, 1, 0, None, 0]
    univ = [1, 2, 3, MISSING_BUCKET]
    base = [["create", 1, m], ["create", 2, m], ["create", 3, m]]
    for k in range(3):
        base.append(["insert", 1, [None, BASE + k * SEC, SEC, k + 1]])
    base.append(["insert", 2, [None, BASE, SEC, 4]])
    base += [["insert", 3, [None, BASE, SEC, 5]], ["insert", 3, [None, BASE + SEC, SEC, 6]]]
    x = [None, BASE + 2 * SEC, 5 * SEC, 9]
    same = x + [["obj", "passed", 0]]

    def call(kind, b, e):
        if kind == "insert":
            return ["insert", b, e]
        if kind == "bulk":
            return ["insert_many", b, [e]]
        if kind == "replace":
            return ["replace", b, ["live", 0], e]
        return ["replace_last", b, e]
    kinds = ("insert", "bulk", "replace", "replace_last")
    for k1 in kinds:
        for k2 in kinds:
            out.append((base + [call(k1, 1, x), call(k2, 2, same), ["get", 1, -1, None, None],
                                call(k2, 3, same), call(k1, 2, same)], univ))
    got = x + [["obj", "got", 0]]
    for read in (["get", 1, 1, None, None], ["get_event", 1, ["live", 1]], ["insert", 1, x]):
        for k2 in kinds:
            out.append((base + [read, call(k2, 2, got), ["get", 1, -1, None, None], call(k2, 3, got)], univ))
    return out


def touch_histories():
    """Deterministic corpus: after every kind of write (insert, one-element bulk insert, bulk upsert, replace,
    replace_last) the caller changes the object it passed - data dict in place, timestamp, duration, id -
    and after every kind of read (limit 1, all, by id, result of insert) the object it got; each change is
    followed by reads of both buckets.  Not one of these is an operation: nothing may change."""
    out = []
    m = [1, 1, 1, 0, None, 0]
    univ = [1, 2, MISSING_BUCKET]
    base = [["create", 1, m], ["create", 2, m]]
    for k in range(2):
        base += [["insert", 1, [None, BASE + k * SEC, SEC, k + 1]], ["insert", 2, [None, BASE + k * SEC, SEC, k + 1]]]
    x = [None, BASE + 3 * SEC, 2 * SEC, 4]

    def touches(src):
        t = []
        for f, v in (("data", 5), ("data", 0), ("timestamp", BASE + 8 * SEC), ("duration", 7 * SEC), ("id", 0), ("id", 1), ("id", 77)):
            t += [["touch", ["obj", src, 0], f, v], ["get_event", 1, ["live", 0]], ["get", 2, 1, None, None]]
        return t
    for w in ([["insert", 1, x]], [["insert_many", 1, [x]]], [["insert_many", 1, [[["live", 1]] + x[1:]]]],
              [["replace", 1, ["live", 0], x]], [["replace_last", 1, x]],
              [["replace", 1, ["live", 1], [["live", 1]] + x[1:]]]):
        out.append((base + w + touches("passed") + [["count", 1, None, None]], univ))
    for r in ([["get", 1, 1, None, None]], [["get", 1, -1, None, None]], [["get_event", 1, ["live", 1]]],
              [["insert", 1, x]], [["replace", 1, ["live", 0], x]]):
        out.append((base + r + touches("got") + [["count", 1, None, None]], univ))
    return out


def edge_data_histories():
    """Deterministic corpus (round 5): every RICH data label - text with a lone high / lone low surrogate, astral code
    points, NUL, U+2028 as values and as keys; dict / list / str / int SUBCLASSES as containers and scalars at every
    depth - as bucket data (create, update) and as event data through every kind of write: single insert, bulk insert
    between innocent neighbours, bulk upsert + insert, replace, replace_last; then the caller changes the data it
    passed / got in place at every depth (no operation).  One bulk insert of 230 events (three of peewee's 100-row
    chunks) with rich values inside the first and the last chunk."""
    out = []
    m = [1, 1, 1, 0, None, 0]
    univ = [1, 2, MISSING_BUCKET]
    for k, n in enumerate(RICH_LABELS):
        n2 = RICH_LABELS[(k + 5) % len(RICH_LABELS)]
        ops = [["create", 1, m], ["create", 2, [1, 2, 3, 1, None, n]],
               ["insert", 1, [None, BASE, SEC, 1]], ["insert", 2, [None, BASE, SEC, 2]],
               ["insert", 1, [None, BASE + SEC, SEC, n]], ["get_event", 1, ["live", 1]], ["count", 1, None, None],
               ["insert_many", 1, [[None, BASE + 2 * SEC, 0, 3], [None, BASE + 3 * SEC, SEC, n], [None, BASE + 4 * SEC, 0, 4]]],
               ["insert_many", 1, [[["live", 0], BASE, 2 * SEC, n2], [None, BASE + 5 * SEC, 0, 5]]],
               ["insert_many", 2, [[None, BASE + SEC, 0, n]]],
               ["replace", 1, ["live", 2], [None, BASE + 2 * SEC, SEC, n]],
               ["get", 1, 1, None, None], ["replace_last", 1, [None, BASE + 6 * SEC, 0, n2]],
               ["get", 1, -1, None, None], ["metadata", 2], ["buckets"],
               ["update", 2, None, None, None, None, n2], ["metadata", 2], ["update", 2, 2, None, None, 4, n], ["buckets"],
               ["insert", 1, [None, BASE + 7 * SEC, SEC, n]],
               ["touch", ["obj", "passed", 0], "data", n2], ["get", 1, -1, None, None],
               ["get", 1, 1, None, None], ["touch", ["obj", "got", 0], "data", 1], ["get", 1, -1, None, None],
               ["get_event", 1, ["live", 1]], ["touch", ["obj", "got", 0], "data", n2], ["get_event", 1, ["live", 1]],
               ["replace", 1, ["live", 0], [None, BASE + 8 * SEC, 0, n]], ["touch", ["obj", "passed", 0], "data", 0],
               ["get", 1, -1, None, None], ["delete_bucket", 2], ["create", 2, [1, 1, 1, 2, 3, n2]], ["metadata", 2]]
        out.append((ops, univ))
    big = [[None, BASE + (j % 9) * SEC, (j % 3) * SEC, RICH_LABELS[j % len(RICH_LABELS)] if j in (50, 210, 229) else 1 + j % 5]
           for j in range(230)]
    out.append(([["create", 1, m], ["insert", 1, [None, BASE, SEC, 1]], ["insert_many", 1, big], ["count", 1, None, None],
                 ["get", 1, 3, None, None]], [1, MISSING_BUCKET]))
    return out


def quiet_histories(rng, n):
    """Histories whose tail runs WITHOUT intermediate reads (a read commits on sqlite, so with a dump
    after every op nothing is ever pending when a rejected call arrives): set-up with dumps, then
    k unread ops = writes to the populated buckets interleaved with rejected / raising ops addressed
    to another bucket (a bucket that does not exist, or dead ids), one dump at the end."""
    out = []
    for _ in range(n):
        nb = rng.choice([2, 2, 3])
        buckets = list(range(1, nb + 1))
        univ = buckets + [MISSING_BUCKET]
        pool = sorted(rng.sample(range(0, 9), 4))
        ops = [["create", b, rnd_meta(rng)] for b in buckets]
        for _ in range(rng.randrange(1, 6)):
            ops.append(["insert", rng.choice(buckets), rnd_ev(rng, pool)])
        quiet_from = len(ops)
        x = rnd_ev(rng, pool)
        for _ in range(rng.randrange(2, 12)):
            r = rng.random()
            b = rng.choice(buckets)
            if r < 0.45:
                ops.append(["insert", b, rnd_ev(rng, pool)])
            elif r < 0.55:
                ops.append(["insert_many", b, [rnd_ev(rng, pool) for _ in range(rng.choice([1, 2, 3]))]])
            elif r < 0.66:
                # (no deletes in the unread tail: memory/peewee re-issue a deleted newest id, and handles
                # are resolved against the last dump taken)
                ops.append(["replace", b, ["live", rng.randrange(0, 4)], rnd_ev(rng, pool)])
            else:
                a = rng.choice([MISSING_BUCKET, MISSING_BUCKET, rng.choice(buckets)])
                rejected = [["replace", a, ["dead", rng.randrange(1000, 1010)], x],
                            ["delete", a, ["dead", rng.randrange(1000, 1010)]]]
                if a == MISSING_BUCKET:
                    rejected += [["delete_bucket", a], ["delete_bucket", a], ["update", a, 3, None, None, None, None],
                                 ["update", a, None, None, None, None, None], ["metadata", a],
                                 ["insert", a, x], ["insert_many", a, [x, x]], ["replace_last", a, x]]
                ops.append(rng.choice(rejected))
        out.append((ops, univ, quiet_from))
    return out


def describe(op):
    if op[0] == 13:
        return f"touch[caller sets .{TOUCH_FIELDS[op[1]]} of an Event object it holds := {op[2]}]"
    return OPNAME[op[0]] + str(op[1:])


def rich_values(ops):
    """{label: python repr of the concrete data} for every rich data label that occurs in the wire ops (replay files)"""
    found = set()

    def walk(x):
        if isinstance(x, list):
            for y in x:
                walk(y)
        elif isinstance(x, int) and not isinstance(x, bool) and x in RICH:
            found.add(x)
    walk(ops)
    return {str(n): repr(data_of(n)) for n in sorted(found)}


def main(argv):
    """python -m harness.store_hist <replay.json>: re-run the concrete history of a C02 / C04 replay file
    (backend, wire_ops, universe, layer, object_reuse) on a fresh back end of the tree VERIF_REPO / PYTHONPATH
    points at, and print every op with its result and the dump of every bucket after it."""
    import json
    r = json.load(open(argv[0]))
    r = r.get("replay", r)
    common.setup_impl_env()
    steps = replay_run(r["backend"], r["wire_ops"], r["universe"], r.get("layer", "storage"), r.get("object_reuse"))
    prev = None
    for j, (op, st) in enumerate(zip(r["wire_ops"], steps)):
        reuse = (r.get("object_reuse") or [None] * (j + 1))[j]
        print(f"op {j}: {describe(op)}" + (f"  [same object as {reuse}]" if reuse else "") + f" -> {st[0]}")
        for b, v, pv in zip(r["universe"], st[1:], prev or [None] * len(st[1:])):
            tgt = None if op[0] == 3 else op[1]
            mark = "   <-- changed by an op addressed to another bucket" if prev is not None and b != tgt and v != pv else ""
            print(f"    bucket {b}: {v}{mark}")
        prev = st[1:]
    return 0


if __name__ == "__main__":
    import sys
    sys.exit(main(sys.argv[1:]))
