"""Shared by C02 / C04 (and usable by the checks built on the store models): history
generation over symbolic event handles, driving the three real storage back ends through
the AbstractStorage API, canonical wire form (the one coq/Extract/ExC02.v reads), and the
model run.

A *symbolic* history names events by handle (["live", k] = k-th live id of the bucket in id
order, ["foreign", k], ["dead", k], ["gone", k]); it is resolved against the implementation's
own dumps while it runs, which yields the *concrete* history (wire ops with real ids) that
is then fed to the model of that back end.  Labels: strings "" <-> 0, "s<n>" <-> n; data {}
<-> 0, {"x": n} <-> n; created <-> seconds after BASE."""
import multiprocessing
import os
import shutil
import tempfile
from datetime import datetime, timedelta, timezone

from . import common
from .evutil import BASE, dt, us_of_dt, us_of_td

BACKENDS = ["memory", "sqlite", "peewee"]
BACKEND_CODE = {"memory": 0, "sqlite": 1, "peewee": 2}
ERR = {"KeyError": 4, "ValueError": 5, "IndexError": 6, "AttributeError": 7, "TypeError": 8,
       "IntegrityError": 9}
ERRNAME = {v: k for k, v in ERR.items()}
ERRNAME[10] = "other"
MISSING_BUCKET = 7          # a bucket label no history ever creates
SEC = 1_000_000
HOUR = 3600 * SEC

OPCODE = {"create": 0, "update": 1, "delete_bucket": 2, "buckets": 3, "metadata": 4, "insert": 5,
          "insert_many": 6, "replace": 7, "replace_last": 8, "delete": 9, "get_event": 10, "get": 11,
          "count": 12}
OPNAME = {v: k for k, v in OPCODE.items()}
WRITE_CODES = {0, 1, 2, 5, 6, 7, 8, 9}


# ---------------------------------------------------------------------------
# labels


def s_of(n):
    return None if n is None else ("" if n == 0 else "s%d" % n)


def n_of(s):
    if s is None:
        return None
    return 0 if s == "" else int(s[1:])


def data_of(n):
    return {} if n == 0 else {"x": n}


def label_of_data(d):
    return 0 if d == {} else d["x"]


def created_of(n):
    return dt(BASE + n * SEC).isoformat()


def created_label(s):
    if isinstance(s, datetime):
        d = s
    else:
        d = datetime.fromisoformat(str(s))
    if d.tzinfo is None:
        d = d.replace(tzinfo=timezone.utc)
    return (us_of_dt(d) - BASE) // SEC


def opt(v):
    return [] if v is None else [v]


def unopt(l):
    return None if l == [] else l[0]


# ---------------------------------------------------------------------------
# driving one real back end


def open_storage(backend, tmpdir, n):
    if backend == "memory":
        from aw_datastore.storages import MemoryStorage
        return MemoryStorage(testing=True)
    if backend == "sqlite":
        from aw_datastore.storages import SqliteStorage
        return SqliteStorage(testing=True, filepath=os.path.join(tmpdir, f"s{n}.db"))
    from aw_datastore.storages import PeeweeStorage
    return PeeweeStorage(testing=True, filepath=os.path.join(tmpdir, f"p{n}.db"))


def close_storage(backend, st, tmpdir, n):
    if backend == "sqlite":
        st.conn.close()
    elif backend == "peewee":
        st.db.close()
    for pre in ("s", "p"):
        for suf in ("", "-wal", "-shm", "-journal"):
            try:
                os.unlink(os.path.join(tmpdir, f"{pre}{n}.db{suf}"))
            except OSError:
                pass


def mk_ev(w):
    from aw_core.models import Event
    i, t, d, x = w
    return Event(id=unopt(i), timestamp=dt(t), duration=timedelta(microseconds=d), data=data_of(x))


def ev_w(e):
    return [opt(e.id), us_of_dt(e.timestamp), us_of_td(e.duration), label_of_data(e.data)]


def meta_w(m):
    return [n_of(m["type"]), n_of(m["client"]), n_of(m["hostname"]), created_label(m["created"]),
            opt(n_of(m["name"])), label_of_data(m["data"])]


def canon_out(code, r):
    """The value a storage method returned, in the model's `out` wire form."""
    if code == OPCODE["get_event"]:
        return [1, [] if r is None else [ev_w(r)]]
    if code == OPCODE["count"]:
        return [3, int(r)]
    if code == OPCODE["buckets"]:
        return [6, [[n_of(k), meta_w(v)] for k, v in r.items()]]
    if code == OPCODE["delete"]:
        return [4, 1 if r else 0]       # peewee returns the row count 0/1 (1 == True)
    if r is None:
        return [0]
    if isinstance(r, bool):
        return [4, 1 if r else 0]
    if isinstance(r, list):
        return [2, [ev_w(e) for e in r]]
    if isinstance(r, dict) and "timestamp" in r:
        return [1, [ev_w(r)]]
    if isinstance(r, dict):
        return [5, n_of(r["id"]), meta_w(r)]
    raise TypeError(f"unexpected return value {r!r}")


def apply_op(st, op):
    """Run one concrete wire op on the storage; returns [0, out] or [1, errcode]."""
    code = op[0]
    try:
        if code == 0:
            _, b, (ty, cl, ho, cr, na, da) = op
            r = st.create_bucket(s_of(b), s_of(ty), s_of(cl), s_of(ho), created_of(cr),
                                 s_of(unopt(na)), data_of(da) if da != 0 else None)
        elif code == 1:
            _, b, ty, cl, ho, na, da = op
            da = unopt(da)
            r = st.update_bucket(s_of(b), s_of(unopt(ty)), s_of(unopt(cl)), s_of(unopt(ho)),
                                 s_of(unopt(na)), None if da is None else data_of(da))
        elif code == 2:
            r = st.delete_bucket(s_of(op[1]))
        elif code == 3:
            r = st.buckets()
        elif code == 4:
            r = st.get_metadata(s_of(op[1]))
        elif code == 5:
            r = st.insert_one(s_of(op[1]), mk_ev(op[2]))
        elif code == 6:
            r = st.insert_many(s_of(op[1]), [mk_ev(w) for w in op[2]])
        elif code == 7:
            r = st.replace(s_of(op[1]), op[2], mk_ev(op[3]))
        elif code == 8:
            r = st.replace_last(s_of(op[1]), mk_ev(op[2]))
        elif code == 9:
            r = st.delete(s_of(op[1]), op[2])
        elif code == 10:
            r = st.get_event(s_of(op[1]), op[2])
        elif code == 11:
            _, b, limit, s, e = op
            s, e = unopt(s), unopt(e)
            r = st.get_events(s_of(b), limit, None if s is None else dt(s), None if e is None else dt(e))
        elif code == 12:
            _, b, s, e = op
            s, e = unopt(s), unopt(e)
            r = st.get_eventcount(s_of(b), None if s is None else dt(s), None if e is None else dt(e))
        else:
            raise RuntimeError("bad op")
    except Exception as ex:  # noqa: BLE001 -- the error class is the observation
        return [1, ERR.get(type(ex).__name__, 10)]
    return [0, canon_out(code, r)]


def dump(st, univ):
    """Metadata and events (sorted by id) of every bucket of the universe, through the API."""
    out = []
    for b in univ:
        try:
            m = st.get_metadata(s_of(b))
        except ValueError:
            out.append([])
            continue
        evs = sorted((ev_w(e) for e in st.get_events(s_of(b), -1)), key=lambda w: (w[0], w[1:]))
        out.append([[meta_w(m), evs]])
    return out


def live_ids(view):
    return [] if view == [] else [w[0][0] for w in view[0][1]]


def resolve(h, b, univ, views, seen):
    """Handle -> concrete id (or None when it cannot be resolved)."""
    kind, k = h
    here = sorted(live_ids(views[univ.index(b)])) if b in univ else []
    if kind == "lit":
        return k
    if kind == "live":
        return here[k % len(here)] if here else None
    if kind == "foreign":
        other = sorted({i for bb, v in zip(univ, views) if bb != b for i in live_ids(v)} - set(here))
        if other:
            return other[k % len(other)]
        kind = "dead"
    if kind == "gone":
        gone = sorted(seen - set(here))
        if gone:
            return gone[k % len(gone)]
        kind = "dead"
    return (max(seen) if seen else 0) + 1 + k


def concretise(op, univ, views, seen):
    """Symbolic op -> wire op, or None when a ["live", k] handle has nothing to name."""
    name = op[0]
    code = OPCODE[name]

    def ev(e, b):
        h, t, d, x = e
        if h is None:
            return [[], t, d, x]
        i = resolve(h, b, univ, views, seen)
        return None if i is None else [[i], t, d, x]
    if name == "create":
        ty, cl, ho, cr, na, da = op[2]
        return [code, op[1], [ty, cl, ho, cr, opt(na), da]]
    if name == "update":
        return [code, op[1]] + [opt(v) for v in op[2:7]]
    if name in ("delete_bucket", "metadata"):
        return [code, op[1]]
    if name == "buckets":
        return [code]
    if name in ("insert", "replace_last"):
        e = ev(op[2], op[1])
        return None if e is None else [code, op[1], e]
    if name == "insert_many":
        es = [ev(e, op[1]) for e in op[2]]
        es = [e for e in es if e is not None]
        return [code, op[1], es]
    if name == "replace":
        i = resolve(op[2], op[1], univ, views, seen)
        return None if i is None else [code, op[1], i, ev(op[3], op[1])]
    if name in ("delete", "get_event"):
        i = resolve(op[2], op[1], univ, views, seen)
        return None if i is None else [code, op[1], i]
    if name == "get":
        return [code, op[1], op[2], opt(op[3]), opt(op[4])]
    if name == "count":
        return [code, op[1], opt(op[2]), opt(op[3])]
    raise ValueError(name)


def run_history(backend, sym_ops, univ, tmpdir, n, quiet_from=None):
    """-> {"ops": concrete wire ops, "steps": [[res, view...] per op]}.
    Ops at index >= quiet_from (an index into sym_ops) are applied WITHOUT the dump after them
    (the dump reads through get_events, which commits on sqlite): their step is [res] only, handles
    are resolved against the last dump taken, and "final" holds the one dump taken at the end."""
    st = open_storage(backend, tmpdir, n)
    try:
        views = dump(st, univ)
        seen = set()
        ops, steps = [], []
        quiet_at = None
        for idx, sop in enumerate(sym_ops):
            op = concretise(sop, univ, views, seen)
            if op is None:
                continue
            quiet = quiet_from is not None and idx >= quiet_from
            if quiet and quiet_at is None:
                quiet_at = len(ops)
            res = apply_op(st, op)
            ops.append(op)
            if quiet:
                steps.append([res])
                continue
            views = dump(st, univ)
            for v in views:
                seen.update(live_ids(v))
            steps.append([res] + views)
        out = {"ops": ops, "steps": steps}
        if quiet_from is not None:
            out["quiet_at"] = len(ops) if quiet_at is None else quiet_at
            out["final"] = dump(st, univ)
        return out
    finally:
        close_storage(backend, st, tmpdir, n)


_WORK = {}


def _worker(args):
    lo, hi = args
    tmpdir = tempfile.mkdtemp(prefix="awstore-", dir=_WORK["tmp"])
    out = []
    try:
        for n in range(lo, hi):
            h = _WORK["hist"][n]
            sym, univ = h[0], h[1]
            q = h[2] if len(h) > 2 else None
            out.append({be: run_history(be, sym, univ, tmpdir, n, q) for be in _WORK["backends"]})
    finally:
        shutil.rmtree(tmpdir, ignore_errors=True)
    return lo, out


def run_impl_batch(histories, backends=BACKENDS, procs=None):
    """histories: list of (symbolic ops, universe).  One result dict {backend: run} per history.
    Forks workers (each keeps at most one PeeweeStorage open at a time)."""
    procs = procs or min(12, os.cpu_count() or 2)
    # PeeweeStorage.__init__ creates the default data dir with a check-then-mkdir: do it once
    # here so that forked workers cannot race on it
    from aw_core.dirs import get_data_dir
    get_data_dir("aw-server")
    tmp = tempfile.mkdtemp(prefix="awstore-batch-")
    _WORK.update(hist=histories, backends=list(backends), tmp=tmp)
    n = len(histories)
    step = max(1, min(50, (n + procs * 4 - 1) // (procs * 4)))
    jobs = [(i, min(n, i + step)) for i in range(0, n, step)]
    results = [None] * n
    try:
        if procs == 1 or n <= 2:
            parts = [_worker(j) for j in jobs]
        else:
            ctx = multiprocessing.get_context("fork")
            with ctx.Pool(procs) as pool:
                parts = pool.map(_worker, jobs, chunksize=1)
        for lo, out in parts:
            results[lo:lo + len(out)] = out
    finally:
        shutil.rmtree(tmp, ignore_errors=True)
    return results


# ---------------------------------------------------------------------------
# the model side


def canon_step(step):
    """Model output for one op -> same canonical shape as the implementation side (events of a
    view sorted by id; results untouched)."""
    res, views = step[0], step[1:]
    out = []
    for v in views:
        if v == []:
            out.append([])
        else:
            m, evs = v[0]
            out.append([[m, sorted(evs, key=lambda w: (w[0], w[1:]))]])
    return [res] + out


def run_model_batch(prop, runs):
    """runs: list of (backend, universe, concrete ops) -> list of per-op canonical steps."""
    cases = [common.sx([BACKEND_CODE[be], univ, ops]) for be, univ, ops in runs]
    outs = common.run_driver(prop, cases)
    return [[canon_step(s) for s in o] if o != [-999] else None for o in outs]


def first_difference(model_steps, run):
    """Index and the two sides of the first step on which model and implementation differ (None when
    they agree).  Steps taken without a dump compare the result only; a quiet run also compares the
    final dump with the model's views after the last op."""
    steps = run["steps"]
    if model_steps is None or len(model_steps) != len(steps):
        return -1, model_steps, "driver could not decode the history"
    for j, (ms, is_) in enumerate(zip(model_steps, steps)):
        if (ms[:1] if len(is_) == 1 else ms) != is_:
            return j, ms, is_
    if "final" in run and steps and model_steps[-1][1:] != run["final"]:
        return len(steps) - 1, model_steps[-1][1:], run["final"]
    return None


# ---------------------------------------------------------------------------
# generators


def rnd_meta(rng, falsy=False):
    lo = 0 if falsy else 1
    return [rng.randrange(lo, 5), rng.randrange(lo, 5), rng.randrange(lo, 5), rng.randrange(0, 4),
            rng.choice([None, None, rng.randrange(lo, 9)]), rng.choice([0, 0, 1, 2])]


DURS = [0, 0, 0, 500_000, SEC, SEC, 2 * SEC, 1_500_000, 3 * SEC, 1, 1001, 25 * HOUR]


def rnd_ev(rng, pool, handle=None):
    return [handle, BASE + rng.choice(pool) * SEC, rng.choice(DURS), rng.randrange(0, 6)]


def rnd_window(rng, pool):
    """Window edges a quarter second off every event edge (edge arithmetic is C03's)."""
    def edge():
        return BASE + rng.choice(pool + [pool[-1] + 4, 24 * 3600 + 1800]) * SEC + rng.choice([250_000, 750_000])
    a, b = edge(), edge()
    k = rng.random()
    if k < 0.3:
        return None, max(a, b)
    if k < 0.6:
        return min(a, b), None
    return min(a, b), max(a, b)


def gen_history(rng, malformed, max_ops=40):
    """One symbolic history over 1-3 buckets.  Well-formed = the side condition of C02's
    quantifier holds (ops address existing buckets, replace/upsert ids are live, replace_last on
    non-empty buckets, single inserts carry no id); `malformed` switches on everything else."""
    nb = rng.choice([1, 2, 2, 3, 3])
    buckets = list(range(1, nb + 1))
    univ = buckets + [MISSING_BUCKET]
    pool = sorted(rng.sample(range(0, 9), rng.choice([4, 5, 6])))
    n_ops = rng.randrange(1, max_ops + 1)
    ops = []
    exists = set()
    count = {b: 0 for b in univ}          # upper bound of live events (generator's own bookkeeping)
    for b in buckets:
        if rng.random() < 0.9:
            ops.append(["create", b, rnd_meta(rng)])
            exists.add(b)
    while len(ops) < n_ops + nb:
        r = rng.random()
        bad = malformed and rng.random() < 0.25
        if bad:
            b = rng.choice(univ)
        elif exists:
            b = rng.choice(sorted(exists))
        else:
            b = rng.choice(buckets)
            ops.append(["create", b, rnd_meta(rng)])
            exists.add(b)
            continue

        def idh(live_ok=True):
            if bad or (malformed and rng.random() < 0.3):
                return [rng.choice(["foreign", "foreign", "dead", "gone", "live"]), rng.randrange(0, 4)]
            return ["live", rng.randrange(0, 6)]
        if r < 0.22:
            h = idh() if (malformed and rng.random() < 0.2) else None
            ops.append(["insert", b, rnd_ev(rng, pool, h)])
            count[b] += 1
        elif r < 0.34:
            evs = []
            for _ in range(rng.choice([0, 1, 2, 3, 3, 5])):
                up = rng.random() < 0.35 and (count[b] > 0 or malformed)
                evs.append(rnd_ev(rng, pool, idh() if up else None))
            ops.append(["insert_many", b, evs])
            count[b] += len(evs)
        elif r < 0.44:
            if count[b] > 0 or malformed:
                ops.append(["replace", b, idh(), rnd_ev(rng, pool)])
        elif r < 0.58:
            if count[b] > 0 or bad:
                ops.append(["get", b, 1, None, None])
                ops.append(["replace_last", b, rnd_ev(rng, pool)])
                ops.append(["get", b, -1, None, None])
        elif r < 0.68:
            h = idh()
            if not malformed and rng.random() < 0.4:
                # "never existed" is inside the quantifier: an id nobody ever issued, or (global id
                # space of the SQL back ends) an id that is live in ANOTHER bucket
                h = [rng.choice(["dead", "foreign", "foreign"]), rng.randrange(0, 3)]
            ops.append(["delete", b, h])
        elif r < 0.74:
            ops.append(["get_event", b, idh() if rng.random() < 0.8 or malformed else ["dead", 0]])
        elif r < 0.84:
            lim = rng.choice([-1, -1, 1, 1, 2, 3, 0, -5])
            if rng.random() < 0.35:
                s, e = rnd_window(rng, pool)
                ops.append(["get", b, lim, s, e])
                ops.append(["count", b, s, e])
            else:
                ops.append(["get", b, lim, None, None])
        elif r < 0.87:
            ops.append(["count", b, None, None])
        elif r < 0.90:
            ops.append(["metadata", b])
            ops.append(["buckets"])
        elif r < 0.94:
            if malformed and rng.random() < 0.4:
                vals = [rng.choice([None, None, 0, rng.randrange(1, 6)]) for _ in range(5)]
            else:
                vals = [rng.choice([None, rng.randrange(1, 6)]) for _ in range(5)]
                if all(v is None for v in vals):
                    vals[rng.randrange(0, 5)] = rng.randrange(1, 6)
            ops.append(["update", b] + vals)
        elif r < 0.97:
            ops.append(["delete_bucket", b])
            exists.discard(b)
            count[b] = 0
        else:
            if b not in exists or bad:
                if b != MISSING_BUCKET:
                    ops.append(["create", b, rnd_meta(rng, falsy=malformed)])
                    exists.add(b)
                    count[b] = 0
    return ops, univ


def boundary_histories():
    """Deterministic corpus: every tie pattern of start/end instants of two events on a 0..2 grid
    in one bucket, a second bucket holding the same instants, limit-1 read + replace_last, then
    delete-newest + insert (id reuse) + bulk upsert."""
    out = []
    m = [1, 1, 1, 0, None, 0]
    for t1 in (0, 1):
        for d1 in (0, 1, 2):
            for t2 in (0, 1, 2):
                for d2 in (0, 1):
                    e1 = [None, BASE + t1 * SEC, d1 * SEC, 1]
                    e2 = [None, BASE + t2 * SEC, d2 * SEC, 2]
                    ops = [["create", 1, m], ["create", 2, m],
                           ["insert", 1, e1], ["insert", 2, [None, BASE + t2 * SEC, d2 * SEC, 3]],
                           ["insert", 1, e2], ["insert", 2, [None, BASE + t1 * SEC, d1 * SEC, 4]],
                           ["get", 1, 1, None, None], ["replace_last", 1, [None, BASE + t2 * SEC, 3 * SEC, 5]],
                           ["get", 1, -1, None, None], ["get", 2, -1, None, None],
                           ["delete", 1, ["foreign", 0]], ["delete", 2, ["foreign", 1]],
                           ["get", 1, -1, None, None], ["get", 2, -1, None, None],
                           ["delete", 1, ["live", 1]], ["insert", 1, [None, BASE + t1 * SEC, 0, 6]],
                           ["insert_many", 1, [[None, BASE + t2 * SEC, 0, 7], [["live", 0], BASE + t2 * SEC, d1 * SEC, 8],
                                               [None, BASE + t2 * SEC, SEC, 9]]],
                           ["get", 1, 1, None, None], ["replace_last", 1, [None, BASE + 2 * SEC, 0, 10]],
                           ["get", 1, -1, None, None], ["count", 1, None, None],
                           ["delete_bucket", 2], ["create", 2, m], ["insert", 2, e1], ["get", 2, -1, None, None]]
                    out.append((ops, [1, 2, MISSING_BUCKET]))
    return out


def malformed_boundary_histories():
    """Deterministic corpus of ill-addressed operations: for every write op, an id of another
    bucket / a dead id / a missing bucket / an empty bucket."""
    out = []
    m = [1, 2, 3, 0, 4, 1]
    ea = [None, BASE, SEC, 1]
    eb = [None, BASE, SEC, 2]
    x = [None, BASE + SEC, 0, 9]
    base = [["create", 1, m], ["create", 2, m], ["create", 3, m],
            ["insert", 1, ea], ["insert", 2, eb], ["insert", 1, [None, BASE + SEC, 0, 3]]]
    for h in (["foreign", 0], ["dead", 0], ["gone", 0], ["live", 0]):
        for b in (2, 3, MISSING_BUCKET):
            bad = [["replace", b, h, x], ["delete", b, h], ["get_event", b, h],
                   ["insert", b, [h] + x[1:]], ["insert_many", b, [x, [h] + x[1:], x]],
                   ["insert_many", b, [[h] + x[1:]]], ["replace_last", b, x],
                   ["get", b, -1, None, None], ["get", b, 0, None, None], ["count", b, None, None],
                   ["update", b, None, None, None, None, None], ["update", b, 0, None, 5, None, 0],
                   ["create", b, m], ["delete_bucket", b], ["delete_bucket", b], ["metadata", b], ["buckets"]]
            for i in range(len(bad)):
                out.append((base + [["delete", 1, ["live", 1]]] + bad[i:i + 3], [1, 2, 3, MISSING_BUCKET]))
    return out


def quiet_histories(rng, n):
    """Histories whose tail runs WITHOUT intermediate reads (a read commits on sqlite, so with a dump
    after every op nothing is ever pending when a rejected call arrives): set-up with dumps, then
    k unread ops = writes to the populated buckets interleaved with rejected / raising ops addressed
    to another bucket (a bucket that does not exist, or dead ids), one dump at the end."""
    out = []
    for _ in range(n):
        nb = rng.choice([2, 2, 3])
        buckets = list(range(1, nb + 1))
        univ = buckets + [MISSING_BUCKET]
        pool = sorted(rng.sample(range(0, 9), 4))
        ops = [["create", b, rnd_meta(rng)] for b in buckets]
        for _ in range(rng.randrange(1, 6)):
            ops.append(["insert", rng.choice(buckets), rnd_ev(rng, pool)])
        quiet_from = len(ops)
        x = rnd_ev(rng, pool)
        for _ in range(rng.randrange(2, 12)):
            r = rng.random()
            b = rng.choice(buckets)
            if r < 0.45:
                ops.append(["insert", b, rnd_ev(rng, pool)])
            elif r < 0.55:
                ops.append(["insert_many", b, [rnd_ev(rng, pool) for _ in range(rng.choice([1, 2, 3]))]])
            elif r < 0.66:
                # (no deletes in the unread tail: memory/peewee re-issue a deleted newest id, and handles
                # are resolved against the last dump taken)
                ops.append(["replace", b, ["live", rng.randrange(0, 4)], rnd_ev(rng, pool)])
            else:
                a = rng.choice([MISSING_BUCKET, MISSING_BUCKET, rng.choice(buckets)])
                rejected = [["replace", a, ["dead", rng.randrange(1000, 1010)], x],
                            ["delete", a, ["dead", rng.randrange(1000, 1010)]]]
                if a == MISSING_BUCKET:
                    rejected += [["delete_bucket", a], ["delete_bucket", a], ["update", a, 3, None, None, None, None],
                                 ["update", a, None, None, None, None, None], ["metadata", a],
                                 ["insert", a, x], ["insert_many", a, [x, x]], ["replace_last", a, x]]
                ops.append(rng.choice(rejected))
        out.append((ops, univ, quiet_from))
    return out


def describe(op):
    return OPNAME[op[0]] + str(op[1:])
