"""C03, peewee: the experiments behind Model/SqliteDate.v (NOT part of the check; run by hand).

    /venv/bin/python -m harness.c03_sqldate_experiments random [seed [n]]
        a Python transcription of SQLite 3.40.1's date arithmetic (Python floats = C doubles) against the engine of the
        sqlite3 module on n random / boundary rows: julianday(), the REAL value of
        (julianday(ts) - 2440587.5) * 86400.0 + duration, and the TEXT of strftime(..., 'unixepoch'), all bit-exact
        (200 000 rows: 0 differences, largest |end - (ts+dur)| 535 us)
    /venv/bin/python -m harness.c03_sqldate_experiments exhaustive
        inside the engine: all 86 400 000 milliseconds of a day (1970-01-01 and 2099-12-31) print as their exact
        H:M:S.mmm decomposition (computeHMS + %06.3f), every day 1970-01-01 .. 2101-12-31 prints as its civil date
        (computeYMD); ~5 min; 0 differences
"""
import time
from datetime import date

import sqlite3, random, math, sys
from datetime import datetime, timezone, timedelta

EPOCH = datetime(1970, 1, 1, tzinfo=timezone.utc)

def text_of_us(t):
    return str(EPOCH + timedelta(microseconds=t))

def parse_fields(txt):
    # 'YYYY-MM-DD HH:MM:SS[.ffffff]+00:00'
    Y, M, D = int(txt[0:4]), int(txt[5:7]), int(txt[8:10])
    h, mi, s = int(txt[11:13]), int(txt[14:16]), int(txt[17:19])
    frac = ""
    i = 19
    if txt[i] == "." and txt[i + 1].isdigit():
        i += 1
        while txt[i].isdigit():
            frac += txt[i]; i += 1
    assert txt[i:] == "+00:00", txt
    return Y, M, D, h, mi, s, frac

def compute_ijd(Y, M, D, h, mi, sec, frac):
    ms = 0.0; rscale = 1.0
    for ch in frac:
        ms = ms * 10.0 + (ord(ch) - 48); rscale *= 10.0
    if frac:
        ms /= rscale
    s = sec + ms
    if M <= 2:
        Y -= 1; M += 12
    A = Y // 100; B = 2 - A + A // 4
    X1 = 36525 * (Y + 4716) // 100; X2 = 306001 * (M + 1) // 10000
    ijd = int((X1 + X2 + D + B - 1524.5) * 86400000)
    ijd += h * 3600000 + mi * 60000 + int(s * 1000 + 0.5)
    return ijd

def julianday(ijd):
    return ijd / 86400000.0

def expr(jd, cell):
    return (jd - 2440587.5) * 86400.0 + float(cell)

def unixepoch(x):
    r = x * 1000.0 + 210866760000000.0
    if r >= 0.0 and r < 464269060800000.0:
        return int(r + 0.5)
    return None

def ymd(ijd, old=True):
    Z = (ijd + 43200000) // 86400000
    if old:
        A = int((Z - 1867216.25) / 36524.25)
        A = Z + 1 + A - (A // 4)
    else:
        alpha = int((Z + 32044.75) / 36524.25) - 52
        A = Z + 1 + alpha - ((alpha + 100) // 4) + 25
    B = A + 1524
    C = int((B - 122.1) / 365.25)
    D = (36525 * (C & 32767)) // 100
    E = int((B - D) / 30.6001)
    X1 = int(30.6001 * E)
    d = B - D - X1
    m = E - 1 if E < 14 else E - 13
    y = C - 4716 if m > 2 else C - 4715
    return y, m, d

def hms(ijd):
    s = (ijd + 43200000) % 86400000
    ps = s / 1000.0
    s = int(ps)
    ps -= s
    h = s // 3600
    s -= h * 3600
    m = s // 60
    ps += s - m * 60
    return h, m, ps

def fmt(ijd):
    y, mo, d = ymd(ijd)
    h, m, s = hms(ijd)
    if s > 59.999:
        s = 59.999
    # %06.3f : nearest millisecond
    from fractions import Fraction
    k = math.floor(Fraction(s) * 1000 + Fraction(1, 2))
    return "%04d-%02d-%02d %02d:%02d:%02d.%03d+00:00" % (y, mo, d, h, m, k // 1000, k % 1000)

def model(txt, cell):
    ijd = compute_ijd(*parse_fields(txt))
    jd = julianday(ijd)
    x = expr(jd, cell)
    i2 = unixepoch(x)
    return None if i2 is None else fmt(i2)


def random_rows(argv):

    con = sqlite3.connect(":memory:")
    rng = random.Random(int(argv[0]) if len(argv) > 0 else 0)
    N = int(argv[1]) if len(argv) > 1 else 200000
    bad = {"jd": 0, "x": 0, "txt": 0}
    DAY = 86400 * 10**6
    maxdev = 0
    for n in range(N):
        k = rng.random()
        if k < 0.3:
            t = rng.randrange(0, 4102444800 * 10**6 // 1000) * 1000
        elif k < 0.6:
            base = rng.choice([0, 86400, 951782400, 951868800, 2147483647, 4102444799, 4102358400, 1234567890, 1709164800, 1709251200, 946684800, 978307200])
            t = base * 10**6 + rng.randrange(-2000, 2000) * 1000
            t = max(t, 0)
        else:
            t = rng.randrange(0, 4102444800) * 10**6 + rng.choice([0, 0, 1000, 999000, 500000, 499000, 501000])
        k = rng.random()
        if k < 0.3:
            d = rng.randrange(0, DAY + 1)
        elif k < 0.5:
            d = rng.choice([0, 1, 499, 500, 501, 999, 1000, 1499, 1500, 1501, DAY, DAY - 1, DAY - 500, DAY - 499, DAY-501, 10**6, 999500, 999499, 999501])
        elif k < 0.8:
            # end near half-millisecond
            d = rng.randrange(0, DAY // 1000) * 1000 + rng.choice([499, 500, 501, 470, 530, 480, 520, 490, 510])
        else:
            d = rng.randrange(0, 10**7)
        txt = text_of_us(t)
        cell = d / 1e6
        if cell == int(cell): cell = int(cell)
        row = con.execute("select julianday(?), (julianday(?) - 2440587.5) * 86400.0 + ?, strftime('%Y-%m-%d %H:%M:%f+00:00', (julianday(?) - 2440587.5) * 86400.0 + ?, 'unixepoch')", (txt, txt, cell, txt, cell)).fetchone()
        ijd = compute_ijd(*parse_fields(txt))
        assert ijd == t // 1000 + 210866760000000, (txt, ijd)
        jd = julianday(ijd)
        x = expr(jd, cell)
        if jd != row[0]:
            bad["jd"] += 1
            if bad["jd"] < 5: print("jd", txt, jd, row[0])
        if x != row[1]:
            bad["x"] += 1
            if bad["x"] < 5: print("x", txt, cell, x, row[1])
        m = model(txt, cell)
        if m != row[2]:
            bad["txt"] += 1
            if bad["txt"] < 5: print("txt", txt, cell, m, row[2])
        if row[2]:
            e = datetime.strptime(row[2][:23], "%Y-%m-%d %H:%M:%S.%f").replace(tzinfo=timezone.utc)
            em = (e - EPOCH) // timedelta(microseconds=1)
            maxdev = max(maxdev, abs(em - (t + d)))
    print(bad, "maxdev", maxdev)


def exhaustive():
    con = sqlite3.connect(":memory:")
    t0 = time.time()
    # A: every millisecond of a day: the printed H:M:S.mmm is the exact decomposition of iJD
    bad = con.execute("""
    WITH RECURSIVE c(x) AS (SELECT 0 UNION ALL SELECT x+1 FROM c WHERE x < 86399999)
    SELECT count(*), min(x) FROM c WHERE strftime('%H:%M:%f', x/1000.0, 'unixepoch')
       <> printf('%02d:%02d:%02d.%03d', x/3600000, x/60000%60, x/1000%60, x%1000)
    """).fetchone()
    print("A mismatches", bad, time.time() - t0, flush=True)
    # same on a day in 2099 (other iJD magnitude; the HMS part only depends on iJD mod 86400000)
    bad = con.execute("""
    WITH RECURSIVE c(x) AS (SELECT 0 UNION ALL SELECT x+1 FROM c WHERE x < 86399999)
    SELECT count(*), min(x) FROM c WHERE strftime('%Y-%m-%d %H:%M:%f', 4102358400.0 + x/1000.0, 'unixepoch')
       <> printf('2099-12-31 %02d:%02d:%02d.%03d', x/3600000, x/60000%60, x/1000%60, x%1000)
    """).fetchone()
    print("A2 mismatches", bad, time.time() - t0, flush=True)
    # B: every day 1970-01-01 .. 2101-12-31
    n = 0
    d0 = date(1970, 1, 1)
    for k in range(0, (date(2102, 1, 1) - d0).days):
        for off in (0.0, 86399.999):
            got = con.execute("select strftime('%Y-%m-%d', ?, 'unixepoch')", (k * 86400 + off,)).fetchone()[0]
            if got != (d0 + timedelta(days=k)).isoformat():
                n += 1; print("B", k, got)
    print("B mismatches", n, time.time() - t0)


if __name__ == "__main__":
    if len(sys.argv) > 1 and sys.argv[1] == "exhaustive":
        exhaustive()
    else:
        random_rows(sys.argv[2:])
