"""Deterministic two-thread schedules (and one-off faults) WITHOUT hooks in the library under test.

The library calls third-party / standard-library functions by name at call time (`iso8601.parse_date(...)`,
`json.dumps(...)`, `self.copy()`, `tz.utcoffset(d)`, `logger.warning(...)`).  Such a CALLEE can be replaced, for the
duration of one experiment, by a function that only waits and then delegates to the real one - for ONE named thread.
That is exactly what the interpreter's thread switch does at a random moment (every one of these callees releases the
GIL or runs enough byte code for a switch), made reproducible:

    out = interleave(a, b, pause=Callee(iso8601, "parse_date"))

runs `a()` in thread "A" until A is inside its first call of the callee (first half of A), then `b()` from start to
end in thread "B" (all of B), then the optional `mid()` (the caller's look at the shared state while A is suspended),
then lets A continue (rest of A).  Nothing else is altered; a library without shared mutable state gives each thread
the sequential answer for its own input, so the expectation is simply the pure model evaluated on `a`'s and on `b`'s
input separately.

The same replacement makes a callee RAISE once (`raising_once`): a fault the caller survives (MemoryError,
RecursionError, KeyboardInterrupt, ...), after which the shared state can be looked at again.

Safety: all threads are daemon threads, every wait has a timeout, the patches are removed in a `finally`, and the
suspended thread is always released at the end.  A thread that does not finish is reported in `Outcome.timed_out`
(the caller turns that into a failing input, e.g. `C13:timeout`); it can never keep the process alive.  If B cannot
finish while A is suspended (the library serialises the two with a lock: the requested schedule does not exist),
`Outcome.b_blocked` is set, A is released, and both are awaited: the results must still be the sequential answers.

Use from another check (see notes/agents/C13.md, "Round 6"):

    from harness import twothreads as tt
    PARSE = tt.Callee(iso8601, "parse_date")          # after the library under test has been imported
    out = tt.interleave(lambda: Event(timestamp=s1), lambda: Event(timestamp=s2), pause=PARSE,
                        mid=lambda: snapshot(store))
    if out.timed_out: ck.failing_input("Cxx:timeout", ...)
    a = out.a.get()        # the value, or re-raises what a() raised; out.a.state in {"ok", "raised", "unfinished"}
    with tt.raising_once(tt.Callee(json, "dumps"), MemoryError) as fault:
        try: e.to_json_str()
        except MemoryError: pass
    assert fault.fired

Run the experiments in a forked child (harness/freshproc.py) when the library may keep state between calls: a
schedule that fails is then a self-contained, replayable script."""
import sys
import threading


class ScheduleTimeout(RuntimeError):
    """raised INSIDE the suspended thread when nobody released it in time"""


class Callee:
    """A function the code under test calls, named by the namespace it is looked up in: a module attribute
    (`Callee(iso8601, "parse_date")`; with `everywhere=True` every module global that IS that function is patched as
    well, which covers `from iso8601 import parse_date` in the library) or a class attribute (`Callee(Event, "copy")`,
    `Callee(SynthZone, "utcoffset")`, `Callee(logging.Logger, "warning")`: plain methods only, also inherited ones and
    methods of C base types as long as the class itself is a Python class).  Create it AFTER the library has been
    imported; the list of patch sites is computed once."""

    def __init__(self, owner, name, label=None, everywhere=True):
        self.owner, self.name = owner, name
        self.label = label or "%s.%s" % (getattr(owner, "__name__", repr(owner)), name)
        self.real = getattr(owner, name)
        self.is_class = isinstance(owner, type)
        self._everywhere = everywhere and not self.is_class
        self._sites = None

    def sites(self):
        """[(namespace, attribute name, value to put back | _ABSENT)]"""
        if self._sites is None:
            if self.is_class:
                own = vars(self.owner).get(self.name, _ABSENT)
                self._sites = [(self.owner, self.name, own)]
            else:
                sites = [(self.owner, self.name, self.real)]
                if self._everywhere:
                    for mod in list(sys.modules.values()):
                        d = getattr(mod, "__dict__", None)
                        if mod is self.owner or not isinstance(d, dict):
                            continue
                        for k, v in list(d.items()):
                            if v is self.real:
                                sites.append((mod, k, self.real))
                self._sites = sites
        return self._sites

    def install(self, hook):
        """replace the callee by `hook(); real(...)` at every site -> undo function"""
        real = self.real

        def wrapper(*args, **kwargs):
            hook()
            return real(*args, **kwargs)
        wrapper.__name__ = getattr(real, "__name__", self.name)
        wrapper.__wrapped__ = real
        done = []
        for ns, name, back in self.sites():
            setattr(ns, name, wrapper)
            done.append((ns, name, back))

        def undo():
            for ns, name, back in done:
                if back is _ABSENT:
                    try:
                        delattr(ns, name)
                    except AttributeError:
                        pass
                else:
                    setattr(ns, name, back)
        return undo


_ABSENT = object()


class Fault:
    def __init__(self):
        self.fired = False
        self.calls = 0


class raising_once:
    """with raising_once(callee, MemoryError, nth=1) as fault: ...   The nth call of the callee made by the CURRENT
    thread inside the block raises `exc("injected fault")` instead of running; every other call is untouched.
    `fault.fired` says whether the callee was reached."""

    def __init__(self, callee, exc, nth=1, message="injected fault"):
        self.callee, self.exc, self.nth, self.message = callee, exc, nth, message
        self.fault = Fault()

    def __enter__(self):
        me = threading.current_thread()
        fault = self.fault

        def hook():
            if threading.current_thread() is not me or fault.fired:
                return
            fault.calls += 1
            if fault.calls == self.nth:
                fault.fired = True
                raise self.exc(self.message)
        self._undo = self.callee.install(hook)
        return fault

    def __exit__(self, *exc_info):
        self._undo()
        return False


class Result:
    """what one thread's function did: state 'ok' (value) | 'raised' (exc) | 'unfinished'"""

    def __init__(self):
        self.state, self.value, self.exc = "unfinished", None, None

    def get(self):
        if self.state == "raised":
            raise self.exc
        if self.state != "ok":
            raise ScheduleTimeout("the thread did not finish")
        return self.value

    def __repr__(self):
        return "Result(%s%s)" % (self.state, ", %r" % (self.exc if self.state == "raised" else self.value,)
                                 if self.state != "unfinished" else "")


class Outcome:
    def __init__(self):
        self.a, self.b, self.mid = Result(), Result(), Result()
        self.reached = False          # A was suspended inside the callee (otherwise: A ran to its end first)
        self.b_blocked = False        # B (or mid) could not finish while A was suspended
        self.timed_out = []           # names of the threads that never finished: "A", "B", "mid"

    def __repr__(self):
        return "Outcome(a=%r, b=%r, reached=%s, b_blocked=%s, timed_out=%s)" % (
            self.a, self.b, self.reached, self.b_blocked, self.timed_out)


def _runner(fn, slot, after=None):
    def body():
        try:
            slot.value = fn()
            slot.state = "ok"
        except BaseException as ex:  # noqa: BLE001 -- handed to the caller
            slot.exc = ex
            slot.state = "raised"
        finally:
            if after is not None:
                after()
    return body


def interleave(a, b, pause, nth=1, mid=None, wait_s=20.0, blocked_s=1.0, a_after=None, mid_blocked_s=3.0):
    """first half of a() | all of b() | mid() | rest of a().   `pause`: a Callee or a list of Callees (the nth call
    made by thread A to any of them suspends A).  a, b, mid: functions without arguments; their values / exceptions
    come back in the Outcome.  `a_after(result)`: the caller's book-keeping for A, run in thread A straight after a()
    has returned or raised, with the callee no longer watched (so that the harness's own use of the callee is not
    mistaken for the library's).  `blocked_s` / `mid_blocked_s`: how long b() / mid() may take while A is suspended
    before they are taken to be waiting for A (b is one library operation - microseconds -, mid is the caller's look
    at the state and may be slower on a loaded machine).  Not re-entrant (one schedule at a time per process)."""
    out = Outcome()
    pauses = pause if isinstance(pause, (list, tuple)) else [pause]
    wake, resume = threading.Event(), threading.Event()
    calls = [0]
    holder = {}

    def hook():
        if threading.current_thread() is not holder.get("A") or out.reached or holder.get("a_returned"):
            return
        calls[0] += 1
        if calls[0] != nth:
            return
        out.reached = True
        wake.set()
        if not resume.wait(wait_s):
            raise ScheduleTimeout("thread A was not released within %.0f s" % wait_s)

    undo = [c.install(hook) for c in pauses]

    def a_epilogue():
        holder["a_returned"] = True
        try:
            if a_after is not None:
                a_after(out.a)
        except BaseException as ex:  # noqa: BLE001 -- the caller's own book-keeping failed: hand it over
            out.a.state, out.a.exc = "raised", ex
        finally:
            wake.set()

    ta = threading.Thread(target=_runner(a, out.a, after=a_epilogue), name="A", daemon=True)
    holder["A"] = ta
    others = []
    try:
        ta.start()
        if not wake.wait(wait_s):
            out.timed_out.append("A")          # neither reached the callee nor finished
            return out
        released = not out.reached           # A has already run to its end
        for name, fn, slot in (("B", b, out.b), ("mid", mid, out.mid)):
            if fn is None:
                continue
            t = threading.Thread(target=_runner(fn, slot), name=name, daemon=True)
            others.append((name, t))
            t.start()
            t.join(wait_s if released else (blocked_s if name == "B" else mid_blocked_s))
            if t.is_alive():
                if released:
                    out.timed_out.append(name)
                    return out
                # cannot finish while A is suspended: this schedule does not exist for the library.  Let A run to its
                # end, then the blocked one: still one thread at a time
                out.b_blocked = True
                resume.set()
                released = True
                for nm, th in (("A", ta), (name, t)):
                    th.join(wait_s)
                    if th.is_alive():
                        out.timed_out.append(nm)
                        return out
        resume.set()
        ta.join(wait_s)
        if ta.is_alive():
            out.timed_out.append("A")
        for name, t in others:
            t.join(wait_s)
            if t.is_alive():
                out.timed_out.append(name)
        return out
    finally:
        resume.set()
        for u in reversed(undo):
            u()
