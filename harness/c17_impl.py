"""Shared by the C17 and C11 checks: driving the real aw_query.query2.query, reading the
call plumbing of aw_query/functions.py off the live registry (inspect.signature of every
registered function), recording what the built-in bodies were called with and what they
did (the model treats bodies as an oracle and is replayed against that record), and the
wire encoding of cases for the extracted model (coq/Extract/ExC17.v).

The recorder is spliced in WITHOUT knowing how the decorators are written (Impl._locate: the
`__wrapped__` chain functools.wraps leaves + the one closure cell / instance attribute of each
wrapper that holds what it wraps, whatever it is called).  Where even that is impossible (a
wrapper without `__wrapped__`, a callable object holding nothing of the kind) the checks do not
stop: Impl.blackbox names the reason (the checks report it as a broken tie) and everything runs
in BLACK-BOX mode - the interface from the frozen registry, queries through aw_query.query only,
no body record; the model is still compared on every text for which it asks for no recorded body
outcome (see model_case / blackbox_skip)."""
import contextlib
import functools
import importlib
import inspect
import json
import logging
import os
import queue
import signal
import sys
import tempfile
import threading
import time
import traceback
import types
import typing
import warnings
from datetime import datetime, timedelta, timezone

from .common import sx, VERIF

# The SPECIFICATION of the registered built-ins' interface: the registry of the unchanged tree, frozen by
# tools/c17_registry.py (function name -> ordered parameters with declared class and has-default flag).
# What "a wrong top-level argument type" / "a wrong argument count" means is read from this file, never
# from the signatures of the tree under test (notes/agents/C17.md, "Round 3").
REGISTRY_SNAPSHOT = os.path.join(VERIF, "corpus", "c17_registry.json")

T_START = datetime(2020, 1, 1, 0, 0, 0, tzinfo=timezone.utc)
T_END = datetime(2020, 1, 2, 0, 0, 0, tzinfo=timezone.utc)
QNAME = "q-name"
HOUR, MINUTE = 3600 * 10 ** 6, 60 * 10 ** 6
# what the first datastore's bucket "b1" holds: (offset from T_START, duration, data), all in microseconds
B1_EVENTS = [(i * HOUR, 10 * (i + 1) * MINUTE, {"app": "a%d" % (i % 2), "title": "t%d" % i}) for i in range(3)]

ERR_CODE = {"ParseError": 1, "InterpretError": 2, "FunctionError": 3, "KeyError": 4, "ValueError": 5,
            "IndexError": 6, "AttributeError": 7, "TypeError": 8, "IntegrityError": 9}
CODE_ERR = {v: k for k, v in ERR_CODE.items()}
CODE_ERR[10] = "Other"


# The declared parameter types whose check the model contains (pkind 2..5 of Model/Query.v); the
# class decides, however the annotation spells it.
CHECKED_CLASSES = {list: 2, str: 3, int: 4, float: 5}


class Unsupported(Exception):
    """The case left the modelled domain (a float reached the query level, ...): skipped and counted."""


class HarnessBroken(Exception):
    """The registry no longer has the shape the harness reads (fail closed)."""


class CaseTimeout(BaseException):
    pass


def instant(x):
    """An edge of the query period as sessions write it: an offset from T_START in microseconds, or an ISO 8601
    text (datetime.fromisoformat: naive without an offset - the full range 0001-01-01 .. 9999-12-31 and every
    UTC offset can be written this way)."""
    if isinstance(x, str):
        return datetime.fromisoformat(x)
    return T_START + timedelta(microseconds=x)


class _FormatSink(logging.Handler):
    """What a host application's handler does with a record - format it - without writing anywhere.  Like the
    stock handlers it never lets a formatting error reach the code that logged."""
    errors = 0

    def emit(self, record):
        try:
            record.getMessage()
        except Exception:
            _FormatSink.errors += 1


# PROCESS-LEVEL SETTINGS a library may read.  None of them is an argument of aw_query.query and the property
# mentions none of them: whatever a host process has set, a query text means the same and ends the same way.
#   logging        level of the root logger and of the library's loggers, with a handler that formats every record
#                  (the checks otherwise run under logging.disable(CRITICAL), where every isEnabledFor is False)
#   recursionlimit sys.setrecursionlimit (lowered moderately: far above what the generated nesting depths need)
#   warnings       category turned into an error by the warnings filters ("DeprecationWarning" | "Warning")
#   tz             the process's local time zone (TZ + time.tzset)
#   int_digits     sys.set_int_max_str_digits (the limit int() applies to digit strings; 0 = none; the model's
#                  max_digits parameter follows it case by case)
LIBRARY_LOGGERS = ("aw_query", "aw_query.query2", "aw_query.functions", "aw_datastore", "aw_core", "aw_transform")


@contextlib.contextmanager
def environment(env):
    undo = []
    try:
        for key, val in sorted((env or {}).items()):
            if key == "logging":
                level = getattr(logging, val)
                loggers = [logging.getLogger()] + [logging.getLogger(n) for n in LIBRARY_LOGGERS]
                old = [(lg, lg.level) for lg in loggers]
                disabled = logging.root.manager.disable
                sink = _FormatSink()
                logging.disable(logging.NOTSET)
                for lg in loggers:
                    lg.setLevel(level)
                logging.getLogger().addHandler(sink)

                def back(old=old, disabled=disabled, sink=sink):
                    logging.getLogger().removeHandler(sink)
                    for lg, lv in old:
                        lg.setLevel(lv)
                    logging.disable(disabled)
                undo.append(back)
            elif key == "recursionlimit":
                undo.append(lambda old=sys.getrecursionlimit(): sys.setrecursionlimit(old))
                sys.setrecursionlimit(val)
            elif key == "warnings":
                cm = warnings.catch_warnings()
                cm.__enter__()
                undo.append(lambda cm=cm: cm.__exit__(None, None, None))
                warnings.simplefilter("error", {"DeprecationWarning": DeprecationWarning, "Warning": Warning}[val])
            elif key == "tz":
                def back(old=os.environ.get("TZ")):
                    if old is None:
                        os.environ.pop("TZ", None)
                    else:
                        os.environ["TZ"] = old
                    time.tzset()
                undo.append(back)
                os.environ["TZ"] = val
                time.tzset()
            elif key == "int_digits":
                if hasattr(sys, "set_int_max_str_digits"):
                    undo.append(lambda old=sys.get_int_max_str_digits(): sys.set_int_max_str_digits(old))
                    sys.set_int_max_str_digits(val)
            else:
                raise HarnessBroken(f"unknown process-level setting {key!r}")
        yield
    finally:
        for u in reversed(undo):
            u()


class _Worker:
    """A thread that stays alive between the queries it is handed (a server's worker pool): the harness's main
    thread hands it one call at a time and waits for the answer with a time limit.  A daemon thread: one that
    never comes back cannot keep the process alive (the checks also leave through os._exit when one hangs)."""

    def __init__(self, name):
        self.name = name
        self.inq, self.outq = queue.Queue(), queue.Queue()
        self.thread = threading.Thread(target=self._loop, name="c17-worker-" + name, daemon=True)
        self.thread.start()

    def _loop(self):
        while True:
            fn = self.inq.get()
            try:
                self.outq.put(("ok", fn()))
            except BaseException as e:          # handed back to the main thread, which classifies it
                self.outq.put(("exc", e))

    def call(self, fn, timeout_s):
        self.inq.put(fn)
        try:
            return self.outq.get(timeout=timeout_s)
        except queue.Empty:
            return ("hang", None)


def cps(s):
    return [ord(c) for c in s]


class Impl:
    """One live aw_query with an `echo` built-in registered through the public decorator, a
    memory datastore with one bucket, and recorders spliced below the type-check wrapper."""

    def __init__(self, with_echo=True, snapshot=REGISTRY_SNAPSHOT):
        """snapshot: path of the frozen registry the expectations are taken from (None = describe the live
        registry only; used by tools/c17_registry.py to write the snapshot)."""
        from aw_core.models import Event
        from aw_datastore import Datastore
        from aw_datastore.storages import MemoryStorage
        import aw_query.functions as F
        import aw_query.query2 as Q
        import aw_query.exceptions as X
        self.F, self.Q, self.X = F, Q, X
        self.Datastore = Datastore
        self.Event = Event
        self.blackbox = None    # reason why no recorder could be spliced in (then: black-box mode), else None
        self.unspliced = {}     # built-in name -> why its wrapper chain cannot be followed
        if with_echo and "echo" not in F.functions:
            def q2_echo(*args):
                return list(args)
            F._c17_echo = True              # an earlier Impl of this process may have put it there
            try:
                F.q2_function()(q2_echo)
                if not callable(F.functions.get("echo")):
                    raise HarnessBroken("q2_function()(f) did not register f under its name without the q2_ prefix")
            except Exception as e:      # the public decorator no longer registers a plain function: put the
                F._c17_echo = f"{type(e).__name__}: {e}"            # harness's own built-in there directly
                F.functions["echo"] = lambda datastore, namespace, *args: list(args)
        self.echo_ours = bool(getattr(F, "_c17_echo", False))
        self.echo_direct = F._c17_echo if isinstance(getattr(F, "_c17_echo", None), str) else None
        if os.environ.get("VERIF_C17_FORCE_BLACKBOX"):      # development aid: always ends in a broken tie (exit 1)
            self.blackbox = "black-box mode forced by VERIF_C17_FORCE_BLACKBOX"
        self.ds = Datastore(MemoryStorage, testing=True)
        self.cur_ds = self.ds
        # A STORE is what the buckets live in (a MemoryStorage object, a sqlite file); several Datastore objects may
        # sit on one store.  What the harness put into a store is kept per store, never asked of the tree under test.
        self.store = {id(self.ds): ("memory", id(self.ds))}     # id(datastore) -> key of its store
        self.store_kind = {id(self.ds): "memory"}               # id(datastore) -> memory | sqlite | sqlite-file
        self.sqlite_path = {}                                   # id(datastore) -> file of a sqlite-file store
        self.contents = {}      # store key -> {bucket id: [(offset us, duration us, data)]}: what the HARNESS put there
        self.hosts = {}         # store key -> {bucket id: hostname in the bucket's metadata}
        self.keep_ds = [self.ds]
        self.workers = {}       # name -> _Worker (threads that stay alive between the queries they run)
        self.hung = []          # names of worker threads that never came back from a query
        self.create_bucket(self.ds, "b1", B1_EVENTS)
        self.buckets = self.buckets_of(self.ds)
        self.calls = None
        self.keep = []          # keeps opaque objects alive so id() stays unique
        self.opaque = {}
        self.snapshot_path = snapshot
        self.echo_probe = None
        if self.echo_ours and not self.echo_direct:
            # The harness's own variadic built-in must mean (*args) -> list(args), or every stream that uses it
            # would report the harness's test double instead of the tree's built-ins: asked through the public
            # entry point; when the tree's decorator does not give a variadic function that meaning, this is kept
            # (a finding of its own, reported once) and echo is put into the registry without the decorator.
            bad = self._probe_echo()
            if bad:
                self.echo_probe = bad
                F._c17_echo = self.echo_direct = "registered through q2_function() it does not apply (*args): " + bad["observed"]
                F.functions["echo"] = lambda datastore, namespace, *args: list(args)
        self.table = self._read_registry()
        self.max_digits = sys.get_int_max_str_digits() if hasattr(sys, "get_int_max_str_digits") else 0

    def _probe_echo(self):
        for text, want in (('RETURN = echo(1, "s", [2]);', [1, "s", [2]]), ("RETURN = echo();", []), ("RETURN = echo(nop());", [1])):
            try:
                got = self.Q.query(QNAME, text, T_START, T_END, self.ds)
                seen = repr(got)
            except Exception as e:
                got, seen = e, f"raises {type(e).__name__}: {e}"
            if isinstance(got, Exception) or got != want:
                return {"query": text, "expected": repr(want), "observed": seen,
                        "registered_as": "@aw_query.functions.q2_function() def q2_echo(*args): return list(args)"}
        return None

    def _probe_outcomes(self):
        """[(text, outcome as text)] of a fixed list of small queries: every registered name with eight argument
        lists (right and wrong counts and types for most built-ins)."""
        out = []
        for name in sorted(self.F.functions):
            for args in ('', '"s"', '"b1"', '[], "s"', '[], []', '[], 1', '1, 1', '[], "s", []'):
                text = f"RETURN = {name}({args});"
                try:
                    seen = "value " + repr(self.Q.query(QNAME, text, T_START, T_END, self.ds))[:300]
                except Exception as e:
                    seen = "raises " + self.classify_exc(e)
                out.append((text, seen))
        return out

    # -- datastores and their buckets (sessions: creation / deletion / re-creation between queries) ----
    def new_datastore(self, storage="memory", shares=None):
        """A further Datastore alive beside the first one (two instances at once).
        storage: memory | sqlite (the storage's own testing file, lazy commit as shipped) | sqlite-file (a file of
        its own, every write committed at once - what two connections to one file need to see each other's writes).
        shares: a Datastore made earlier - the new one is a SECOND object over the same store (the same
        MemoryStorage object handed out by the storage factory / a second sqlite connection to the same file)."""
        from aw_datastore import storages
        if shares is not None:
            kind = self.store_kind[id(shares)]
            if kind == "memory":
                shared = shares.storage_strategy
                ds = self.Datastore(lambda testing: shared, testing=True)
            elif kind == "sqlite-file":
                ds = self.Datastore(storages.SqliteStorage, testing=True, filepath=self.sqlite_path[id(shares)],
                                    enable_lazy_commit=False)
                self.sqlite_path[id(ds)] = self.sqlite_path[id(shares)]
            else:
                raise HarnessBroken("only memory and sqlite-file stores are shared between Datastore objects")
            self.store[id(ds)], self.store_kind[id(ds)] = self.store[id(shares)], kind
            self.keep_ds.append(ds)
            return ds
        if storage == "sqlite-file":
            d = os.path.dirname(os.environ.get("XDG_DATA_HOME", ""))      # the private temp dir of this process
            fd, path = tempfile.mkstemp(prefix="c17-shared-", suffix=".db", dir=d if os.path.isdir(d) else None)
            os.close(fd)
            os.unlink(path)
            ds = self.Datastore(storages.SqliteStorage, testing=True, filepath=path, enable_lazy_commit=False)
            self.sqlite_path[id(ds)] = path
        else:
            cls = {"memory": storages.MemoryStorage, "sqlite": storages.SqliteStorage}[storage]
            ds = self.Datastore(cls, testing=True)
        self.store[id(ds)], self.store_kind[id(ds)] = (storage, id(ds)), storage
        self.keep_ds.append(ds)
        for b in list(ds.buckets()):        # a file left over by an earlier instance of the same storage
            ds.delete_bucket(b)
        return ds

    def contents_of(self, ds):
        return self.contents.setdefault(self.store[id(ds)], {})

    def hosts_of(self, ds):
        return self.hosts.setdefault(self.store[id(ds)], {})

    def create_bucket(self, ds, bid, events=(), hostname="h1"):
        """events: (offset from T_START in us, duration in us, data) - recorded on the harness side, so
        that what a bucket holds (and which buckets exist) never has to be asked of the tree under test."""
        b = ds.create_bucket(bid, type="test", client="c", hostname=hostname)
        self.hosts_of(ds)[bid] = hostname
        if events:
            b.insert([self.Event(timestamp=T_START + timedelta(microseconds=o), duration=timedelta(microseconds=d),
                                 data=dict(data)) for o, d, data in events])
        self.contents_of(ds)[bid] = list(events)

    def delete_bucket(self, ds, bid):
        ds.delete_bucket(bid)
        del self.contents_of(ds)[bid]
        self.hosts_of(ds).pop(bid, None)

    def buckets_of(self, ds):
        """The bucket ids existing in the STORE the datastore object sits on (whichever object put them there)."""
        return sorted(self.contents_of(ds))

    # -- the registry -----------------------------------------------------------------
    @staticmethod
    def _holders(wrapper, wrapped):
        """Where `wrapper` keeps the callable it wraps, found by IDENTITY, not by name: closure cells and
        (for a callable object) instance attributes whose value is `wrapped` (or a recorder of an earlier
        Impl around it).  -> [(get, set)]"""
        def is_it(x):
            return x is wrapped or (getattr(x, "_c17_recorder", False) and x._c17_orig is wrapped)
        out = []
        for cell in getattr(wrapper, "__closure__", None) or ():
            try:
                if is_it(cell.cell_contents):
                    out.append((lambda c=cell: c.cell_contents, lambda v, c=cell: setattr(c, "cell_contents", v)))
            except ValueError:           # empty cell
                pass
        if not isinstance(wrapper, types.FunctionType):
            try:
                attrs = dict(vars(wrapper))
            except TypeError:
                attrs = {}
            for k, v in attrs.items():
                if k != "__wrapped__" and is_it(v):
                    out.append((lambda o=wrapper, k=k: getattr(o, k), lambda v, o=wrapper, k=k: setattr(o, k, v)))
        return out

    def _locate(self, name, outer):
        """The registered callable -> (holder of the built-in's own function, that function, number of wrappers).
        Nothing about HOW the decorators are written is assumed (names of the wrappers, of their closure
        variables, how many there are, closures or callable objects): each wrapper carries `__wrapped__`
        (functools.wraps / update_wrapper) and holds what it wraps in exactly one place.  HarnessBroken
        otherwise - the caller then switches the whole run to black-box mode."""
        fn, chain = outer, []
        while getattr(fn, "__wrapped__", None) is not None:
            if len(chain) > 8:
                raise HarnessBroken(f"functions[{name!r}]: more than 8 wrappers")
            inner = fn.__wrapped__
            hs = self._holders(fn, inner)
            if len(hs) != 1:
                raise HarnessBroken(f"functions[{name!r}]: the wrapper {getattr(fn, '__qualname__', type(fn).__qualname__)} holds the "
                                    f"function it wraps ({getattr(inner, '__qualname__', inner)}) in {len(hs)} places (closure cells / "
                                    f"attributes), not in exactly one")
            chain.append(hs[0])
            fn = inner
        if not chain:
            raise HarnessBroken(f"functions[{name!r}] = {outer!r} carries no __wrapped__: not a functools.wraps / update_wrapper "
                                f"wrapper around the built-in's own function")
        if not isinstance(fn, types.FunctionType):
            raise HarnessBroken(f"functions[{name!r}]: the innermost wrapped object {fn!r} is not a plain function")
        return chain[-1], fn, len(chain)

    def _live_params(self, name, orig):
        params = []
        for p in inspect.signature(orig).parameters.values():
            d = self.declared_type(orig, p.annotation, f"{name}.{p.name}")
            if p.kind == p.VAR_POSITIONAL:
                kind = "var_positional"
            elif p.kind == p.POSITIONAL_OR_KEYWORD:
                kind = "positional"
            else:
                raise HarnessBroken(f"{name}: parameter kind {p.kind} is outside the model")
            params.append({"name": p.name, "kind": kind, "decl": d, "has_default": p.default is not p.empty})
        return params, self.kinds_of(name, params)[0]

    def _read_registry(self):
        """Reads the LIVE registry (and splices the recorders), then takes the interface the expectations
        and the model's table are built from out of the frozen snapshot: a function named by the snapshot
        has the snapshot's parameters whatever the live signature says; a function that exists only live
        falls back to its live signature.  Every difference between the two is kept in
        self.registry_diffs (the checks report each as a broken tie).
        When some registered callable cannot be followed down to the built-in's own function, NO recorder
        is installed anywhere: self.blackbox says why and the run continues in black-box mode."""
        F = self.F
        self.live = {}         # name -> [param dict] as read off the tree under test
        self.live_kinds = {}   # name -> kinds of the live signature (decoding of recorded body arguments)
        self.typechecked = {}
        self.body_codes = set()     # code objects of the built-ins' own functions (in_body)
        unreadable = {}        # name -> why the live signature is outside what the harness reads
        located = {}
        for name in sorted(F.functions):
            if name == "echo" and self.echo_direct:      # the harness's own, put there without any wrapper
                continue
            try:
                located[name] = self._locate(name, F.functions[name])
            except HarnessBroken as e:
                self.unspliced[name] = str(e)
        if self.unspliced and self.blackbox is None:
            some = sorted(self.unspliced)
            self.blackbox = (f"{len(some)} of {len(F.functions)} registered built-ins cannot be followed down to their own "
                             f"function, e.g. {self.unspliced[some[0]]}")
        if self.blackbox and self.snapshot_path is None:
            raise HarnessBroken("cannot describe the live registry: " + self.blackbox)
        # The splice must not be felt: the same probe queries before and after it.  A wrapper that looks at the
        # function it wraps in a way the recorder cannot mimic (its code object, its identity, ...) would otherwise
        # turn the harness's own intervention into "failing inputs" of the tree.
        spliced = []
        before = None if self.blackbox else self._probe_outcomes()
        for name, ((get, put), orig, depth) in located.items():
            self.body_codes.add(orig.__code__)
            if not self.blackbox and not getattr(get(), "_c17_recorder", False):
                put(self._recorder(name, orig))
                spliced.append((put, orig))
        if spliced:
            after = self._probe_outcomes()
            changed = [(t, a, b) for (t, a), (_, b) in zip(before, after) if a != b]
            if changed:
                for put, orig in spliced:
                    put(orig)
                t, a, b = changed[0]
                self.blackbox = (f"with the body recorder spliced in, {len(changed)} of {len(before)} probe queries answer differently "
                                 f"(e.g. {t!r}: {a} without, {b} with the recorder): the recorder was taken out again")
        for name, ((get, put), orig, depth) in located.items():
            try:
                self.live[name], self.live_kinds[name] = self._live_params(name, orig)
            except HarnessBroken as e:
                unreadable[name] = str(e)
            self.typechecked[name] = depth >= 2       # informational: more than the registering wrapper

        spec, self.registry_diffs, self.live_only = dict(self.live), [], []
        self.snapshot = None
        if self.snapshot_path is not None:
            try:
                snap = json.load(open(self.snapshot_path))["functions"]
            except Exception as e:       # fail closed: without the specification nothing can be expected
                raise HarnessBroken(f"cannot read the registry snapshot {self.snapshot_path}: {e}")
            self.snapshot = {n: [dict(p, decl=decl_from_json(p, f"snapshot {n}.{p['name']}")) for p in ps]
                             for n, ps in snap.items()}
            for name in sorted(set(self.snapshot) | set(F.functions)):
                if name not in self.snapshot:
                    if name in self.live:
                        self.live_only.append(name)      # e.g. the harness's own `echo`
                    elif name == "echo" and self.echo_ours:      # the harness's own: (*args), whatever wraps it
                        spec[name] = [{"name": "args", "kind": "var_positional", "decl": ("any",), "has_default": False}]
                        self.live_only.append(name)
                    else:
                        self.registry_diffs.append(f"built-in {name} exists only in the tree under test and its signature cannot "
                                                   f"be read ({unreadable.get(name) or self.unspliced.get(name)}): not in the model's table")
                    continue
                spec[name] = self.snapshot[name]
                if name not in F.functions:
                    self.registry_diffs.append(f"built-in {name} of the frozen registry is no longer registered")
                    continue
                if name in unreadable:
                    self.registry_diffs.append(f"built-in {name}: frozen registry ({', '.join(param_text(p) for p in self.snapshot[name])}) / "
                                               f"tree under test: {unreadable[name]}")
                if name not in self.live:        # not followed (black-box mode) or outside what the reader reads
                    self.live_kinds[name] = self.kinds_of(name, self.snapshot[name])[0]
                    continue
                a, b = [param_text(p) for p in self.snapshot[name]], [param_text(p) for p in self.live[name]]
                if a != b:
                    self.registry_diffs.append(f"built-in {name}: frozen registry ({', '.join(a)}) / tree under test "
                                               f"({', '.join(b)})")

        table = []
        self.sigs = {}
        self.decl = {}         # name -> declared type of every parameter (see declared_type)
        for name in sorted(spec):
            kinds, decl = self.kinds_of(name, spec[name])
            self.decl[name] = decl
            body = {"nop": 0, "echo": 1, "query_bucket": 2, "query_bucket_eventcount": 2}.get(name, 3)
            table.append((name, kinds, body))
            self.sigs[name] = (kinds, body, self.typechecked.get(name, False))
        return table

    @staticmethod
    def kinds_of(name, params):
        """Parameter list (snapshot or live) -> the model's parameter kinds + the declared types."""
        kinds = []
        decl = []
        for p in params:
            d = p["decl"]
            if p["kind"] == "var_positional":
                if d[0] != "any":
                    raise HarnessBroken(f"{name}: annotated *args is outside the model")
                kinds.append(8)
            elif d[0] == "ds":
                if p["has_default"]:
                    raise HarnessBroken(f"{name}: Datastore parameter with a default")
                kinds.append(0)
            elif d[0] == "ns":
                if p["has_default"]:
                    raise HarnessBroken(f"{name}: namespace parameter with a default")
                kinds.append(1)
            elif p["has_default"]:
                # a parameter with a default is not type-checked by the decorator (its stated
                # condition); its declared type is recorded (coverage: declared_not_checked)
                kinds.append(7)
            elif d[0] == "cls" and d[1] in CHECKED_CLASSES:
                # The expectation comes from the DECLARED type (annotation normalised by
                # declared_type: List[Event] / typing.List / "list" / Optional[list] /
                # Annotated[list, ...] all declare a list), not from what the decorator's own
                # test recognises, and not from whether the type-check decorator happens to be
                # applied in the registered wrapper chain: a built-in whose declared list / str
                # / int / float parameter is not checked must show up as "wrong top-level type
                # is not a function error", not be silently modelled as unchecked.
                kinds.append(CHECKED_CLASSES[d[1]])
            else:
                # no declared type (any) -> nothing to check.  A declared class outside the
                # four (dict, bool, Event, a union, ...) has no kind in the model (6 = plain);
                # the by-construction stream of the C17 check still demands a function error
                # for every producible value that is not an instance of it.
                kinds.append(6)
            decl.append(d if kinds[-1] != 7 else ("default",) + tuple(d))
        # required parameters must precede optional ones for the model's counting rule
        seen_opt = False
        for k in kinds:
            if k in (7, 8):
                seen_opt = True
            elif seen_opt:
                raise HarnessBroken(f"{name}: required parameter after an optional one")
        return kinds, decl

    def describe_live(self):
        """The live registry in the snapshot's format (tools/c17_registry.py writes this)."""
        return {name: [dict({"name": p["name"], "kind": p["kind"], "has_default": p["has_default"]},
                            **decl_to_json(p["decl"])) for p in ps]
                for name, ps in sorted(self.live.items())}

    # -- declared parameter types ---------------------------------------------------------
    def declared_type(self, fn, ann, where, depth=0):
        """Normal form of a parameter annotation, so that the DECLARED type (not the spelling the
        type-check decorator happens to recognise) decides what a wrong top-level argument type
        is:  ("ds",) | ("ns",) | ("any",) | ("cls", C, optional) | ("other", text).
        String annotations / forward references are evaluated in the function's globals,
        NewType / Annotated / Optional[X] (= Union[X, None], X | None) are unwrapped, a
        parametrised or bare typing generic is replaced by its origin class (List[Event],
        typing.List -> list, Dict[str, int] -> dict, Sequence[int] -> collections.abc.Sequence).
        Fails closed on what it cannot resolve."""
        F = self.F
        if depth > 10:
            raise HarnessBroken(f"{where}: annotation nests too deep")
        if isinstance(ann, typing.ForwardRef):
            ann = ann.__forward_arg__
        if isinstance(ann, str):
            try:
                ann = eval(ann, dict(getattr(fn, "__globals__", {})), dict(vars(typing)))
            except Exception as e:
                raise HarnessBroken(f"{where}: cannot resolve the string annotation {ann!r}: {e}")
            return self.declared_type(fn, ann, where, depth + 1)
        if ann is inspect.Parameter.empty or ann is typing.Any or ann is object or isinstance(ann, typing.TypeVar):
            return ("any",)
        if ann is None:
            ann = type(None)
        try:
            if ann == self.Datastore:
                return ("ds",)
            if ann == F.TNamespace:
                return ("ns",)
        except Exception:
            pass
        if hasattr(ann, "__supertype__"):                      # typing.NewType
            return self.declared_type(fn, ann.__supertype__, where, depth + 1)
        origin = typing.get_origin(ann)
        if origin is getattr(typing, "Annotated", None) and origin is not None:
            return self.declared_type(fn, typing.get_args(ann)[0], where, depth + 1)
        if origin is typing.Union or (getattr(types, "UnionType", None) is not None and origin is types.UnionType):
            members = [a for a in typing.get_args(ann) if a is not type(None)]
            optional = len(members) < len(typing.get_args(ann))
            if len(members) == 1:
                d = self.declared_type(fn, members[0], where, depth + 1)
                if d[0] == "cls":
                    return ("cls", d[1], optional or d[2])
                return d
            ds = [self.declared_type(fn, m, where, depth + 1) for m in members]
            if any(d[0] == "any" for d in ds):
                return ("any",)
            if all(d[0] == "cls" for d in ds):                 # isinstance accepts the tuple
                flat = []
                for d in ds:
                    flat += list(d[1]) if isinstance(d[1], tuple) else [d[1]]
                return ("cls", tuple(flat), optional or any(d[2] for d in ds))
            return ("other", repr(ann))
        if origin is not None:
            ann = origin
        if isinstance(ann, type):
            return ("cls", ann, False)
        return ("other", repr(ann))

    def _recorder(self, name, orig):
        sig = inspect.signature(orig)
        impl = self

        def rec(*a, **k):
            try:
                sig.bind(*a, **k)
            except TypeError:
                return orig(*a, **k)          # raises the binding TypeError itself
            entry = {"name": name, "args": None, "out": None}
            if impl.calls is not None:
                try:
                    entry["args"] = [impl.arg_wire(name, i, x) for i, x in enumerate(a)]
                except Unsupported as e:
                    entry["unsupported"] = str(e)
                impl.calls.append(entry)
            try:
                r = orig(*a, **k)
            except CaseTimeout:
                raise
            except BaseException as e:
                entry["out"] = ("exc", e)
                raise
            entry["out"] = ("ret", r)
            return r

        # as transparent as a Python wrapper can be: a decorator that reads marks / names / docstrings / the signature
        # off the function it wraps (at call time, through the very cell the recorder now sits in) finds them
        functools.update_wrapper(rec, orig)
        rec._c17_recorder = True
        rec._c17_orig = orig
        return rec

    # -- values -----------------------------------------------------------------------
    def val_wire(self, v, depth=0):
        if depth > 200:
            raise Unsupported("value nested deeper than 200")
        if v is None:
            return [3]
        if type(v) is bool:
            return [2, 1 if v else 0]
        if type(v) is int:
            if abs(v) >= 2 ** 61:
                raise Unsupported("integer beyond the driver's 63-bit text conversion")
            return [0, v]
        if type(v) is str:
            return [1, cps(v)]
        if type(v) is list:
            return [4, [self.val_wire(x, depth + 1) for x in v]]
        if type(v) is dict and all(type(k) is str for k in v):
            return [5, [[cps(k), self.val_wire(x, depth + 1)] for k, x in v.items()]]
        if isinstance(v, (float, list, str, int)):
            raise Unsupported(f"{type(v).__name__} instance that the isinstance model does not cover")
        i = self.opaque.get(id(v))
        if i is None:
            i = len(self.keep)
            self.keep.append(v)
            self.opaque[id(v)] = i
        return [6, i]

    def arg_wire(self, name, i, x):
        kinds = self.live_kinds[name]       # what the body is handed follows the live signature
        k = kinds[i] if i < len(kinds) else None
        if k == 0 and x is self.cur_ds:
            return [0]
        if k == 1 and type(x) is dict and "STARTTIME" in x:
            return [1]
        return [2, self.val_wire(x)]

    # -- one run ----------------------------------------------------------------------
    def classify_exc(self, e):
        X = self.X
        if isinstance(e, X.QueryParseException):
            return "ParseError"
        if isinstance(e, X.QueryInterpretException):
            return "InterpretError"
        if isinstance(e, X.QueryFunctionException):
            return "FunctionError"
        n = type(e).__name__
        return n if n in ERR_CODE else "Other:" + n

    def in_body(self, e):
        """Oracle side: was the exception raised inside a built-in's body?  Decided from the traceback
        alone, positively: some frame runs the code of a built-in's OWN function - the code objects found at
        the bottom of the registered wrapper chains, or (black-box mode: no chain could be followed) a function
        of functions.py named q2_<registered name> - and the exception comes from that frame or from below it.
        A frame of a decorator's wrapper, whatever it is called, is not a body."""
        fpath = os.path.abspath(self.F.__file__)
        names = {"q2_" + n for n in self.F.functions} - {"q2_function", "q2_typecheck"}
        tb = e.__traceback__
        while tb is not None:
            code = tb.tb_frame.f_code
            if code in self.body_codes:
                return True
            if not self.body_codes or self.unspliced:
                if os.path.abspath(code.co_filename) == fpath and code.co_name in names:
                    return True
            tb = tb.tb_next
        return False

    MAX_HANGS = 2       # after that many worker threads never came back, queries run on the main thread only

    def run(self, text, timeout_s=10, ds=None, ctx=None, thread=None, env=None):
        """-> dict(outcome=('value', wire) | ('error', class) | ('timeout', None) | ('recursion', None), calls=[...],
        exc=exception or None);
        ds: the datastore the query runs against (default: the first one); ctx: (query name, start, end of the
        query period, each edge an offset from T_START in us or an ISO 8601 text, see `instant`) - default
        (QNAME, T_START, T_END); thread: name of the worker thread the query runs on (None = the main thread; a
        worker stays alive between its queries, the main thread waits at most timeout_s for it); env: process-level
        settings in force while the query runs (see `environment`)."""
        self.calls = None if self.blackbox else []
        self.cur_ds = ds if ds is not None else self.ds
        qname, start, end = QNAME, T_START, T_END
        if ctx:
            qname, start, end = ctx[0], instant(ctx[1]), instant(ctx[2])
        if thread is not None and len(self.hung) >= self.MAX_HANGS:
            thread = None

        def on_alarm(signum, frame):
            raise CaseTimeout()

        exc = None
        with environment(env):
            max_digits = sys.get_int_max_str_digits() if hasattr(sys, "get_int_max_str_digits") else 0
            if thread is None:
                old = signal.signal(signal.SIGALRM, on_alarm)
                signal.alarm(timeout_s)
                try:
                    try:
                        got = ("ok", self.Q.query(qname, text, start, end, self.cur_ds))
                    except CaseTimeout:
                        got = ("hang", None)
                    except Exception as e:
                        got = ("exc", e)
                finally:
                    signal.alarm(0)
                    signal.signal(signal.SIGALRM, old)
            else:
                w = self.workers.get(thread)
                if w is None:
                    w = self.workers[thread] = _Worker(thread)
                cur = self.cur_ds
                got = w.call(lambda: self.Q.query(qname, text, start, end, cur), timeout_s)
                if got[0] == "hang":        # the thread is lost; a later query under this name gets a new one
                    self.hung.append(thread)
                    del self.workers[thread]
        if got[0] == "ok":
            out = ("value", got[1])
        elif got[0] == "hang":
            out = ("timeout", None)
        elif isinstance(got[1], RecursionError):
            out, exc = ("recursion", None), got[1]
        elif isinstance(got[1], Exception):
            out, exc = ("error", self.classify_exc(got[1])), got[1]
        else:
            raise got[1]
        calls, self.calls = self.calls, None
        return {"outcome": out, "calls": calls, "exc": exc, "ctx": (qname, start.isoformat(), end.isoformat()),
                "max_digits": max_digits, "thread": thread}

    # -- the model's side ---------------------------------------------------------------
    def table_wire(self):
        return [[cps(n), k, b] for n, k, b in self.table]

    def model_case(self, text, r, buckets=None):
        """Wire case for the extracted model: the bodies' recorded outcomes become the script.
        Returns (case_sx, expected_log, expected_outcome) or raises Unsupported.
        buckets: the bucket ids that exist in the datastore the query ran against AT THAT POINT of the
        session (default: those of the first datastore, which the plain streams never change).  The model
        is a pure function of the text, the registry and this list: it knows nothing of earlier queries."""
        buckets = self.buckets if buckets is None else buckets
        script = []
        log = []
        if r["calls"] is None:
            # BLACK-BOX mode: nothing was recorded.  The case is sent with an empty script and `log` = None:
            # the model then either needs no recorded body outcome (its own log stays empty: every call was
            # nop / echo / a bucket pre-check that fails, or there was no call at all) and its outcome is
            # compared as usual, or it asks for one (log non-empty / script exhausted) and the comparison is
            # skipped for this text (blackbox_skip; the callers count both).
            log = None
        for c in r["calls"] or []:
            if "unsupported" in c:
                raise Unsupported(c["unsupported"])
            kinds, body, _ = self.sigs[c["name"]]
            if body in (0, 1):
                continue
            kind, payload = c["out"] if c["out"] else ("exc", CaseTimeout())
            if body == 2:
                vals = [a[1] for a in c["args"] if a[0] == 2]
                if vals and vals[0][0] == 1 and "".join(map(chr, vals[0][1])) not in buckets:
                    if not (kind == "exc" and self.classify_exc(payload) == "FunctionError"):
                        raise HarnessBroken("bucket pre-check did not raise QueryFunctionException")
                    continue
            if kind == "ret":
                script.append([0, self.val_wire(payload)])
            else:
                cls = self.classify_exc(payload)
                script.append([1, ERR_CODE.get(cls, 10)])
            log.append([cps(c["name"]), c["args"]])
        kind, payload = r["outcome"]
        if kind == "value":
            want = [0, self.val_wire(payload)]
        elif kind == "error":
            want = [1, ERR_CODE.get(payload, 10)]
        else:
            raise Unsupported(kind)
        qname, start, end = r.get("ctx") or (QNAME, T_START.isoformat(), T_END.isoformat())
        if getattr(self, "_table_sx", None) is None:        # the same for every case: encoded once
            self._table_sx = sx(self.table_wire())
        case = "(" + " ".join(["0", self._table_sx, sx(r.get("max_digits", self.max_digits)), sx([cps(b) for b in buckets]), sx(script),
                               sx(cps(qname)), sx(cps(start)), sx(cps(end)), sx(cps(text))]) + ")"
        return case, log, want


def blackbox_skip(log, model_out):
    """Black-box mode (model_case gave log = None): does the model's answer depend on a body outcome that
    only the recorder could have supplied?  (outcome, model's call log, script exhausted)"""
    return log is None and (bool(model_out[1]) or model_out[2] != 0)


def decl_to_json(d):
    """Declared type (Impl.declared_type) -> the snapshot's fields."""
    if d[0] == "cls":
        cs = d[1] if isinstance(d[1], tuple) else (d[1],)
        return {"declared": "cls", "classes": [c.__module__ + "." + c.__qualname__ for c in cs], "optional": bool(d[2])}
    if d[0] == "other":
        return {"declared": "other", "text": d[1]}
    return {"declared": d[0]}


def decl_from_json(j, where):
    """The snapshot's fields -> declared type; fails closed on a class that cannot be found."""
    form = j.get("declared")
    if form in ("ds", "ns", "any"):
        return (form,)
    if form == "other":
        return ("other", j.get("text", ""))
    if form != "cls" or not j.get("classes"):
        raise HarnessBroken(f"{where}: unreadable declared type {j!r}")
    cs = []
    for qual in j["classes"]:
        mod, _, attr = qual.rpartition(".")
        try:
            obj = importlib.import_module(mod)
            for part in attr.split("."):
                obj = getattr(obj, part)
        except Exception as e:
            raise HarnessBroken(f"{where}: cannot find the declared class {qual}: {e}")
        if not isinstance(obj, type):
            raise HarnessBroken(f"{where}: {qual} is not a class")
        cs.append(obj)
    return ("cls", cs[0] if len(cs) == 1 else tuple(cs), bool(j.get("optional", False)))


def param_text(p):
    """One parameter as compared between the frozen and the live registry: kind, declared type, whether it
    has a default (the name is informational: no query text can pass an argument by name)."""
    return ("*" if p["kind"] == "var_positional" else "") + show_decl(p["decl"]) + (" = <default>" if p["has_default"] else "")


def show_decl(d):
    """Declared parameter type (Impl.declared_type) as text for the evidence."""
    if d[0] == "default":
        return "default:" + show_decl(d[1:])
    if d[0] == "cls":
        c = d[1]
        return ("|".join(x.__name__ for x in c) if isinstance(c, tuple) else c.__name__) + ("?" if d[2] else "")
    if d[0] == "other":
        return "other:" + d[1]
    return d[0]


def show_outcome(o):
    if o[0] == 0:
        return "value " + show_value(o[1])
    if o[0] == 1:
        return "raises " + CODE_ERR.get(o[1], str(o[1]))
    return "OutOfFuel"


def show_value(w):
    t = w[0]
    if t == 0:
        return str(w[1])
    if t == 1:
        return repr("".join(map(chr, w[1])))
    if t == 2:
        return "True" if w[1] else "False"
    if t == 3:
        return "None"
    if t == 4:
        return "[" + ", ".join(show_value(x) for x in w[1]) + "]"
    if t == 5:
        return "{" + ", ".join(repr("".join(map(chr, k))) + ": " + show_value(x) for k, x in w[1]) + "}"
    return f"<opaque {w[1]}>"
