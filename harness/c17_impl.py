"""Shared by the C17 and C11 checks: driving the real aw_query.query2.query, reading the
call plumbing of aw_query/functions.py off the live registry (inspect.signature of every
registered function), recording what the built-in bodies were called with and what they
did (the model treats bodies as an oracle and is replayed against that record), and the
wire encoding of cases for the extracted model (coq/Extract/ExC17.v)."""
import importlib
import inspect
import json
import os
import signal
import sys
import traceback
import types
import typing
from datetime import datetime, timedelta, timezone

from .common import sx, VERIF

# The SPECIFICATION of the registered built-ins' interface: the registry of the unchanged tree, frozen by
# tools/c17_registry.py (function name -> ordered parameters with declared class and has-default flag).
# What "a wrong top-level argument type" / "a wrong argument count" means is read from this file, never
# from the signatures of the tree under test (notes/agents/C17.md, "Round 3").
REGISTRY_SNAPSHOT = os.path.join(VERIF, "corpus", "c17_registry.json")

T_START = datetime(2020, 1, 1, 0, 0, 0, tzinfo=timezone.utc)
T_END = datetime(2020, 1, 2, 0, 0, 0, tzinfo=timezone.utc)
QNAME = "q-name"
HOUR, MINUTE = 3600 * 10 ** 6, 60 * 10 ** 6
# what the first datastore's bucket "b1" holds: (offset from T_START, duration, data), all in microseconds
B1_EVENTS = [(i * HOUR, 10 * (i + 1) * MINUTE, {"app": "a%d" % (i % 2), "title": "t%d" % i}) for i in range(3)]

ERR_CODE = {"ParseError": 1, "InterpretError": 2, "FunctionError": 3, "KeyError": 4, "ValueError": 5,
            "IndexError": 6, "AttributeError": 7, "TypeError": 8, "IntegrityError": 9}
CODE_ERR = {v: k for k, v in ERR_CODE.items()}
CODE_ERR[10] = "Other"


# The declared parameter types whose check the model contains (pkind 2..5 of Model/Query.v); the
# class decides, however the annotation spells it.
CHECKED_CLASSES = {list: 2, str: 3, int: 4, float: 5}


class Unsupported(Exception):
    """The case left the modelled domain (a float reached the query level, ...): skipped and counted."""


class HarnessBroken(Exception):
    """The registry no longer has the shape the harness reads (fail closed)."""


class CaseTimeout(BaseException):
    pass


def cps(s):
    return [ord(c) for c in s]


class Impl:
    """One live aw_query with an `echo` built-in registered through the public decorator, a
    memory datastore with one bucket, and recorders spliced below the type-check wrapper."""

    def __init__(self, with_echo=True, snapshot=REGISTRY_SNAPSHOT):
        """snapshot: path of the frozen registry the expectations are taken from (None = describe the live
        registry only; used by tools/c17_registry.py to write the snapshot)."""
        from aw_core.models import Event
        from aw_datastore import Datastore
        from aw_datastore.storages import MemoryStorage
        import aw_query.functions as F
        import aw_query.query2 as Q
        import aw_query.exceptions as X
        self.F, self.Q, self.X = F, Q, X
        self.Datastore = Datastore
        self.Event = Event
        if with_echo and "echo" not in F.functions:
            @F.q2_function()
            def q2_echo(*args):
                return list(args)
        self.ds = Datastore(MemoryStorage, testing=True)
        self.cur_ds = self.ds
        self.contents = {}      # id(datastore) -> {bucket id: [(offset us, duration us, data)]}: what the HARNESS put there
        self.keep_ds = [self.ds]
        self.create_bucket(self.ds, "b1", B1_EVENTS)
        self.buckets = self.buckets_of(self.ds)
        self.calls = None
        self.keep = []          # keeps opaque objects alive so id() stays unique
        self.opaque = {}
        self.snapshot_path = snapshot
        self.table = self._read_registry()
        self.max_digits = sys.get_int_max_str_digits() if hasattr(sys, "get_int_max_str_digits") else 0

    # -- datastores and their buckets (sessions: creation / deletion / re-creation between queries) ----
    def new_datastore(self, storage="memory"):
        """A further Datastore alive beside the first one (two instances at once)."""
        from aw_datastore import storages
        cls = {"memory": storages.MemoryStorage, "sqlite": storages.SqliteStorage}[storage]
        ds = self.Datastore(cls, testing=True)
        self.keep_ds.append(ds)
        for b in list(ds.buckets()):        # a file left over by an earlier instance of the same storage
            ds.delete_bucket(b)
        return ds

    def create_bucket(self, ds, bid, events=()):
        """events: (offset from T_START in us, duration in us, data) - recorded on the harness side, so
        that what a bucket holds (and which buckets exist) never has to be asked of the tree under test."""
        b = ds.create_bucket(bid, type="test", client="c", hostname="h1")
        if events:
            b.insert([self.Event(timestamp=T_START + timedelta(microseconds=o), duration=timedelta(microseconds=d),
                                 data=dict(data)) for o, d, data in events])
        self.contents.setdefault(id(ds), {})[bid] = list(events)

    def delete_bucket(self, ds, bid):
        ds.delete_bucket(bid)
        del self.contents[id(ds)][bid]

    def buckets_of(self, ds):
        return sorted(self.contents.get(id(ds), {}))

    # -- the registry -----------------------------------------------------------------
    @staticmethod
    def _cell(fn, name):
        code = fn.__code__
        if name not in code.co_freevars:
            raise HarnessBroken(f"{fn} has no closure variable {name}")
        return fn.__closure__[code.co_freevars.index(name)]

    def _read_registry(self):
        """Reads the LIVE registry (and splices the recorders), then takes the interface the expectations
        and the model's table are built from out of the frozen snapshot: a function named by the snapshot
        has the snapshot's parameters whatever the live signature says; a function that exists only live
        falls back to its live signature.  Every difference between the two is kept in
        self.registry_diffs (the checks report each as a broken tie)."""
        F = self.F
        self.live = {}         # name -> [param dict] as read off the tree under test
        self.live_kinds = {}   # name -> kinds of the live signature (decoding of recorded body arguments)
        self.typechecked = {}
        fpath = os.path.abspath(F.__file__)
        for name in sorted(F.functions):
            outer = F.functions[name]
            if outer.__code__.co_name != "g" or os.path.abspath(outer.__code__.co_filename) != fpath:
                raise HarnessBroken(f"functions[{name!r}] is not q2_function's wrapper")
            osig = self._cell(outer, "sig").cell_contents
            fcell = self._cell(outer, "f")
            inner = fcell.cell_contents
            typechecked = (getattr(inner, "__code__", None) is not None and inner.__code__.co_name == "g"
                           and os.path.abspath(inner.__code__.co_filename) == fpath
                           and "sig" in inner.__code__.co_freevars)
            if typechecked:
                tsig = self._cell(inner, "sig").cell_contents
                if str(tsig) != str(osig):
                    raise HarnessBroken(f"{name}: the two decorators see different signatures")
                fcell = self._cell(inner, "f")
                inner = fcell.cell_contents
            if getattr(inner, "_c17_recorder", False):
                orig = inner._c17_orig
            else:
                orig = inner
                fcell.cell_contents = self._recorder(name, orig)
            if str(inspect.signature(orig)) != str(osig):
                raise HarnessBroken(f"{name}: wrapper signature differs from the function's")
            params = []
            for p in osig.parameters.values():
                d = self.declared_type(orig, p.annotation, f"{name}.{p.name}")
                if p.kind == p.VAR_POSITIONAL:
                    kind = "var_positional"
                elif p.kind == p.POSITIONAL_OR_KEYWORD:
                    kind = "positional"
                else:
                    raise HarnessBroken(f"{name}: parameter kind {p.kind} is outside the model")
                params.append({"name": p.name, "kind": kind, "decl": d, "has_default": p.default is not p.empty})
            self.live[name] = params
            self.live_kinds[name] = self.kinds_of(name, params)[0]
            self.typechecked[name] = typechecked

        spec, self.registry_diffs, self.live_only = dict(self.live), [], []
        self.snapshot = None
        if self.snapshot_path is not None:
            try:
                snap = json.load(open(self.snapshot_path))["functions"]
            except Exception as e:       # fail closed: without the specification nothing can be expected
                raise HarnessBroken(f"cannot read the registry snapshot {self.snapshot_path}: {e}")
            self.snapshot = {n: [dict(p, decl=decl_from_json(p, f"snapshot {n}.{p['name']}")) for p in ps]
                             for n, ps in snap.items()}
            for name in sorted(set(self.snapshot) | set(self.live)):
                if name not in self.snapshot:
                    self.live_only.append(name)          # e.g. the harness's own `echo`
                    continue
                spec[name] = self.snapshot[name]
                if name not in self.live:
                    self.registry_diffs.append(f"built-in {name} of the frozen registry is no longer registered")
                    continue
                a, b = [param_text(p) for p in self.snapshot[name]], [param_text(p) for p in self.live[name]]
                if a != b:
                    self.registry_diffs.append(f"built-in {name}: frozen registry ({', '.join(a)}) / tree under test "
                                               f"({', '.join(b)})")

        table = []
        self.sigs = {}
        self.decl = {}         # name -> declared type of every parameter (see declared_type)
        for name in sorted(spec):
            kinds, decl = self.kinds_of(name, spec[name])
            self.decl[name] = decl
            body = {"nop": 0, "echo": 1, "query_bucket": 2, "query_bucket_eventcount": 2}.get(name, 3)
            table.append((name, kinds, body))
            self.sigs[name] = (kinds, body, self.typechecked.get(name, False))
        return table

    @staticmethod
    def kinds_of(name, params):
        """Parameter list (snapshot or live) -> the model's parameter kinds + the declared types."""
        kinds = []
        decl = []
        for p in params:
            d = p["decl"]
            if p["kind"] == "var_positional":
                if d[0] != "any":
                    raise HarnessBroken(f"{name}: annotated *args is outside the model")
                kinds.append(8)
            elif d[0] == "ds":
                if p["has_default"]:
                    raise HarnessBroken(f"{name}: Datastore parameter with a default")
                kinds.append(0)
            elif d[0] == "ns":
                if p["has_default"]:
                    raise HarnessBroken(f"{name}: namespace parameter with a default")
                kinds.append(1)
            elif p["has_default"]:
                # a parameter with a default is not type-checked by the decorator (its stated
                # condition); its declared type is recorded (coverage: declared_not_checked)
                kinds.append(7)
            elif d[0] == "cls" and d[1] in CHECKED_CLASSES:
                # The expectation comes from the DECLARED type (annotation normalised by
                # declared_type: List[Event] / typing.List / "list" / Optional[list] /
                # Annotated[list, ...] all declare a list), not from what the decorator's own
                # test recognises, and not from whether the type-check decorator happens to be
                # applied in the registered wrapper chain: a built-in whose declared list / str
                # / int / float parameter is not checked must show up as "wrong top-level type
                # is not a function error", not be silently modelled as unchecked.
                kinds.append(CHECKED_CLASSES[d[1]])
            else:
                # no declared type (any) -> nothing to check.  A declared class outside the
                # four (dict, bool, Event, a union, ...) has no kind in the model (6 = plain);
                # the by-construction stream of the C17 check still demands a function error
                # for every producible value that is not an instance of it.
                kinds.append(6)
            decl.append(d if kinds[-1] != 7 else ("default",) + tuple(d))
        # required parameters must precede optional ones for the model's counting rule
        seen_opt = False
        for k in kinds:
            if k in (7, 8):
                seen_opt = True
            elif seen_opt:
                raise HarnessBroken(f"{name}: required parameter after an optional one")
        return kinds, decl

    def describe_live(self):
        """The live registry in the snapshot's format (tools/c17_registry.py writes this)."""
        return {name: [dict({"name": p["name"], "kind": p["kind"], "has_default": p["has_default"]},
                            **decl_to_json(p["decl"])) for p in ps]
                for name, ps in sorted(self.live.items())}

    # -- declared parameter types ---------------------------------------------------------
    def declared_type(self, fn, ann, where, depth=0):
        """Normal form of a parameter annotation, so that the DECLARED type (not the spelling the
        type-check decorator happens to recognise) decides what a wrong top-level argument type
        is:  ("ds",) | ("ns",) | ("any",) | ("cls", C, optional) | ("other", text).
        String annotations / forward references are evaluated in the function's globals,
        NewType / Annotated / Optional[X] (= Union[X, None], X | None) are unwrapped, a
        parametrised or bare typing generic is replaced by its origin class (List[Event],
        typing.List -> list, Dict[str, int] -> dict, Sequence[int] -> collections.abc.Sequence).
        Fails closed on what it cannot resolve."""
        F = self.F
        if depth > 10:
            raise HarnessBroken(f"{where}: annotation nests too deep")
        if isinstance(ann, typing.ForwardRef):
            ann = ann.__forward_arg__
        if isinstance(ann, str):
            try:
                ann = eval(ann, dict(getattr(fn, "__globals__", {})), dict(vars(typing)))
            except Exception as e:
                raise HarnessBroken(f"{where}: cannot resolve the string annotation {ann!r}: {e}")
            return self.declared_type(fn, ann, where, depth + 1)
        if ann is inspect.Parameter.empty or ann is typing.Any or ann is object or isinstance(ann, typing.TypeVar):
            return ("any",)
        if ann is None:
            ann = type(None)
        try:
            if ann == self.Datastore:
                return ("ds",)
            if ann == F.TNamespace:
                return ("ns",)
        except Exception:
            pass
        if hasattr(ann, "__supertype__"):                      # typing.NewType
            return self.declared_type(fn, ann.__supertype__, where, depth + 1)
        origin = typing.get_origin(ann)
        if origin is getattr(typing, "Annotated", None) and origin is not None:
            return self.declared_type(fn, typing.get_args(ann)[0], where, depth + 1)
        if origin is typing.Union or (getattr(types, "UnionType", None) is not None and origin is types.UnionType):
            members = [a for a in typing.get_args(ann) if a is not type(None)]
            optional = len(members) < len(typing.get_args(ann))
            if len(members) == 1:
                d = self.declared_type(fn, members[0], where, depth + 1)
                if d[0] == "cls":
                    return ("cls", d[1], optional or d[2])
                return d
            ds = [self.declared_type(fn, m, where, depth + 1) for m in members]
            if any(d[0] == "any" for d in ds):
                return ("any",)
            if all(d[0] == "cls" for d in ds):                 # isinstance accepts the tuple
                flat = []
                for d in ds:
                    flat += list(d[1]) if isinstance(d[1], tuple) else [d[1]]
                return ("cls", tuple(flat), optional or any(d[2] for d in ds))
            return ("other", repr(ann))
        if origin is not None:
            ann = origin
        if isinstance(ann, type):
            return ("cls", ann, False)
        return ("other", repr(ann))

    def _recorder(self, name, orig):
        sig = inspect.signature(orig)
        impl = self

        def rec(*a, **k):
            try:
                sig.bind(*a, **k)
            except TypeError:
                return orig(*a, **k)          # raises the binding TypeError itself
            entry = {"name": name, "args": None, "out": None}
            if impl.calls is not None:
                try:
                    entry["args"] = [impl.arg_wire(name, i, x) for i, x in enumerate(a)]
                except Unsupported as e:
                    entry["unsupported"] = str(e)
                impl.calls.append(entry)
            try:
                r = orig(*a, **k)
            except CaseTimeout:
                raise
            except BaseException as e:
                entry["out"] = ("exc", e)
                raise
            entry["out"] = ("ret", r)
            return r

        rec._c17_recorder = True
        rec._c17_orig = orig
        return rec

    # -- values -----------------------------------------------------------------------
    def val_wire(self, v, depth=0):
        if depth > 200:
            raise Unsupported("value nested deeper than 200")
        if v is None:
            return [3]
        if type(v) is bool:
            return [2, 1 if v else 0]
        if type(v) is int:
            if abs(v) >= 2 ** 61:
                raise Unsupported("integer beyond the driver's 63-bit text conversion")
            return [0, v]
        if type(v) is str:
            return [1, cps(v)]
        if type(v) is list:
            return [4, [self.val_wire(x, depth + 1) for x in v]]
        if type(v) is dict and all(type(k) is str for k in v):
            return [5, [[cps(k), self.val_wire(x, depth + 1)] for k, x in v.items()]]
        if isinstance(v, (float, list, str, int)):
            raise Unsupported(f"{type(v).__name__} instance that the isinstance model does not cover")
        i = self.opaque.get(id(v))
        if i is None:
            i = len(self.keep)
            self.keep.append(v)
            self.opaque[id(v)] = i
        return [6, i]

    def arg_wire(self, name, i, x):
        kinds = self.live_kinds[name]       # what the body is handed follows the live signature
        k = kinds[i] if i < len(kinds) else None
        if k == 0 and x is self.cur_ds:
            return [0]
        if k == 1 and type(x) is dict and "STARTTIME" in x:
            return [1]
        return [2, self.val_wire(x)]

    # -- one run ----------------------------------------------------------------------
    def classify_exc(self, e):
        X = self.X
        if isinstance(e, X.QueryParseException):
            return "ParseError"
        if isinstance(e, X.QueryInterpretException):
            return "InterpretError"
        if isinstance(e, X.QueryFunctionException):
            return "FunctionError"
        n = type(e).__name__
        return n if n in ERR_CODE else "Other:" + n

    def in_body(self, e):
        """Oracle side: was the exception raised inside a built-in's body?  Decided from the
        traceback alone: the innermost aw_query frame is a function of functions.py other
        than the two decorators' wrappers `g`, or there is a frame of aw_transform /
        aw_datastore / aw_core below aw_query."""
        tb = traceback.extract_tb(e.__traceback__)
        fpath = os.path.abspath(self.F.__file__)
        qdir = os.path.dirname(fpath)
        root = os.path.dirname(qdir)
        innermost_q = None
        below = False
        for fr in tb:
            fn = os.path.abspath(fr.filename)
            if os.path.dirname(fn) == qdir:
                innermost_q = (fn, fr.name)
                below = False
            elif fn.startswith(os.path.join(root, "aw_transform")) or fn.startswith(os.path.join(root, "aw_datastore")) \
                    or fn.startswith(os.path.join(root, "aw_core")):
                below = True
        if innermost_q is None:
            return False
        fn, name = innermost_q
        if fn == fpath and name not in ("g", "h", "q2_function", "q2_typecheck", "_verify_variable_is_type"):
            return True
        return below and fn == fpath

    def run(self, text, timeout_s=10, ds=None, ctx=None):
        """-> dict(outcome=('value', wire) | ('error', class), calls=[...], exc=exception or None);
        ds: the datastore the query runs against (default: the first one); ctx: (query name, start, end of the
        query period as offsets from T_START in us) - default (QNAME, T_START, T_END)"""
        self.calls = []
        self.cur_ds = ds if ds is not None else self.ds
        qname, start, end = QNAME, T_START, T_END
        if ctx:
            qname, start, end = ctx[0], T_START + timedelta(microseconds=ctx[1]), T_START + timedelta(microseconds=ctx[2])

        def on_alarm(signum, frame):
            raise CaseTimeout()

        old = signal.signal(signal.SIGALRM, on_alarm)
        signal.alarm(timeout_s)
        exc = None
        try:
            try:
                v = self.Q.query(qname, text, start, end, self.cur_ds)
                out = ("value", v)
            except CaseTimeout:
                out = ("timeout", None)
            except RecursionError as e:
                out = ("recursion", None)
                exc = e
            except Exception as e:
                out = ("error", self.classify_exc(e))
                exc = e
        finally:
            signal.alarm(0)
            signal.signal(signal.SIGALRM, old)
        calls, self.calls = self.calls, None
        return {"outcome": out, "calls": calls, "exc": exc, "ctx": (qname, start.isoformat(), end.isoformat())}

    # -- the model's side ---------------------------------------------------------------
    def table_wire(self):
        return [[cps(n), k, b] for n, k, b in self.table]

    def model_case(self, text, r, buckets=None):
        """Wire case for the extracted model: the bodies' recorded outcomes become the script.
        Returns (case_sx, expected_log, expected_outcome) or raises Unsupported.
        buckets: the bucket ids that exist in the datastore the query ran against AT THAT POINT of the
        session (default: those of the first datastore, which the plain streams never change).  The model
        is a pure function of the text, the registry and this list: it knows nothing of earlier queries."""
        buckets = self.buckets if buckets is None else buckets
        script = []
        log = []
        for c in r["calls"]:
            if "unsupported" in c:
                raise Unsupported(c["unsupported"])
            kinds, body, _ = self.sigs[c["name"]]
            if body in (0, 1):
                continue
            kind, payload = c["out"] if c["out"] else ("exc", CaseTimeout())
            if body == 2:
                vals = [a[1] for a in c["args"] if a[0] == 2]
                if vals and vals[0][0] == 1 and "".join(map(chr, vals[0][1])) not in buckets:
                    if not (kind == "exc" and self.classify_exc(payload) == "FunctionError"):
                        raise HarnessBroken("bucket pre-check did not raise QueryFunctionException")
                    continue
            if kind == "ret":
                script.append([0, self.val_wire(payload)])
            else:
                cls = self.classify_exc(payload)
                script.append([1, ERR_CODE.get(cls, 10)])
            log.append([cps(c["name"]), c["args"]])
        kind, payload = r["outcome"]
        if kind == "value":
            want = [0, self.val_wire(payload)]
        elif kind == "error":
            want = [1, ERR_CODE.get(payload, 10)]
        else:
            raise Unsupported(kind)
        qname, start, end = r.get("ctx") or (QNAME, T_START.isoformat(), T_END.isoformat())
        if getattr(self, "_table_sx", None) is None:        # the same for every case: encoded once
            self._table_sx = sx(self.table_wire())
        case = "(" + " ".join(["0", self._table_sx, sx(self.max_digits), sx([cps(b) for b in buckets]), sx(script),
                               sx(cps(qname)), sx(cps(start)), sx(cps(end)), sx(cps(text))]) + ")"
        return case, log, want


def decl_to_json(d):
    """Declared type (Impl.declared_type) -> the snapshot's fields."""
    if d[0] == "cls":
        cs = d[1] if isinstance(d[1], tuple) else (d[1],)
        return {"declared": "cls", "classes": [c.__module__ + "." + c.__qualname__ for c in cs], "optional": bool(d[2])}
    if d[0] == "other":
        return {"declared": "other", "text": d[1]}
    return {"declared": d[0]}


def decl_from_json(j, where):
    """The snapshot's fields -> declared type; fails closed on a class that cannot be found."""
    form = j.get("declared")
    if form in ("ds", "ns", "any"):
        return (form,)
    if form == "other":
        return ("other", j.get("text", ""))
    if form != "cls" or not j.get("classes"):
        raise HarnessBroken(f"{where}: unreadable declared type {j!r}")
    cs = []
    for qual in j["classes"]:
        mod, _, attr = qual.rpartition(".")
        try:
            obj = importlib.import_module(mod)
            for part in attr.split("."):
                obj = getattr(obj, part)
        except Exception as e:
            raise HarnessBroken(f"{where}: cannot find the declared class {qual}: {e}")
        if not isinstance(obj, type):
            raise HarnessBroken(f"{where}: {qual} is not a class")
        cs.append(obj)
    return ("cls", cs[0] if len(cs) == 1 else tuple(cs), bool(j.get("optional", False)))


def param_text(p):
    """One parameter as compared between the frozen and the live registry: kind, declared type, whether it
    has a default (the name is informational: no query text can pass an argument by name)."""
    return ("*" if p["kind"] == "var_positional" else "") + show_decl(p["decl"]) + (" = <default>" if p["has_default"] else "")


def show_decl(d):
    """Declared parameter type (Impl.declared_type) as text for the evidence."""
    if d[0] == "default":
        return "default:" + show_decl(d[1:])
    if d[0] == "cls":
        c = d[1]
        return ("|".join(x.__name__ for x in c) if isinstance(c, tuple) else c.__name__) + ("?" if d[2] else "")
    if d[0] == "other":
        return "other:" + d[1]
    return d[0]


def show_outcome(o):
    if o[0] == 0:
        return "value " + show_value(o[1])
    if o[0] == 1:
        return "raises " + CODE_ERR.get(o[1], str(o[1]))
    return "OutOfFuel"


def show_value(w):
    t = w[0]
    if t == 0:
        return str(w[1])
    if t == 1:
        return repr("".join(map(chr, w[1])))
    if t == 2:
        return "True" if w[1] else "False"
    if t == 3:
        return "None"
    if t == 4:
        return "[" + ", ".join(show_value(x) for x in w[1]) + "]"
    if t == 5:
        return "{" + ", ".join(repr("".join(map(chr, k))) + ": " + show_value(x) for k, x in w[1]) + "}"
    return f"<opaque {w[1]}>"
