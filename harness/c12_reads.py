"""C12, second sentence, for EVERY datastore read a query makes -- not only the first one.

`ReadProbe` observes each call of the two reading query functions (query_bucket,
query_bucket_eventcount) at the moment its result is handed to the program: the value is
snapshotted there (before any later statement can touch it) and compared with a direct windowed
read `Datastore[b].get(starttime=, endtime=)` / `.get_eventcount(...)` made at that very moment
through a *fresh* Datastore facade over the same storage.  It keeps every value handed out during
the query alive, so that `id()` tells whether two reads of one query share a mutable object (the
heap model hands out fresh copies at each QQueryBucket step: `Sep`), and on the memory back end it
records which storage methods each call reached (the model's QQueryBucket step IS one get_events on
the store, QEventcount one get_eventcount).

The black-box half (`check_returned`) does not rely on the probe: programs return read results that
no later statement was given ("pristine" variables) and those are compared with the direct read
after the query."""
import functools
import json

from .evutil import us_of_dt, us_of_td

READERS = ("query_bucket", "query_bucket_eventcount")


def ev_rows(evs):
    return [(e.id, us_of_dt(e.timestamp), us_of_td(e.duration), json.dumps(e.data, sort_keys=True, default=str)) for e in evs]


def mutable_ids(x, Event, out=None):
    """id() -> (kind, object) for every mutable object below a value a read handed out (list, events, data dicts/lists);
    the objects themselves are kept, so that an id is not reused while the table is alive (a built-in may drop a data dict)"""
    if out is None:
        out = {}
    if id(x) in out:
        return out
    if isinstance(x, Event):
        out[id(x)] = ("event", x)
        mutable_ids(x.data, Event, out)
    elif isinstance(x, dict):
        # an Event is a dict subclass as well: handled above
        out[id(x)] = ("dict", x)
        for v in x.values():
            mutable_ids(v, Event, out)
    elif isinstance(x, list):
        out[id(x)] = ("list", x)
        for v in x:
            mutable_ids(v, Event, out)
    return out


class ReadProbe:
    def __init__(self, functions_table, Event, direct_read, storage_calls=None):
        """direct_read(bucket, namespace) -> (rows, count, window label) over the window in force in that namespace
        (STARTTIME / ENDTIME: the query's own instants unless the program assigned them), made quietly (not mirrored
        into the model); storage_calls() -> the list of storage methods reached so far"""
        self.Event = Event
        self.direct_read = direct_read
        self.storage_calls = storage_calls
        self.on = False
        self.calls = []
        self.keep = []
        self.installed = []
        for name in READERS:
            if name in functions_table:
                functions_table[name] = self._wrap(name, functions_table[name])
                self.installed.append(name)

    def begin(self):
        self.calls, self.keep, self.on = [], [], True

    def end(self):
        self.on = False
        calls, self.calls, self.keep = self.calls, [], []
        return calls

    def _wrap(self, name, orig):
        @functools.wraps(orig)
        def g(datastore, namespace, *args, **kwargs):
            if not self.on:
                return orig(datastore, namespace, *args, **kwargs)
            n0 = len(self.storage_calls()) if self.storage_calls else 0
            try:
                r = orig(datastore, namespace, *args, **kwargs)
            except Exception as ex:
                self.calls.append({"fn": name, "args": [repr(a) for a in args], "error": type(ex).__name__})
                raise
            reached = list(self.storage_calls()[n0:]) if self.storage_calls else None
            self.on = False
            try:
                self._record(name, args, r, reached, namespace)
            finally:
                self.on = True
            return r
        return g

    def _record(self, name, args, r, reached, namespace):
        rec = {"fn": name, "args": [repr(a) for a in args], "k": len(self.calls), "reached": reached}
        bucket = args[0] if args and isinstance(args[0], str) else None
        rec["bucket"] = bucket
        if name == "query_bucket":
            rec["shape"] = isinstance(r, list) and all(isinstance(e, self.Event) for e in r)
            rec["handed_out"] = ev_rows(r) if rec["shape"] else repr(r)[:200]
            ids = mutable_ids(r, self.Event)
            rec["shared_with_earlier_read"] = sorted({kind for _, old, _v in self.keep for i, (kind, _o) in ids.items() if i in old})
            rec["shared_with_call"] = sorted({j for j, old, _v in self.keep if any(i in old for i in ids)})
            self.keep.append((rec["k"], ids, r))      # the value stays alive until the query ends: ids stay unique
        else:
            rec["shape"] = isinstance(r, int) and not isinstance(r, bool)
            rec["handed_out"] = r if rec["shape"] else repr(r)[:200]
        if bucket is not None:
            try:
                rows, count, label = self.direct_read(bucket, namespace)
                rec["direct"] = rows if name == "query_bucket" else count
                rec["window"] = label
            except Exception as ex:     # the reader succeeded where the direct read raises
                rec["direct"] = "raised " + type(ex).__name__
        self.calls.append(rec)


def check_calls(calls, memory):
    """-> (failing, disagreements); failing = (signature, what, detail); disagreement = (what, detail)"""
    failing, dis = [], []
    for c in calls:
        if "error" in c:
            continue
        if c["bucket"] is not None and c["handed_out"] != c.get("direct"):
            what = (f"call #{c['k']} in the program, {c['fn']}({c['bucket']!r}), handed out "
                    f"{len(c['handed_out']) if isinstance(c['handed_out'], list) else c['handed_out']!r} "
                    f"{'events' if c['fn'] == 'query_bucket' else '(count)'} that differ from the direct windowed read "
                    f"({len(c['direct']) if isinstance(c['direct'], list) else c['direct']!r}) made at the same moment")
            failing.append(("C12:query_bucket-is-not-the-windowed-read", what,
                            {"call": c["k"], "function": c["fn"], "bucket": c["bucket"], "handed_out": c["handed_out"], "direct": c.get("direct"),
                             "window_in_force": c.get("window")}))
        if c.get("shared_with_earlier_read"):
            dis.append((f"call #{c['k']}, {c['fn']}({c['bucket']!r}), handed out {c['shared_with_earlier_read']} object(s) that call(s) "
                        f"{c['shared_with_call']} of the same query had handed out already (the model's read step returns fresh copies)",
                        {"call": c["k"], "shares_with": c["shared_with_call"], "kinds": c["shared_with_earlier_read"]}))
        if memory and c["reached"] is not None:
            want = "get_events" if c["fn"] == "query_bucket" else "get_eventcount"
            if c["reached"].count(want) != 1:
                dis.append((f"call #{c['k']}, {c['fn']}({c['bucket']!r}), reached the storage methods {c['reached']}: the model's step is "
                            f"exactly one {want} on the store",
                            {"call": c["k"], "reached": c["reached"]}))
    return failing, dis


def check_returned(res, ret_spec, direct_read, calls):
    """ret_spec: key (None = the whole RETURN value) -> ("events" | "count", bucket[, window]): values no statement after
    the read was given; window = the (start, end) the program had assigned when it read (None = the query's own).
    Compared with the direct read after the query."""
    failing = []
    for key, sp in sorted(ret_spec.items(), key=lambda kv: str(kv[0])):
        what, bucket, window = sp[0], sp[1], (sp[2] if len(sp) > 2 else None)
        try:
            v = res if key is None else res[key]
        except Exception:
            failing.append(("C12:query_bucket-is-not-the-windowed-read", f"RETURN has no entry {key!r}", {"key": key}))
            continue
        rows, count, label = direct_read(bucket, None, window)
        if what == "events":
            ok_shape = isinstance(v, list)
            got = ev_rows(v) if ok_shape else repr(v)[:200]
            want = rows
        else:
            got, want = v, count
        if got != want:
            at_handout_ok = any(c.get("bucket") == bucket and c.get("window") == label and c.get("handed_out") == want for c in calls)
            sig = ("C12:query_bucket-value-changed-through-another-read" if at_handout_ok and what == "events"
                   else "C12:query_bucket-is-not-the-windowed-read")
            failing.append((sig, f"the program returned under {key!r} what {'query_bucket' if what == 'events' else 'query_bucket_eventcount'}"
                                 f"({bucket!r}) gave it, untouched by any later statement, and it differs from the direct windowed read "
                                 f"({len(got) if isinstance(got, list) else got!r} vs {len(want) if isinstance(want, list) else want!r})",
                            {"key": key, "bucket": bucket, "returned": got, "direct": want, "window_in_force": label}))
    return failing
