"""C17 — every query text terminates and either yields a value or raises an exception of the
query-error family, of the class the statement names.  Correspondence of
aw_query.query2.query with Model/Query.v (extracted, driver ExC17) on corrupted seed programs
and random token strings, plus the property statement evaluated on the implementation."""
import sys

from . import common
from .common import Check
from .c17_impl import (CODE_ERR, ERR_CODE, HOUR, MINUTE, HarnessBroken, Impl, Unsupported, blackbox_skip, cps, show_decl,
                       show_outcome)
from .c17_session import Session, minimise, outcome_key as session_outcome_key, unroll

RULE = ("every single-character delete / duplicate / swap / insert corruption of 14 seed programs "
        "(insertions from the token alphabet), seeded random strings over the token alphabet plus "
        "names of registered built-ins, and a by-construction stream for each error class the "
        "statement names (every registered built-in with every wrong argument count and every wrong "
        "top-level argument type, the declared type of the parameter - annotation normalised: typing "
        "generics by origin, string annotations, Optional, NewType, Annotated - deciding what is wrong), "
        "string literals in every position a literal can stand in with a backslash before every ASCII "
        "character, escape heads (hex/unicode/named/octal) with complete, truncated and ill-formed tails, "
        "every ASCII character as a directive introducer, and seeded random literals over all of ASCII; "
        "SESSIONS in one process against live Datastore objects (the long-used first one, a second memory one, a "
        "sqlite one): every ordered pair of the bucket-naming query shapes asked while the bucket is absent / created "
        "/ deleted / re-created / deleted, the same shapes against two datastores alive at once, seeded random walks "
        "over create / delete / bucket query / failing query, every 37th earlier text asked a second time, and inputs "
        "of 10 001 elements (list, arguments, statements, characters, dict entries, events in a bucket); what a wrong "
        "argument type / count is comes from the frozen registry corpus/c17_registry.json, not from the tree; "
        "INTERLEAVINGS, FAULT PATHS, ENVIRONMENT, EDGE VALUES: two Datastore objects over ONE store (a shared MemoryStorage "
        "object, two connections to one sqlite file, a second object over the long-used first store) creating and deleting "
        "the bucket behind each other's back under every bucket-naming shape; part of the queries of every session on worker "
        "threads that stay alive (a query that does not come back within the time limit is a failing input); runs of "
        "hundreds of rejected queries whose error sits inside nested elements (parse, name, arity, type, bucket) followed by "
        "texts of every class; the query period over the full datetime range (naive datetime.min / max, aware edges whose "
        "UTC equivalent leaves year 1..9999, DST gap / fold, second-granular offsets, reversed) under texts of every class; "
        "texts of every class under process-level settings a host may have made (logging at DEBUG with a formatting handler, "
        "a lowered recursion limit, warnings as errors, other local time zones, other int-digit limits); string literals "
        "with every line-boundary / white-space / format / normalisation-sensitive code point inside; "
        "non-trivial = distinct text that reaches a quote/bracket scanner or a call (contains one of "
        "( [ { \" ')")

SEEDS = [
    'RETURN = 1;',
    'RETURN = "a,b";',
    "RETURN = 'it\\'s';",
    'x = [1, 2]; RETURN = x;',
    'RETURN = {"a": 1, "b": [2]};',
    'RETURN = echo(1, "s", [2], {"k": 3}, nop());',
    'RETURN = limit_events([1, 2, 3], 2);',
    'a = nop(); b = a; RETURN = echo(a, b, true);',
    'RETURN = query_bucket("b1");',
    'RETURN = sort_by_duration(query_bucket(find_bucket("b")));',
    'RETURN = concat([], [1]);',
    'RETURN = query_bucket_eventcount("nope");',
    'e = query_bucket("b1");\nRETURN = merge_events_by_keys(e, ["app"]);',
    'RETURN = echo( [ ")" , "]" ] , { "x=" : "(," } )',
]
INSERT = list("()[]{},:=;\"'\\ \n1a_")
ALPHA = list("()[]{},:=;\"'\\ \n\t0123456789abcxyzRETURN_")


def corruptions(seed, quick_stride):
    n = len(seed)
    for i in range(n):
        yield "delete", seed[:i] + seed[i + 1:]
        yield "duplicate", seed[:i + 1] + seed[i] + seed[i + 1:]
        if i + 1 < n:
            yield "swap", seed[:i] + seed[i + 1] + seed[i] + seed[i + 2:]
    k = 0
    for i in range(n + 1):
        for c in INSERT:
            k += 1
            if k % quick_stride == 0:
                yield "insert", seed[:i] + c + seed[i:]


def random_text(rng, names):
    words = ALPHA + ["RETURN", "RETURN=", "RETURN = ", "true", "x", "x=", ";", "=", "(", ")", ",", "[", "]", "{",
                     "}", '"', "'", '"a"', "1", "\x1c"] + names
    k = rng.randrange(1, 16)
    q = "".join(rng.choice(words) for _ in range(k))
    if rng.random() < 0.6:
        q = "RETURN=" + q
    if rng.random() < 0.2:
        q = "x=" + "".join(rng.choice(words) for _ in range(rng.randrange(1, 6))) + ";" + q
    return q


# every kind of value a query text can put into a top-level argument position, as a literal
LITERALS = [("[]", []), ('"s"', "s"), ("1", 1), ('{"a": 1}', {"a": 1}), ("true", True)]


def good_literal(d):
    """A literal of the declared type d (Impl.declared_type); "1" where nothing is declared or no
    literal has the type (float)."""
    if d[0] == "cls":
        for t, v in LITERALS:
            if isinstance(v, d[1]):
                return t
    return "1"


def wrong_literals(d):
    """What the statement calls a wrong top-level argument type, decided by the DECLARED type of the
    parameter: every literal whose value is not an instance of the declared class (isinstance, so
    `true` is an int).  Nothing for a parameter without a declared class and for one with a default
    (the decorator's stated condition excludes defaults; recorded as declared_not_checked)."""
    if d[0] != "cls":
        return []
    return [t for t, v in LITERALS if not isinstance(v, d[1])]


def class_stream(impl):
    """(category, text, expected class) — the expectation follows from the statement and from the
    signatures read off the registry, not from the model."""
    for t in ["RETURN", "RETURN 1", "x", "nop()", "1", '"a"', "[1]", "RETURN;RETURN=1", "x y z", " \n RETURN \t"]:
        yield "no-equals", t, "ParseError"
    for t in ["RETURN=", "RETURN =", "x = ;RETURN=1", "RETURN=1;x=", "=", " = "]:
        yield "nothing-after-equals", t, "ParseError"
    for t in ['RETURN="abc', "RETURN='abc", 'RETURN = "', "RETURN = '", 'RETURN = "a\'', 'RETURN=echo("abc)',
              'RETURN=[1, "abc]', 'RETURN={"a: 1}', 'RETURN = "a\\"b']:
        yield "unterminated-quote", t, "ParseError"
    for c in ") ] } , : = \\ . - + * / ! @ # $ % & < > ? | ~ ^ `".split():
        yield "no-token", "RETURN = " + c, "ParseError"
        yield "no-token", "RETURN = echo(" + c + ")", "ParseError"
        yield "no-token", "RETURN = [" + c + "]", "ParseError"
        yield "no-token", 'RETURN = {"k": ' + c + "}", "ParseError"
        yield "no-token", "RETURN = {" + c + ' "k": 1}', "ParseError"
        yield "no-token", "RETURN = [" + c + " 1]", "ParseError"
        yield "no-token", "RETURN = echo(" + c + " 1)", "ParseError"
        yield "no-token", 'RETURN = {"a": 1,' + c + ' "k": 1}', "ParseError"
    for t in ["RETURN = zzz", "RETURN = [zzz]", "RETURN = echo(zzz)", 'RETURN = {"a": zzz}', "x = 1; RETURN = X",
              "RETURN = RETURN"]:
        yield "unknown-variable", t, "InterpretError"
    for t in ["RETURN = zzz()", "RETURN = zzz(1, 2)", "RETURN = [zzz()]", "RETURN = echo(q2_nop())", "RETURN = (1)",
              "RETURN = NOP()"]:
        yield "unknown-function", t, "InterpretError"
    for name, kinds, body in impl.table:
        decl = [d for k, d in zip(kinds, impl.decl[name]) if k not in (0, 1)]
        user = [k for k in kinds if k not in (0, 1)]
        required = len([k for k in user if k not in (7, 8)])
        maxn = None if 8 in user else len(user)
        good = [good_literal(d) for d in decl]
        for n in range(0, len(user) + 3):
            if n >= required and (maxn is None or n <= maxn):
                continue
            args = [good[i] if i < len(user) else "1" for i in range(n)]
            yield "wrong-count", f"RETURN = {name}({', '.join(args)})", "InterpretError"
        for i, d in enumerate(decl):
            for n in range(i + 1, len(user) + 2):
                for w in wrong_literals(d):
                    args = [good[j] if j < len(user) else "1" for j in range(n)]
                    args[i] = w
                    yield "wrong-type", f"RETURN = {name}({', '.join(args)})", "FunctionError"
                    # the same wrong value arriving through a variable / from a call
                    if n == len(user):
                        yield "wrong-type", f"v = {w}; RETURN = {name}({', '.join(args[:i] + ['v'] + args[i + 1:])})", \
                            "FunctionError"
    for t in ['RETURN = query_bucket("nope")', 'RETURN = query_bucket_eventcount("")',
              'RETURN = echo(query_bucket("b2"))']:
        yield "unknown-bucket", t, "FunctionError"


def repaired_stream(impl):
    """Inputs that escaped with ValueError before /repo's a51606e (int() on what str.isdigit
    accepted): ordinary cases now, the statement says parse error."""
    if impl.max_digits:
        yield "class-int-limit", "RETURN=" + "1" * (impl.max_digits + 1), "ParseError"
        yield "class-int-limit", "RETURN=[1, " + "0" * (impl.max_digits + 1) + "]", "ParseError"
        yield "class-int-limit", "x=" + "7" * (impl.max_digits + 5) + ";RETURN=1", "ParseError"
    yield "class-non-ascii-digit", "RETURN=\u00b2", "ParseError"
    yield "class-non-ascii-digit", "RETURN=[1, \u00b2]", "ParseError"
    yield "class-non-ascii-digit", "RETURN=echo(1\u00b2)", "ParseError"


# characters outside ASCII for which str.isdigit/isalpha/isspace are all False (the model's
# reading of every non-ASCII character); the superscript two (isdigit, so it also continues an
# identifier: `x\u00b2 = 1` assigns a variable) appears only in repaired_stream's value positions
OPAQUE_NON_ASCII = ["\u20ac", "\u2192", "\u221a", "\u00a7", "\U0001f600", "\u00d7"]


def non_ascii_stream(rng, n):
    """Outside the stated domain (ASCII outside string literals): outcome class only."""
    base = ['RETURN = "%s";', 'RETURN = %s;', 'RETURN = [1, %s];', 'RETURN = echo("a%sb", 2);', 'x%s = 1; RETURN = 1;',
            'RETURN = {"%s": 1};', 'RETURN = 1%s;', 'RETURN = echo(%s);', "RETURN = 'a%s';", 'RETURN %s= 1']
    for b in base:
        for c in OPAQUE_NON_ASCII:
            yield b % c
    for _ in range(n):
        k = rng.randrange(1, 10)
        yield "RETURN=" + "".join(rng.choice(OPAQUE_NON_ASCII + list('()[]",1a ')) for _ in range(k))


# Code points the query language gives no meaning inside a string literal, but some text routine does: the line
# boundaries of str.splitlines (CR LF, CR, VT, FF, FS, GS, RS, NEL, LS, PS), white space of str.strip / split / \s
# beyond the blank, zero-width and format characters, NUL / DEL, lone surrogates (no UTF-8 form), characters that
# Unicode normalisation, case folding or an entity / percent decoder rewrite, runs of blanks and line breaks that a
# white-space collapse would touch.  A literal contains them and evaluates to itself (value compared with the model).
SPECIAL_CHARS = ["\r\n", "\r", "\x0b", "\x0c", "\x1c", "\x1d", "\x1e", "\x1f", "\x85", "\u2028", "\u2029", "\xa0", "\u2003",
                 "\u3000", "\u200b", "\u200e", "\ufeff", "\x00", "\x7f", "\ud800", "\udfff", "e\u0301", "\ufb01", "\uff21",
                 "\u00df", "\u0130", "\u212a", "  ", "\t", "\n\n", " \n ", "\n\r", "&lt", "&#65", "%41", "\U0001f600"]


def special_stream():
    """(quote, body, context): every special code point alone, between letters, doubled, first, last, after a
    backslash - in the positions a literal can stand in, in rotation."""
    k = 0
    for q in QUOTES:
        for c in SPECIAL_CHARS:
            for body in (c, "a" + c + "b", c + c, c + "b", "a" + c, "a\\" + c + "b", "x" + c + "y" + c + "z"):
                k += 1
                yield q, body, LITERAL_CONTEXTS[0]
                yield q, body, LITERAL_CONTEXTS[1 + k % (len(LITERAL_CONTEXTS) - 1)]


QUOTES = "\"'"
# where a string literal can stand: statement value, list entry, dict key, dict value, call argument
LITERAL_CONTEXTS = ['RETURN = %s;', 'RETURN = [%s];', 'RETURN = [1, %s, 2];', 'RETURN = {%s: 1};', 'RETURN = {"k": %s};',
                    'RETURN = echo(%s);', 'RETURN = echo(1, %s, [%s]);', 'RETURN = nop(%s);', 'x = %s; RETURN = x;']
# what may follow a backslash that starts a multi-character escape in other notations (hex / unicode
# / named / octal / control): complete, truncated, and with a character that does not belong
ESCAPE_HEADS = ["x", "u", "U", "N", "0", "1", "7", "8", "o", "c", "{"]
ESCAPE_TAILS = ["", "4", "41", "4g", "g", "zz", "004", "0041", "00e9", "d800", "12", "wxyz", "zzzz", "0000004", "00000041",
                "0010ffff", "00110000", "ffffffff", "Uzzzz", "{DIGIT ONE}", "{nope}", "{", "{}", "}", "{DIGIT ONE",
                "101", "400", "777", "8", "x", "\\"]
# what may follow a character that introduces a directive in a formatting / templating / pattern
# notation (percent, brace, dollar, ampersand, ...): nothing, itself, a conversion, a name in brackets
DIRECTIVE_TAILS = ["", None, "s", "0", "{k}", "(k)s", "<k>", " "]


def literal_expectation(q, body):
    """By construction: the token scanner closes a literal at the first quote character of its kind
    that does not directly follow a backslash; with none of those inside, no ';' (statement
    separator) and no backslash last, q+body+q is one well-formed literal and every context above
    is a well-formed program -> a value ("nop(...)" -> wrong count).  Otherwise no expectation
    beyond the statement's outcome family."""
    if ";" in body or body.endswith("\\"):
        return None
    for i, c in enumerate(body):
        if c == q and (i == 0 or body[i - 1] != "\\"):
            return None
    return "value"


def escape_stream(quick):
    """String literals whose content would mean something in another notation; here every character
    but the quote after a backslash stands for itself.  Both kinds of quote; in every position a
    literal can stand in (quick: the statement value plus positions in rotation)."""
    nctx = len(LITERAL_CONTEXTS)
    k = 0
    for q in QUOTES:
        # backslash followed by every ASCII character
        for c in range(128):
            ch = chr(c)
            for body in ("\\" + ch, "\\" + ch + "\\" + ch + " \\" + ch, "ab\\" + ch + "cd\\" + ch + "ef"):
                yield q, body, LITERAL_CONTEXTS[0]
            for j in range(nctx):
                if j == 0 or not quick or (c + j) % 3 == 0:
                    yield q, "a\\" + ch + "b", LITERAL_CONTEXTS[j]
        # backslash + escape head + every tail
        for h in ESCAPE_HEADS:
            for t in ESCAPE_TAILS:
                k += 1
                for j in range(nctx):
                    if j == 0 or not quick or j == 1 + k % (nctx - 1):
                        yield q, "\\" + h + t, LITERAL_CONTEXTS[j]
                if not quick or k % 2:
                    yield q, "p\\" + h + t + " q", LITERAL_CONTEXTS[0]
        # every ASCII character as the introducer of a directive, without a backslash
        for c in range(128):
            ch = chr(c)
            for t in DIRECTIVE_TAILS:
                k += 1
                body = ch + (ch if t is None else t)
                if not quick or k % 2:
                    yield q, body, LITERAL_CONTEXTS[0]
                if not quick or not k % 2:
                    yield q, "a " + body + " b" + ch, LITERAL_CONTEXTS[k % nctx]


def random_literal(rng):
    """A string literal over all of ASCII: plain characters (the quote, ';', '=', brackets, control
    characters included), backslash + any ASCII character, escape heads with random tails, a few
    non-ASCII symbols; sometimes left unterminated."""
    q = rng.choice(QUOTES)
    parts = []
    for _ in range(rng.randrange(0, 7)):
        r = rng.random()
        if r < 0.35:
            parts.append("\\" + chr(rng.randrange(128)))
        elif r < 0.55:
            parts.append("\\" + rng.choice(ESCAPE_HEADS)
                         + "".join(rng.choice("0123456789abcdefABCDEFgz{} ") for _ in range(rng.randrange(0, 9))))
        elif r < 0.58:
            parts.append(rng.choice(OPAQUE_NON_ASCII))
        elif r < 0.62:
            parts.append(rng.choice(SPECIAL_CHARS))
        elif r < 0.70:
            parts.append(rng.choice("%{}$&#@~^`<>") + rng.choice([t for t in DIRECTIVE_TAILS if t is not None]))
        elif r < 0.75:
            parts.append("\\" + q)
        else:
            parts.append(chr(rng.randrange(128)))
    body = "".join(parts)
    close = q if rng.random() < 0.9 else ""
    if not close:       # left open: white space beyond ASCII (str.strip's, not the model's) could end up at a statement's edge
        body = "".join(c for c in body if ord(c) < 128 or not c.isspace())
    return q, body, close


def random_literal_text(rng):
    shape = rng.randrange(5)
    n = rng.randrange(1, 3) if shape == 0 else rng.randrange(1, 4)
    lits = [random_literal(rng) for _ in range(n)]
    want = "value" if all(close and literal_expectation(q, body) for q, body, close in lits) else None
    toks = [q + body + close for q, body, close in lits]
    if shape == 0:
        text = "RETURN = " + toks[0] if n == 1 else "x = " + toks[1] + "; RETURN = " + toks[0]
    elif shape == 1:
        text = "RETURN = [" + ", ".join(toks) + "]"
    elif shape == 2:
        text = "RETURN = echo(" + ", ".join(toks) + ")"
    elif shape == 3:
        text = "RETURN = {" + ", ".join(t + ": " + t for t in toks) + "}"
    else:
        text = "RETURN = echo({" + toks[0] + ": [" + ", ".join(toks[1:]) + "]})"
    return text, want



# -- sessions -------------------------------------------------------------------------------------
# Query shapes that name a bucket (the statement's "unknown bucket" clause): each must be a value while every
# bucket it names exists in the datastore it runs against and a function error otherwise - at every point of a
# history, whatever was asked before.  (shape, number of bucket names it takes)
BUCKET_SHAPES = [
    ('RETURN = query_bucket("%s");', 1),
    ('RETURN = query_bucket_eventcount("%s");', 1),
    ('b = "%s"; RETURN = limit_events(query_bucket(b), 1);', 1),
    ('RETURN = sort_by_duration(query_bucket(find_bucket("%s")));', 1),
    ('RETURN = find_bucket("%s");', 1),
    ('RETURN = [query_bucket_eventcount("%s"), echo(query_bucket("%s"))];', 2),
]
SESSION_EVENTS = [[0, MINUTE, {"app": "x", "title": "y"}], [HOUR, 2 * MINUTE, {"app": "z", "title": "w"}]]
SESSION_DS = [["datastore", "A", "memory"], ["datastore", "B", "sqlite"]]


def bq(ds, shape, *bids):
    text, n = shape
    names = [bids[i % len(bids)] for i in range(n)]
    return ["query", ds, text % tuple(names), {"names": names}]


def session_corpus():
    """(stream, ops): short sessions, each on bucket ids of its own, so that a replay is the session alone."""
    k = 0
    for s1 in BUCKET_SHAPES:
        for s2 in BUCKET_SHAPES:
            k += 1
            ds = ["main", "A", "B"][k % 3]
            b = "s%d-x" % k
            q1, q2 = bq(ds, s1, b), bq(ds, s2, b)
            yield "session-history", SESSION_DS + [
                q1, q2, ["create", ds, b, SESSION_EVENTS], q1, q2, q1, ["delete", ds, b], q1, q2,
                ["create", ds, b, SESSION_EVENTS[:1]], q2, q1, ["delete", ds, b], q2, q1]
    for s1 in BUCKET_SHAPES:          # two datastores alive at once: what one has, the other has not
        for d1, d2 in (("main", "A"), ("A", "B"), ("B", "main")):
            k += 1
            b = "t%d-x" % k
            qa, qb = bq(d1, s1, b), bq(d2, s1, b)
            yield "session-two-datastores", SESSION_DS + [
                ["create", d1, b, SESSION_EVENTS], qa, qb, qa, ["create", d2, b, SESSION_EVENTS[1:]], ["delete", d1, b],
                qa, qb, ["delete", d2, b], qb, qa]
    # nothing a query assigned is there for the next one: variables, RETURN, the query window
    v = {"class": "value"}
    for ds in ("main", "A"):
        k += 1
        yield "session-namespace", SESSION_DS + [
            ["query", ds, "leak%d = [1]; RETURN = leak%d;" % (k, k), v], ["query", ds, "RETURN = leak%d;" % k, {"class": "InterpretError"}],
            ["query", ds, "RETURN = echo(leak%d);" % k, {"class": "InterpretError"}], ["query", ds, "x = 1;", {"class": "ParseError"}],
            ["query", ds, "RETURN = 1; zz = nope;", {"class": "InterpretError"}], ["query", ds, "y = 2", {"class": "ParseError"}],
            ["create", ds, "w%d-x" % k, SESSION_EVENTS],
            ["query", ds, 'STARTTIME = 5; ENDTIME = "never"; nop = 3; RETURN = 1;', v], bq(ds, BUCKET_SHAPES[0], "w%d-x" % k),
            bq(ds, BUCKET_SHAPES[1], "w%d-x" % k), ["query", ds, "RETURN = nop();", v],
            ["query", ds, 'true = "s"; RETURN = true;', v], ["query", ds, "RETURN = limit_events([1], true);", v],
            ["delete", ds, "w%d-x" % k],
            # the predefined names are the asked query's own name and period, also after a query that failed
            ["query", ds, "RETURN = echo([NAME, STARTTIME, ENDTIME], nope);", {"class": "InterpretError"}, ["n-one", -12 * HOUR, 100 * MINUTE]],
            ["query", ds, "RETURN = echo([NAME, STARTTIME, ENDTIME], 1);", v, ["n-two", 30 * MINUTE, 3 * HOUR]],
            ["query", ds, "RETURN = echo([NAME, STARTTIME, ENDTIME], 1);", v], ["query", ds, "RETURN = [NAME, STARTTIME, ENDTIME];", v, ["", 0, 1]]]
    # a bucket named by two shapes in one text while only one of two buckets exists
    for s1 in BUCKET_SHAPES:
        k += 1
        b, c = "u%d-x" % k, "u%d-y" % k
        two = BUCKET_SHAPES[-1]
        yield "session-history", SESSION_DS + [
            ["create", "A", b, SESSION_EVENTS], bq("A", s1, b), bq("A", two, b, c), ["create", "A", c, []], bq("A", two, b, c),
            ["delete", "A", b], bq("A", two, b, c), bq("A", two, c, b), bq("A", s1, b), bq("A", s1, c), ["delete", "A", c], bq("A", s1, c)]


def random_session(rng, noise, tag):
    """A seeded random walk: create / delete / bucket query (any shape, any datastore) / a query from the other
    streams (mostly failing ones) in between.  A2 is a second Datastore object over A's store, M2 one over the
    first datastore's, S / S2 (every third walk) two connections to one sqlite file: what exists is a matter of the
    STORE.  A tenth of the queries is asked under a random query period."""
    ids = ["%s-one" % tag, "%s-two" % tag, "%s-3" % tag]
    store = {"main": "main", "M2": "main", "A": "A", "A2": "A", "B": "B"}
    ops = list(SESSION_DS) + [["datastore", "A2", "memory", "A"], ["datastore", "M2", "memory", "main"]]
    names = ["main", "A", "A", "A2", "A2", "M2", "B"]
    if rng.random() < 0.34:
        store.update({"S": "S", "S2": "S"})
        ops += [["datastore", "S", "sqlite-file"], ["datastore", "S2", "sqlite-file", "S"]]
        names += ["S", "S2", "S2"]
    have = {k: set() for k in set(store.values())}
    for _ in range(rng.randrange(8, 28)):
        ds = rng.choice(names)
        b = rng.choice(ids)
        r = rng.random()
        if r < 0.25:
            if b in have[store[ds]]:
                ops.append(["delete", ds, b])
                have[store[ds]].discard(b)
            else:
                ops.append(["create", ds, b, rng.choice([SESSION_EVENTS, SESSION_EVENTS[:1], []])])
                have[store[ds]].add(b)
        elif r < 0.8:
            op = bq(ds, rng.choice(BUCKET_SHAPES), b, rng.choice(ids))
            if rng.random() < 0.1:
                op = [op[0], op[1], op[2], {}, random_window(rng)]      # inside a body the period is the body's business
            ops.append(op)
        else:
            text, want = rng.choice(noise)
            op = ["query", ds, text, {"class": want} if want else {}]
            if rng.random() < 0.2:
                op.append(random_window(rng))
            ops.append(op)
    first = {}
    for name in names:
        first.setdefault(store[name], name)
    for k in sorted(have):             # leave every store as it was found
        for b in sorted(have[k]):
            ops.append(["delete", first[k], b])
    return ops


BIG = 10001


def large_stream():
    """(ops, through the model?): inputs larger than any plausible chunk / cache / batch constant; all well
    formed -> a value.  The extracted model scans a bracketed text of n entries in time ~ n^2 (20 s at
    n = 10 001): those go to the statement oracle alone, and a 1 200-entry copy goes through the model."""
    v = {"class": "value"}
    for n, model in ((BIG, False), (1200, True)):
        ones = ", ".join(["1"] * n)
        yield [["query", "main", "RETURN = [" + ones + "];", v]], model
        yield [["query", "main", "RETURN = echo(" + ones + ");", v]], model
        yield [["query", "main", "RETURN = limit_events([" + ones + "], %d);" % (n - 1), v]], model
        yield [["query", "main", "RETURN = {" + ", ".join('"k%d": %d' % (i, i) for i in range(n)) + "};", v]], model
    yield [["query", "main", "x = 0;" + "x = [x];" * 40 + "y = 1;" * BIG + "RETURN = [x, y];", v]], True
    yield [["query", "main", 'RETURN = "' + "ab,(" * (BIG // 4 + 1) + '";', v]], True
    yield [["query", "main", "RETURN = zz" + "9" * BIG + ";", {"class": "InterpretError"}]], True
    # a bucket of 10 001 events (sqlite: the memory storage needs 23 s to take them)
    events = [[i * 1000000, 500000, {"app": "a%d" % (i % 7)}] for i in range(BIG)]
    yield SESSION_DS + [["create", "B", "big", events], bq("B", BUCKET_SHAPES[1], "big"), bq("B", BUCKET_SHAPES[0], "big"),
                        bq("B", BUCKET_SHAPES[2], "big"), ["delete", "B", "big"], bq("B", BUCKET_SHAPES[1], "big")], True


# -- interleavings, fault paths, environment, edge values --------------------------------------------------------

# Two Datastore objects over ONE store: what one of them does to a bucket, the other one's queries must see at once
# (the statement's "unknown bucket" is about the store as it is when the query runs, not about what the Datastore
# object asked has seen).  (first object, second object over the same store)
SHARED_PAIRS = [
    ([["datastore", "A", "memory"], ["datastore", "A2", "memory", "A"]], "A", "A2"),
    ([["datastore", "S", "sqlite-file"], ["datastore", "S2", "sqlite-file", "S"]], "S", "S2"),
    ([["datastore", "M2", "memory", "main"]], "main", "M2"),
]


def shared_store_corpus():
    k = 0
    for s1 in BUCKET_SHAPES:
        for dss, d1, d2 in SHARED_PAIRS:
            k += 1
            b = "v%d-x" % k
            qa, qb = bq(d1, s1, b), bq(d2, s1, b)
            ev = SESSION_EVENTS
            yield "session-shared-store", dss + [
                qa, qb,
                # created and asked through one object, deleted through the other
                ["create", d1, b, ev], qa, qb, qa, ["delete", d2, b], qa, qb,
                # re-created through the other one (other content), deleted through the first
                ["create", d2, b, ev[:1]], qa, qb, ["delete", d1, b], qb, qa,
                # created through one object that never asks about it, deleted through the other
                ["create", d1, b, []], ["delete", d2, b], qa, qb,
                ["create", d2, b, ev[1:]], ["delete", d1, b], qb, qa,
                # two ids, the objects crossing
                ["create", d1, b, ev], ["create", d2, b + "2", []], bq(d1, BUCKET_SHAPES[-1], b, b + "2"),
                bq(d2, BUCKET_SHAPES[-1], b + "2", b), ["delete", d2, b], ["delete", d1, b + "2"],
                bq(d1, s1, b + "2"), bq(d2, BUCKET_SHAPES[-1], b, b + "2"), qa]


# Query texts that are REJECTED, the reason sitting inside nested elements (what a rejected query leaves behind -
# counters, locks, caches, half-built state - must not reach the next query).  Every placement below is a parse error
# on the grammar's own terms; the interpret / function errors are the statement's classes.
REJECT_OUTER = ['[1, %s]', 'echo(%s, 2)', '{"k": %s}', '[[%s]]', 'echo([{"a": %s}])']
REJECT_INNER = ['[2, %s]', 'echo(%s)', '{"a": %s}', '[%s, 2]', 'echo(1, %s)']
REJECT_PARSE = [')', '}', ':', '=', '\\', 'echo(1 2)', '{"a" 1}', '{1: 2}', '"abc', ',', '[1,, 2]', '{"a": }', 'echo(,)']
REJECT_OTHER = [('zzz', "InterpretError"), ('nop(1)', "InterpretError"), ('no_such_function()', "InterpretError"),
                ('concat("s", [])', "FunctionError"), ('query_bucket("no-such-bucket")', "FunctionError"),
                ('limit_events([], "s")', "FunctionError")]


def rejection_block(n, offset=0):
    """n distinct rejected texts (query ops on the first datastore) with the class the statement names."""
    cores = [(c, "ParseError") for c in REJECT_PARSE] * 2 + REJECT_OTHER
    out = []
    for i in range(offset, offset + n):
        core, want = cores[i % len(cores)]
        w, inner = REJECT_OUTER[(i // 3) % len(REJECT_OUTER)], REJECT_INNER[(i // 7) % len(REJECT_INNER)]
        nested = w % (inner % core)
        if i % 4 == 3:
            nested = w % (inner % nested)           # one level deeper
        text = ["RETURN = %s;", "x = 1; RETURN = %s;", "y = %s; RETURN = y;"][i % 3] % nested
        out.append(["query", "main", text, {"class": want}])
    return out


AFTER_REJECTIONS = [
    ("RETURN = [1, [2, [3]]];", "value"), ('RETURN = echo([1], {"a": [2, {"b": []}]});', "value"), ("RETURN = nop();", "value"),
    ('x = {"k": [1, "s"]}; RETURN = echo(x, [x]);', "value"), ("RETURN = limit_events([1, [2], 3], 2);", "value"),
    ("RETURN = [zzz];", "InterpretError"), ("RETURN = [nop(1)];", "InterpretError"), ("RETURN = [concat(1, 2)];", "FunctionError"),
    ('RETURN = {"k": [query_bucket("no-such-bucket")]};', "FunctionError"), ("RETURN = [1, }];", "ParseError"), ("RETURN = 1;", "value"),
]


def rejections_corpus():
    """Long runs of rejected queries, then texts of every class - three times over, the runs differing."""
    ops = []
    for burst in range(3):
        ops.append(["repeat", 8, rejection_block(40, 40 * burst)])
        ops += [["query", "main", t, {"class": w}] for t, w in AFTER_REJECTIONS]
    yield "session-after-rejections", ops


# The query period is an argument of aw_query.query like the text; every pair of datetime values is a legal one.
WINDOWS = [
    ["0001-01-01T00:00:00", "9999-12-31T23:59:59.999999"],                  # naive datetime.min / datetime.max
    ["0001-01-01T12:00:00", "9999-12-31T06:00:00"],                          # naive, within a day of either end
    ["0001-01-01T00:00:00+00:00", "9999-12-31T23:59:59.999999+00:00"],      # the same, aware
    ["0001-01-01T00:00:00+02:00", "9999-12-31T23:59:00-05:00"],              # aware; the UTC equivalents leave year 1..9999
    ["0001-01-01T00:00:00+23:59", "9999-12-31T23:59:59.999999-23:59"],
    ["0001-01-01T00:00:00-12:00", "9999-12-31T23:59:59+14:00"],              # aware; the UTC equivalents stay inside
    ["2020-01-01T00:00:00", "2020-01-02T00:00:00"],                          # naive, ordinary
    ["2020-03-29T02:30:00", "2020-10-25T02:30:00"],                          # naive: in the DST gap / fold of the checks' zone
    ["2020-01-01T00:00:00+05:30", "2020-01-02T00:00:00-03:30"],
    ["2020-01-01T00:00:00.000001+00:00:01", "2020-01-02T00:00:00+01:02:03.5"],    # offsets with seconds
    ["2020-01-02T00:00:00+00:00", "2020-01-01T00:00:00+00:00"],              # the end before the start
    ["1970-01-01T00:00:00+00:00", "1969-12-31T23:59:59.999999+00:00"],
    ["1900-01-01T00:00:00", "2038-01-19T03:14:08"],                          # outside a 32-bit time_t
    ["2262-04-11T23:47:16.854776+00:00", "2262-04-11T23:47:16.854776+00:00"],     # start = end; beyond int64 nanoseconds
    ["2020-01-01T00:00:00", "2020-01-02T00:00:00+00:00"],                    # one edge naive, the other aware
    ["2020-01-01T00:00:00-08:00", "2020-01-02T00:00:00"],
]
# a text of every class + what shows the period to the query (compared with the model: STARTTIME / ENDTIME are the
# isoformat() of the values handed in)
WINDOW_TEXTS = [
    ("RETURN = [NAME, STARTTIME, ENDTIME];", "value"), ("RETURN = echo(STARTTIME, [ENDTIME]);", "value"), ("RETURN = 1;", "value"),
    ('x = [1, "s"]; RETURN = echo(x, nop(), {"k": x});', "value"), ("RETURN = limit_events([1, 2, 3], 2);", "value"),
    ("a=", "ParseError"), ("RETURN", "ParseError"), ('RETURN = "abc', "ParseError"), ("RETURN = [1, }];", "ParseError"), ("x = 1;", "ParseError"),
    ("RETURN = zzz;", "InterpretError"), ("RETURN = zzz();", "InterpretError"), ("RETURN = nop(1);", "InterpretError"),
    ("RETURN = concat([]);", "InterpretError"), ("RETURN = sort_by_duration(1);", "FunctionError"), ('RETURN = concat("s", []);', "FunctionError"),
    ('RETURN = query_bucket("nope");', "FunctionError"), ('RETURN = query_bucket_eventcount("nope");', "FunctionError"),
    ('RETURN = find_bucket("no-such-fragment");', "FunctionError"), ('RETURN = find_bucket("b");', "value"),
    # inside a body the period is that body's business (the statement excuses what is raised there): outcome family only
    ('RETURN = query_bucket("b1");', None), ('RETURN = query_bucket_eventcount("b1");', None),
]


def window_corpus():
    for i, w in enumerate(WINDOWS):
        for j, (text, want) in enumerate(WINDOW_TEXTS):
            name = ["q-name", "", "n\u00e9", "a;b = (c"][(i + j) % 4]
            yield "window", [["query", "main", text, {"class": want} if want else {}, [name] + w]]


def random_window(rng):
    def edge():
        r = rng.random()
        if r < 0.25:
            return rng.choice(rng.choice(WINDOWS))
        y = rng.choice([1, 1, 2, 1969, 1970, 2020, 2038, 9998, 9999, 9999, rng.randrange(1, 10000)])
        t = "%04d-%02d-%02dT%02d:%02d:%02d" % (y, rng.choice([1, 12, rng.randrange(1, 13)]), rng.choice([1, 28, rng.randrange(1, 29)]),
                                                rng.randrange(24), rng.randrange(60), rng.randrange(60))
        if rng.random() < 0.4:
            t += ".%06d" % rng.randrange(10 ** 6)
        if rng.random() < 0.6:
            t += rng.choice(["+00:00", "+02:00", "-05:00", "+14:00", "-12:00", "+23:59", "-23:59", "+05:45", "-00:01"])
        return t
    return [rng.choice(["q-name", "n2", ""]), edge(), edge()]


# Process-level settings a host application may have made (harness/c17_impl.py `environment`).
RECURSION_LIMIT = 400
ENVS = [
    {"logging": "DEBUG"}, {"logging": "INFO"}, {"recursionlimit": RECURSION_LIMIT}, {"warnings": "DeprecationWarning"},
    {"warnings": "Warning"}, {"tz": "UTC0"}, {"tz": "<+14>-14"}, {"tz": "EST5EDT,M3.2.0,M11.1.0"}, {"int_digits": 640}, {"int_digits": 0},
    {"logging": "DEBUG", "warnings": "Warning", "recursionlimit": RECURSION_LIMIT, "tz": "<-12>12"},
]


# nesting far above what the other streams write, still far below what any of the settings forbids
DEEP_TEXTS = [("RETURN = " + "[" * 40 + "1" + "]" * 40 + ";", "value"), ("RETURN = " + "echo(" * 40 + "nop()" + ")" * 40 + ";", "value"),
              ("RETURN = " + '{"k": [echo(' * 13 + "zzz" + ")]}" * 13 + ";", "InterpretError"),
              ("x = " + "[" * 25 + '"s"' + "]" * 25 + "; RETURN = " + "echo([" * 12 + "x, concat(x, 1)" + "])" * 12 + ";", "FunctionError")]


def env_corpus(impl, stride):
    """Texts of every class under every setting: all seed programs, every stride-th text of the class stream (the
    settings in rotation), and what the int-digit limit decides."""
    for e in ENVS:
        for t in SEEDS:         # well-formed programs: values, but for the one that names a bucket that does not exist
            yield "environment", [["query", "main", t, {"class": "FunctionError" if '"nope"' in t else "value"}, None, {"env": e}]]
        for t, want in AFTER_REJECTIONS + WINDOW_TEXTS[:20] + DEEP_TEXTS:
            yield "environment", [["query", "main", t, {"class": want}, None, {"env": e}]]
    for i, (cat, t, want) in enumerate(class_stream(impl)):
        if i % stride == 0:
            yield "environment", [["query", "main", t, {"class": want}, None, {"env": ENVS[(i // stride) % len(ENVS)]}]]
    for digits, lim in ((641, 640), (640, 640), (5000, 0), (4301, 0)):
        want = "value" if lim == 0 or digits <= lim else "ParseError"
        for form in ("RETURN=%s", "RETURN=[1, %s]", "x=%s;RETURN=1"):
            yield "environment", [["query", "main", form % ("7" * digits), {"class": want}, None, {"env": {"int_digits": lim}}]]


def with_options(ops, n, rng=None):
    """Part of the queries of every session run on worker threads that stay alive between their queries (a server's
    pool), part of them under another process-level setting: query j of session n on worker w1 when (j + n) % 3 = 1,
    on w2 when (j + n) % 7 = 3; settings every 5th query in rotation.  Queries against a sqlite store stay on the
    main thread (sqlite3 connections refuse other threads); ops that carry options already are left alone."""
    sqlite = {op[1] for op in ops if op[0] == "datastore" and op[2].startswith("sqlite")}
    out, j = [], 0
    for op in ops:
        if op[0] == "query" and len(op) <= 5:
            j += 1
            opts = {}
            if op[1] not in sqlite:
                if (j + n) % 3 == 1:
                    opts["thread"] = "w1"
                elif (j + n) % 7 == 3:
                    opts["thread"] = "w2"
            if (j + 2 * n) % 5 == 0:
                opts["env"] = ENVS[(j + n) % len(ENVS)] if rng is None else rng.choice(ENVS)
            if opts:
                op = op[:4] + [op[4] if len(op) > 4 else None, opts]
        out.append(op)
    return out


FAMILY = ("ParseError", "InterpretError", "FunctionError")


def oracle(impl, r):
    """The property statement on the implementation's own outcome; None when it holds."""
    kind, payload = r["outcome"]
    if kind == "value":
        return None
    if kind == "timeout":
        return "timeout", "does not terminate within the time limit"
    if kind == "recursion":
        return "recursion", "RecursionError escapes"
    if payload in FAMILY:
        return None
    if impl.in_body(r["exc"]):
        return None
    return "escape:" + payload, f"{type(r['exc']).__name__} escapes from parsing / name, arity or type resolution"


def report_harness_state(ck, impl):
    """What of the tie the harness could NOT establish on this tree (shared with the C11 check): differences
    between the frozen registry and the tree's, and - when no body recorder could be spliced into the registered
    built-ins - the black-box mode.  Each is a broken tie with a replay entry; the search for failing inputs goes on."""
    if impl.echo_direct:
        ck.disagreement("registry", "a variadic function registered through the public decorator q2_function() is not callable "
                        f"as (*args) any more ({impl.echo_direct}); the harness's own built-in `echo` was put into the registry "
                        "directly so that the streams keep testing the tree's built-ins",
                        {"registry": "q2_function()(q2_echo)", "observed": impl.echo_direct, "probe": impl.echo_probe})
    if impl.blackbox:
        mode = ("BLACK-BOX mode for every stream of this run: the built-ins' interface is taken from the frozen registry, every "
                "text goes through aw_query.query2.query only and is judged by the statement oracle, the by-construction "
                "expectation of its stream"
                + (", the reference evaluator harness/c11_ref.py (value equality)" if ck.prop == "C11" else "")
                + " and by the extracted model wherever the model asks for no recorded body outcome (texts on which it does "
                "are counted under input_distribution 'black-box:...' and not compared with the model)")
        ck.disagreement("registry-recorder", "the harness cannot splice its body recorder into the registered built-ins, so the "
                        "model's body-oracle replay is not established on this tree: " + impl.blackbox,
                        {"no_longer_checks": "recording of the built-in bodies' calls and outcomes (the model's oracle script) "
                                             "below the registered wrappers of aw_query.functions.functions",
                         "reason": impl.blackbox, "per_built_in": impl.unspliced, "mode": mode,
                         "how_the_harness_finds_the_bodies": "harness/c17_impl.py Impl._locate: __wrapped__ chain + the one closure "
                                                             "cell / attribute of each wrapper holding what it wraps"})
        ck.coverage["black_box_mode"] = {"reason": impl.blackbox, "built_ins_not_followed": impl.unspliced, "mode": mode}
        ck.assumptions.append("BLACK-BOX mode (see coverage.black_box_mode): no body calls were recorded on this tree")
    for d in impl.registry_diffs:       # the tree's interface is not the frozen one: a broken tie by itself
        ck.disagreement("registry", d, {"registry": d, "snapshot": impl.snapshot_path,
                                        "see": "tools/c17_registry.py (when the interface legitimately changes)"})


def report_blackbox_streams(ck, impl, compared, skipped):
    if impl.blackbox:
        ck.coverage["black_box_mode"].update({
            "streams_run_in_black_box_mode": sorted(set(compared) | set(skipped)),
            "texts_compared_with_the_model_without_a_body_record": dict(sorted(compared.items())),
            "texts_not_compared_with_the_model_because_it_asks_for_a_recorded_body_outcome": dict(sorted(skipped.items()))})


def main(argv=None):
    ck = Check("C17", argv)
    try:
        rc = run_check(ck)
    except HarnessBroken as e:
        # the harness itself cannot work on this tree (unreadable specification, ...): a broken tie with a replay
        # file that names what no longer checks, like every other one
        ck.disagreement("harness", f"the harness cannot establish the tie on this tree: {e}", {"harness": str(e)})
        rc = ck.finish(RULE)
    leave(rc)
    return rc


HUNG = []       # worker threads that never came back from a query (shared with the C11 check)


def leave(rc):
    """A worker thread stuck in a query (and whatever it holds) must not keep the check's process alive: with one
    around, the process ends here, verdict printed and evidence written."""
    if HUNG:
        sys.stdout.flush()
        sys.stderr.flush()
        import os
        os._exit(rc)


def run_check(ck):
    common.setup_impl_env()
    impl = Impl()
    ck.run_witnesses(["w14", "w17"])
    ck.prove(extra_targets=["Bridge/BridgeQuery.v", "Bridge/BridgeQueryInterp.v"],
             gen_kernels=["query_header", "QString.check", "QInteger.check", "QFunction.check", "QDict.check",
                          "QList.check", "QVariable.check", "qtypes", "_parse_token", "parse_methods", "parse",
                          "create_namespace", "get_return", "_verify_variable_is_type", "q2_typecheck",
                          "q2_function", "query_footer",                         # tie B: translate/k_query.py
                          "interp_header", "registry_sites", "interpret_methods", "interpret_stmt", "query_run",
                          "interp_footer"])                  # tie B, interpreter side: translate/k_query_interp.py
    have_driver = ck.driver()

    quick = ck.tier == "quick"
    names = [n for n, _, _ in impl.table]
    cases = []            # (stream, text, expected class or None)
    for s in SEEDS:
        cases.append(("seed", s, None))
        for kind, t in corruptions(s, 3 if quick else 1):
            cases.append(("corrupt-" + kind, t, None))
    for cat, t, want in class_stream(impl):
        cases.append(("class-" + cat, t, want))
    cases += list(repaired_stream(impl))
    for t in non_ascii_stream(ck.rng, 300 if quick else 20000):
        assert all(not c.isdigit() and not c.isalpha() and not c.isspace() for c in t if ord(c) > 127)
        cases.append(("non-ascii", t, None))
    for _ in range(6000 if quick else 400000):
        cases.append(("random", random_text(ck.rng, names), None))
    for q, body, ctx in escape_stream(quick):
        lit = q + body + q
        want = literal_expectation(q, body)
        if want and ctx.startswith("RETURN = nop("):
            want = "InterpretError"
        cases.append(("string-escape", ctx.replace("%s", lit), want))
    for _ in range(2000 if quick else 150000):
        text, want = random_literal_text(ck.rng)
        cases.append(("random-literal", text, want))
    for q, body, ctx in special_stream():
        want = literal_expectation(q, body)
        if want and ctx.startswith("RETURN = nop("):
            want = "InterpretError"
        cases.append(("string-special", ctx.replace("%s", q + body + q), want))

    wire, expect = [], []
    seen = set()
    lenient = {}
    first_outcome = {}
    report_harness_state(ck, impl)
    bb_compared, bb_skipped = {}, {}

    def process(stream, text, want, r, buckets=None, session=None):
        """One answered query: the statement as an oracle on the implementation's own outcome, the
        by-construction expectation, and the case for the model (pure: text + bucket ids existing now)."""
        ck.count("stream:" + stream)
        kind, payload = r["outcome"]
        outcome_key = "value" if kind == "value" else (payload if kind == "error" else kind)
        ck.count("outcome:" + str(outcome_key))
        ck.note_case(text if session is None else [text, len(session), session[-1][4:]], nontrivial=any(c in text for c in "([{\"'"))
        if r.get("thread"):
            ck.count("thread:" + r["thread"])
        if session is not None and len(session[-1]) > 5 and (session[-1][5] or {}).get("env"):
            ck.count("env:" + ",".join(sorted(session[-1][5]["env"])))
        short = text if len(text) < 300 else text[:140] + f" ...({len(text)} characters)... " + text[-60:]
        replay = {"query": text, "observed": outcome_key, "stream": stream,
                  "call": "aw_query.query2.query('q-name', query, 2020-01-01Z, 2020-01-02Z, Datastore(MemoryStorage))"}
        if session is not None:
            last = session[-1]
            if len(last) > 4 and last[4]:
                replay["call"] = f"aw_query.query2.query({last[4][0]!r}, query, {r['ctx'][1]}, {r['ctx'][2]}, datastore)"
            if len(last) > 5 and last[5]:
                replay["options"] = last[5]
            replay.update({"session": session, "buckets_existing": buckets,
                           "call": "the ops of `session` in order in ONE process, see harness/c17_session.py",
                           "rerun": "save this file's replay.session as {\"ops\": [...]} and run "
                                    "/venv/bin/python -m harness.c17_session <file> (exit 1 = the last query misses its expectation)"})
        bad = oracle(impl, r)
        failed = None
        if bad:
            failed = ("C17:" + bad[0], f"{short!r}: {bad[1]}")
        elif want is not None and outcome_key != want:
            replay["expected"] = want
            failed = ("C17:class:" + stream, f"{short!r}: statement says {want}, implementation gives {outcome_key}"
                      + (f" (query {sum(1 for o in session if o[0] == 'query')} of a session; bucket ids existing: {buckets})"
                         if session is not None else ""))
        if failed:
            if session is not None and not minimised and not ck.violations:
                minimised.append(1)      # once per run: drop the ops the failure does not need (fresh processes)
                small, confirmed = minimise(session)
                replay["session"], replay["session_reproduces_in_a_fresh_process"] = small, confirmed
            ck.failing_input(failed[0], failed[1], replay)
        if kind == "value" and stream.startswith("corrupt") and len(lenient.setdefault(stream, [])) < 4:
            lenient[stream].append(text)
        if stream.startswith("corrupt") and kind == "error" and len(text) % 7 == 0:
            ck.sample({"query": text, "impl": outcome_key})
        try:
            case, log, wantw = impl.model_case(text, r, buckets)
        except Unsupported as e:
            ck.count("outside-model:" + str(e)[:40])
            return outcome_key
        except HarnessBroken as e:          # the recorded calls contradict the modelled plumbing
            ck.disagreement("query", f"{short!r}: {e}", dict(replay, harness=str(e)))
            return outcome_key
        wire.append(case)
        expect.append((stream, short, log, wantw, replay))
        return outcome_key

    minimised = []
    for stream, text, want in cases:
        if text in seen:
            continue
        seen.add(text)
        first_outcome[text] = (process(stream, text, want, impl.run(text)), want)

    # sessions: the same process, the same Datastore objects, histories between the queries
    nsessions = [0]

    def run_session(stream, ops, through_model=True, options=True):
        nsessions[0] += 1
        if options:
            ops = with_options(ops, nsessions[0])
        sess = Session(impl)
        for op, upto in unroll(ops):
            try:
                out = sess.apply(op)
            except Exception as e:      # the datastore layer itself refuses a create / delete: not this property's claim,
                ck.disagreement("session", f"op {op[:3]!r} of a session raised {type(e).__name__}: {e}",      # but no tie either
                                {"session": upto, "stream": stream})
                return
            if out is None:
                ck.count("session-op:" + op[0])
                continue
            r, ds, have, want = out
            if want is not None and want[0] != "class":
                raise HarnessBroken("C17 sessions carry outcome classes only")
            if through_model:
                process(stream, op[2], want[1] if want else None, r, have, upto)
            else:                       # too long for the extracted model's quadratic text handling: oracle only
                n0 = len(wire)
                process(stream, op[2], want[1] if want else None, r, have, upto)
                del wire[n0:], expect[n0:]
                ck.count("outside-model:longer than the driver is asked to scan")
        HUNG[:] = impl.hung

    noise = [(t, w) for st, t, w in cases if st.startswith("class-") or st == "seed"]
    for stream, ops in session_corpus():
        run_session(stream, ops)
    for stream, ops in shared_store_corpus():
        run_session(stream, ops)
    for stream, ops in rejections_corpus():
        run_session(stream, ops)
    for stream, ops in window_corpus():
        run_session(stream, ops, options=False)
    for stream, ops in env_corpus(impl, 4 if quick else 1):
        run_session(stream, ops, options=False)
    for i in range(30 if quick else 1500):
        run_session("session-random", random_session(ck.rng, noise, "r%d" % i))
    texts = sorted(first_outcome)
    for text in texts[::37]:            # asked a second time, much later: the first answer's class again
        out, want = first_outcome[text]
        run_session("session-asked-again", [["query", "main", text, {"class": want or out} if out in FAMILY + ("value",) else {}]])
    for ops, through_model in large_stream():
        run_session("large", ops, through_model, options=False)
    ck.coverage["worker_threads_that_never_came_back"] = list(impl.hung)
    if impl.buckets_of(impl.ds) != impl.buckets or sorted(impl.ds.buckets()) != impl.buckets:
        ck.disagreement("session", "the sessions did not leave the first datastore as they found it: "
                        f"{sorted(impl.ds.buckets())} / {impl.buckets}", {"buckets": sorted(impl.ds.buckets())})

    if have_driver and wire:
        model = common.run_driver("C17", wire)
        for (stream, text, log, wantw, replay), mo in zip(expect, model):
            if mo == [-999] or mo == [-998] or len(mo) != 3:
                ck.disagreement("query", f"driver rejected the case for {text!r}", dict(replay, model=mo))
                continue
            out, mlog, exh = mo
            if log is None:                 # black-box mode: no body record
                if blackbox_skip(log, mo):
                    ck.count("black-box:not compared with the model (it asks for a recorded body outcome)")
                    bb_skipped[stream] = bb_skipped.get(stream, 0) + 1
                    continue
                ck.count("black-box:compared with the model (no body outcome needed)")
                bb_compared[stream] = bb_compared.get(stream, 0) + 1
                log = []
            if out != wantw or mlog != log or exh != 0:
                what = (f"{text!r}: model {show_outcome(out)} / implementation {show_outcome(wantw)}"
                        if out != wantw else f"{text!r}: built-in body calls differ")
                if "session" in replay:
                    what += f" (in a session; bucket ids existing: {replay['buckets_existing']})"
                ck.disagreement("query", what, dict(replay, model_outcome=show_outcome(out), impl_outcome=show_outcome(wantw),
                                                    model_calls=mlog, impl_calls=log, script_exhausted=exh))

    report_blackbox_streams(ck, impl, bb_compared, bb_skipped)
    ck.coverage["lenient_acceptance_examples"] = lenient
    ck.coverage["registry_specification"] = {"snapshot": impl.snapshot_path, "differences_from_the_tree": impl.registry_diffs,
                                             "live_only_functions_taken_from_the_tree": impl.live_only}
    ck.coverage["registry"] = {n: {"kinds": k, "body": b, "declared": [show_decl(d) for d in impl.decl[n]]}
                               for n, k, b in impl.table}
    # declared types that no expectation is derived from (parameters with a default: the decorator's
    # own condition excludes them) and declared classes beyond the model's four
    ck.coverage["declared_not_checked"] = sorted(
        f"{n}: parameter {i} {show_decl(d)}" for n, _, _ in impl.table for i, d in enumerate(impl.decl[n])
        if d[0] == "default" and d[1] == "cls")
    ck.coverage["declared_outside_model"] = sorted(
        f"{n}: parameter {i} {show_decl(d)}" for n, k, _ in impl.table for i, d in enumerate(impl.decl[n])
        if k[i] == 6 and d[0] != "any")
    ck.assumptions += [
        "built-in bodies are an oracle: the model is replayed against the outcomes recorded from the implementation's "
        "own body calls, and must make the same calls with the same arguments in the same order",
        "outside ASCII only characters that are neither decimal digits, letters nor white space are generated "
        "(str.isdigit/isalpha/strip are modelled on ASCII; every other code point is opaque)",
        f"int() refuses more than sys.get_int_max_str_digits() = {impl.max_digits} digits (model parameter max_digits, "
        "shipped with every case); literals of 19..max_digits digits are not sent through the driver (63-bit text glue)",
        "CPython's recursion limit is not modelled (nesting depth of generated texts stays far below it)",
        "a parameter's declared type is its annotation in normal form (string annotations evaluated, Optional / "
        "NewType / Annotated unwrapped, typing generics replaced by their origin class); declared list, str, int, "
        "float without a default are the type-checked parameters of the model and of the wrong-type stream; any "
        "other declared class without a default is demanded by the wrong-type stream only (outside the model); a "
        "parameter with a default is not considered checked (coverage: declared_not_checked)",
        "the built-ins' interface (parameters, declared classes, defaults) is the frozen registry "
        "corpus/c17_registry.json (tools/c17_registry.py), not the signatures of the tree under test; a built-in "
        "that exists only in the tree (the harness's echo) is read off the tree",
        "sessions: which buckets exist is tracked by the harness from its own create/delete ops; the model sees one "
        "query and that list, nothing of the history; the 10 001-element texts go to the statement oracle only",
    ]
    return ck.finish(RULE)


if __name__ == "__main__":
    sys.exit(main())
