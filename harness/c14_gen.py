"""Helpers shared by harness/c14.py and harness/c14_child.py (no aw-core import here).

* `expand_events(spec)`: deterministic expansion of a compact description of a LARGE legacy bucket
  (op `["insert_gen", bucket, spec]`), so that cases with tens of thousands of events stay small in
  replay files and can be shrunk by size.  The buckets are *dense everywhere*: whichever way a copy
  loop cuts the bucket into several reads (by count, by instant, by day ..), the cut falls beside
  events that share its instant, touch it (end == next start), reach across it, or are zero-length.
* fingerprints / listings of the data directory."""
import hashlib
import os
import random

BASE = 1_600_000_000_000_000      # = harness.evutil.BASE (2020-09-13T12:26:40Z), ms-aligned
SEC = 1_000_000
HOUR = 3600 * SEC
DAY = 24 * HOUR

GEN_DATA = ([{"app": f"a{j}", "n": j} for j in range(31)] +
            [{}, {"u": "ünï中😀"}, {"nested": {"l": [1, [2, 3], {"k": None}]}}, {"title": "q'uote\"s \\ and\nnewline"},
             {"n": 1}, {"n": 1.0}, {"status": "afk"}, {"status": "not-afk"},
             # round 5 (fix6-data): titles cut in the middle of an emoji (lone high / lone low surrogate), NUL, U+2028, astral
             {"app": "chat", "title": "Team chat \ud83d"}, {"app": "chat", "title": "\ude00 rest of a title"},
             {"title": "nul\u0000inside", "sep": "line\u2028sep", "astral": "x\U00010000y\U0010ffff"}])
GEN_TZ = [0, 0, 0, 0, 120, -300, 330]


def _dense(rng, n, g, off):
    """slots on a grid of g us; 1-3 events per slot (ties), durations around g (touching, overlapping by 1 us,
    1 us short, long, zero), occasional empty slots, and a few events that reach over a large part of the bucket"""
    out = []
    slot = 0
    durs = [0, g, g, g, g + 1, g - 1, g // 2, 2 * g + SEC // 2, 3 * g, 1, 1001, 997 * g]
    while len(out) < n:
        ts = BASE + off + slot * g
        k = rng.choice([1, 1, 1, 2, 2, 3])
        same = rng.random() < 0.3          # a group of fully identical events (same instant, duration and data)
        first = None
        for _ in range(min(k, n - len(out))):
            e = [ts, rng.choice(durs), rng.choice(GEN_DATA), rng.choice(GEN_TZ)]
            if same and first is not None:
                e = list(first)
            first = first or e
            out.append(e)
        slot += rng.choice([1, 1, 1, 1, 1, 2, 5])
    if out:                                 # the oldest event reaches over the whole bucket
        out[0] = [out[0][0], slot * g + g, {"status": "not-afk", "long": True}, 0]
    return out


def _wide(rng, n, g, off):
    """n events spread evenly around BASE with step g (hours), durations from minutes to weeks: events that
    cross midnight, month and year boundaries and reach over many of their successors"""
    out = []
    durs = [0, HOUR, g, g, g + SEC, g - SEC, 30 * HOUR, 3 * DAY, 45 * DAY, 1, 25 * HOUR]
    for k in range(n):
        ts = BASE - 200 * DAY + off + k * g
        out.append([ts, rng.choice(durs), rng.choice(GEN_DATA), rng.choice(GEN_TZ)])
        if rng.random() < 0.15 and len(out) < n:
            out.append([ts, rng.choice(durs), rng.choice(GEN_DATA), 0])
    return out[:n]


def expand_events(spec):
    """spec = {"kind": "dense"|"wide", "n", "seed", "step_ms", "off_ms", "order": "asc"|"desc"|"shuffle"|"blocks"}
    -> [[ts_us, dur_us, data, tz_minutes] ..] in insertion order.  Pure function of spec."""
    rng = random.Random(int(spec.get("seed", 0)))         # the first n events do not depend on n (shrinking by size)
    n = int(spec["n"])
    g = int(spec.get("step_ms", 1000)) * 1000
    off = int(spec.get("off_ms", 0)) * 1000
    evs = (_wide if spec.get("kind") == "wide" else _dense)(rng, n, g, off)
    order = spec.get("order", "asc")
    rng = random.Random(int(spec.get("seed", 0)) + 1)
    if order == "desc":
        evs.reverse()
    elif order == "shuffle":
        rng.shuffle(evs)
    elif order == "blocks":                 # runs of ascending rows, the runs themselves shuffled
        size = max(1, n // 17)
        blocks = [evs[i:i + size] for i in range(0, len(evs), size)]
        rng.shuffle(blocks)
        evs = [e for b in blocks for e in b]
    return evs


def spec_events(op):
    """number of events an op contributes (for size thresholds)"""
    if op[0] == "insert_gen":
        return int(op[2]["n"])
    if op[0] == "insert_many":
        return len(op[2])
    return 1 if op[0] == "insert" else 0


# ---------------------------------------------------------------------------
# the data directory


def data_dir(xdg):
    return os.path.join(xdg, "xdg_data_home", "activitywatch", "aw-server")


def fingerprint(path):
    b = open(path, "rb").read()
    st = os.stat(path)
    return {"sha256": hashlib.sha256(b).hexdigest(), "size": len(b), "mtime_ns": st.st_mtime_ns}


def legacy_prints(xdg, listdir=os.listdir):
    d = data_dir(xdg)
    out = {}
    if os.path.isdir(d):
        for f in sorted(listdir(d)):
            if f.startswith("peewee") and os.path.isfile(os.path.join(d, f)):
                out[f] = fingerprint(os.path.join(d, f))
    return out


def listing(xdg, listdir=os.listdir):
    d = data_dir(xdg)
    return sorted(listdir(d)) if os.path.isdir(d) else []


# ---------------------------------------------------------------------------
# round 5: legal legacy content that today's writer never produces
#
# The legacy files of a case are written through today's PeeweeStorage API, so every row has the shape today's
# code writes (datastr = json.dumps(..) text, `created` as handed in, timestamps as isoformat(" ") .., rollback
# journal, 4 KiB pages, exactly peewee's tables and indexes).  `apply_raw(path, steps)` rewrites the finished file
# with plain sqlite3 into OTHER REPRESENTATIONS OF THE SAME CONTENT that the legacy schema and the legacy reader
# admit (earlier releases, other sqlite versions, other tools that touched the file).  Every step leaves the
# content as read by `raw_content` (the harness's own reading of the legacy schema) unchanged -- apply_raw checks
# that -- so the oracle's expected side stays the dump taken through the API before the rewrite.

ORDER_KEEPING = {"bucket_empty_data", "bucket_json", "event_json", "created", "journal", "page_size", "auto_vacuum",
                 "user_version", "application_id", "extra_table", "extra_column", "churn", "id_shift", "key_shift",
                 "ts_T", "ts_frac6", "schema_cookie", "orphans", "rebuild"}
# steps after which peewee's textual ORDER BY timestamp / its tie order may differ from the model's (the model is
# built from the API ops): such cases are judged by the property oracle alone
ORDER_CHANGING = {"ts_mixed_T", "ts_Z", "ts_offset", "id_reverse", "extra_index"}
# steps that take the file to an OLDER schema which PeeweeStorage.__init__ upgrades in place by itself (bytes change
# on the unchanged tree; the clause is read at content level for them, like the pre-datastr file)
OLDER_SCHEMA = {"drop_index"}

# The legacy format as released (peewee v2 file of aw-core: PeeweeStorage's create_table output, sqlite defaults).  The
# format is frozen by nature; step ["rebuild"] writes the rows found into a NEW file with exactly these statements, so
# that the legacy file of a case does not depend on what the PeeweeStorage under test does when it creates / opens a
# file (schema objects, pragmas, journal mode ..): a legacy file as an installation of the released code holds it.
RELEASED_DDL = [
    'CREATE TABLE "bucketmodel" ("key" INTEGER NOT NULL PRIMARY KEY, "id" VARCHAR(255) NOT NULL, "created" DATETIME NOT NULL, '
    '"name" VARCHAR(255), "type" VARCHAR(255) NOT NULL, "client" VARCHAR(255) NOT NULL, "hostname" VARCHAR(255) NOT NULL, '
    '"datastr" VARCHAR(255))',
    'CREATE UNIQUE INDEX "bucketmodel_id" ON "bucketmodel" ("id")',
    'CREATE TABLE "eventmodel" ("id" INTEGER NOT NULL PRIMARY KEY, "bucket_id" INTEGER NOT NULL, "timestamp" DATETIME NOT NULL, '
    '"duration" DECIMAL(10, 5) NOT NULL, "datastr" VARCHAR(255) NOT NULL, FOREIGN KEY ("bucket_id") REFERENCES "bucketmodel" ("key"))',
    'CREATE INDEX "eventmodel_bucket_id" ON "eventmodel" ("bucket_id")',
    'CREATE INDEX "eventmodel_timestamp" ON "eventmodel" ("timestamp")',
]

JSON_STYLES = ["compact", "utf8", "spaced", "reversed", "indent", "padded"]
EMPTY_FORMS = {"null": None, "empty": "", "braces": "{}", "spaced": "{ }", "padded": " {}\n"}
CREATED_FORMS = ["T-utc", "space-utc", "Z", "naive-T", "offset", "neg-offset-space", "frac6", "basic-offset", "hour-offset"]


def raw_order_keeping(steps):
    return not any(s[0] in ORDER_CHANGING for s in steps or [])


def raw_older_schema(steps):
    return any(s[0] in OLDER_SCHEMA for s in steps or [])


def _reverse_keys(v):
    if isinstance(v, dict):
        return {k: _reverse_keys(x) for k, x in reversed(list(v.items()))}
    if isinstance(v, list):
        return [_reverse_keys(x) for x in v]
    return v


def restyle_json(text, style):
    """another JSON text of the same value"""
    import json
    v = json.loads(text)
    if style == "compact":
        return json.dumps(v, separators=(",", ":"))
    if style == "utf8":
        raw = json.dumps(v, ensure_ascii=False)
        try:
            raw.encode("utf-8")
        except UnicodeEncodeError:     # a lone surrogate has no UTF-8 form: such a text exists only with that escape
            raw = "".join(ch if not 0xD800 <= ord(ch) <= 0xDFFF else "\\u%04x" % ord(ch) for ch in raw)
        return raw
    if style == "spaced":
        return json.dumps(v, separators=(" , ", " : "))
    if style == "reversed":
        return json.dumps(_reverse_keys(v))
    if style == "indent":
        return json.dumps(v, indent=2, sort_keys=True)
    if style == "padded":
        return " \t" + json.dumps(v) + "\r\n"
    raise ValueError(style)


def _parse_instant(text):
    """-> aware datetime; a text without offset denotes UTC (as iso8601.parse_date reads it)"""
    from datetime import datetime, timezone
    d = text if isinstance(text, datetime) else datetime.fromisoformat(str(text).replace("Z", "+00:00"))
    return d.replace(tzinfo=timezone.utc) if d.tzinfo is None else d


def _us(text):
    from datetime import datetime, timedelta, timezone
    return (_parse_instant(text) - datetime(1970, 1, 1, tzinfo=timezone.utc)) // timedelta(microseconds=1)


def restyle_instant(text, form):
    """another text of the same instant"""
    from datetime import timedelta, timezone
    d = _parse_instant(text)
    u = d.astimezone(timezone.utc)
    if form == "T-utc":
        return u.isoformat()
    if form == "space-utc":
        return u.isoformat(" ")
    if form == "Z":
        return u.isoformat().replace("+00:00", "Z")
    if form == "naive-T":
        return u.replace(tzinfo=None).isoformat()
    if form == "naive-space":          # NOT admissible (peewee turns it into a datetime, BucketModel.json raises): probes only
        return u.replace(tzinfo=None).isoformat(" ")
    if form == "offset":
        return u.astimezone(timezone(timedelta(hours=5, minutes=30))).isoformat()
    if form == "neg-offset-space":
        return u.astimezone(timezone(timedelta(hours=-8))).isoformat(" ")
    if form == "frac6":
        return u.strftime("%Y-%m-%dT%H:%M:%S.") + f"{u.microsecond:06d}+00:00"
    if form == "basic-offset":
        return u.isoformat().replace("+00:00", "+0000")
    if form == "hour-offset":
        return u.astimezone(timezone(timedelta(hours=2))).isoformat().replace("+02:00", "+02")
    raise ValueError(form)


def raw_content(path):
    """The harness's own reading of a legacy file (plain sqlite3, no aw-core): per bucket (id, name, type, client,
    hostname, created instant us, data value) and the multiset of (bucket id, instant us, duration us, data value)."""
    import json
    import sqlite3
    from decimal import Decimal
    import shutil
    import tempfile
    tmp = tempfile.mkdtemp(prefix="c14-raw-")       # read a copy: a reader of a WAL-mode file leaves -wal / -shm files behind
    for ext in ("", "-wal", "-journal"):
        if os.path.exists(path + ext):
            shutil.copy2(path + ext, os.path.join(tmp, "copy.db" + ext))
    c = sqlite3.connect(os.path.join(tmp, "copy.db"))
    try:
        cols = [r[1] for r in c.execute("PRAGMA table_info(bucketmodel)")]
        ds = "datastr" if "datastr" in cols else "NULL"
        buckets = [[r[1], r[2], r[3], r[4], r[5], _us(r[6]), json.loads(r[7]) if r[7] else {}, r[0]] for r in c.execute(
            f"SELECT key, id, name, type, client, hostname, created, {ds} FROM bucketmodel ORDER BY key")]
        by_key = {b[-1]: b[0] for b in buckets}
        events = sorted(
            (json.dumps([by_key.get(r[0]), _us(r[1]), int((Decimal(str(r[2])) * 1_000_000).to_integral_value()),
                         json.loads(r[3])], sort_keys=True)
             for r in c.execute("SELECT bucket_id, timestamp, duration, datastr FROM eventmodel") if r[0] in by_key))
        return {"buckets": [b[:-1] for b in buckets], "events": events}
    finally:
        c.close()
        shutil.rmtree(tmp, ignore_errors=True)


def rebuild_released(path):
    """the rows of `path` (values and storage classes as found) in a new file with the released schema, sqlite defaults"""
    import sqlite3
    src = sqlite3.connect(path)
    brows = src.execute("SELECT key, id, created, name, type, client, hostname, datastr FROM bucketmodel ORDER BY key").fetchall()
    erows = src.execute("SELECT id, bucket_id, timestamp, duration, datastr FROM eventmodel ORDER BY id").fetchall()
    src.close()
    new = path + ".rebuild"
    if os.path.exists(new):
        os.unlink(new)
    c = sqlite3.connect(new, isolation_level=None)
    for stmt in RELEASED_DDL:
        c.execute(stmt)
    c.execute("BEGIN")
    c.executemany("INSERT INTO bucketmodel (key, id, created, name, type, client, hostname, datastr) VALUES (?, ?, ?, ?, ?, ?, ?, ?)", brows)
    c.executemany("INSERT INTO eventmodel (id, bucket_id, timestamp, duration, datastr) VALUES (?, ?, ?, ?, ?)", erows)
    c.execute("COMMIT")
    c.close()
    for ext in ("-wal", "-shm", "-journal"):
        if os.path.exists(path + ext):
            os.unlink(path + ext)
    os.replace(new, path)


def apply_raw(path, steps):
    """rewrite the finished legacy file `path` (see above).  Raises if a step changed the content."""
    import sqlite3
    if not steps:
        return
    before = raw_content(path)
    for step in steps:
        name = step[0]
        if name == "rebuild":
            rebuild_released(path)
            continue
        c = sqlite3.connect(path, isolation_level=None)
        try:
            if name == "bucket_empty_data":        # [_, form]: every bucket without data
                for key, text in c.execute("SELECT key, datastr FROM bucketmodel").fetchall():
                    import json
                    if not text or json.loads(text) == {}:
                        c.execute("UPDATE bucketmodel SET datastr = ? WHERE key = ?", (EMPTY_FORMS[step[1]], key))
            elif name == "bucket_json":            # [_, style]: every bucket with data
                for key, text in c.execute("SELECT key, datastr FROM bucketmodel").fetchall():
                    if text and text.strip() not in ("", "{}"):
                        c.execute("UPDATE bucketmodel SET datastr = ? WHERE key = ?", (restyle_json(text, step[1]), key))
            elif name == "event_json":             # [_, style, every k-th row, from row r]
                k, r0 = max(1, int(step[2])), int(step[3]) if len(step) > 3 else 0
                c.execute("BEGIN")
                for n, (i, text) in enumerate(c.execute("SELECT id, datastr FROM eventmodel ORDER BY id").fetchall()):
                    if n % k == r0 % k:
                        c.execute("UPDATE eventmodel SET datastr = ? WHERE id = ?", (restyle_json(text, step[1]), i))
                c.execute("COMMIT")
            elif name == "created":                # [_, form, ..]: bucket n gets form[n mod len]
                forms = step[1:]
                for n, (key, text) in enumerate(c.execute("SELECT key, created FROM bucketmodel ORDER BY key").fetchall()):
                    c.execute("UPDATE bucketmodel SET created = ? WHERE key = ?", (restyle_instant(text, forms[n % len(forms)]), key))
            elif name == "ts_T":                   # every row: 'T' between date and time
                c.execute("UPDATE eventmodel SET timestamp = replace(timestamp, ' ', 'T')")
            elif name == "ts_frac6":               # every row: six fractional digits, also .000000
                c.execute("UPDATE eventmodel SET timestamp = substr(timestamp, 1, 19) || '.000000' || substr(timestamp, 20) "
                          "WHERE substr(timestamp, 20, 1) <> '.'")
            elif name == "ts_mixed_T":             # every k-th row
                c.execute("UPDATE eventmodel SET timestamp = replace(timestamp, ' ', 'T') WHERE id % ? = 0", (max(2, int(step[1])),))
            elif name == "ts_Z":
                c.execute("UPDATE eventmodel SET timestamp = replace(timestamp, '+00:00', 'Z') WHERE id % ? = 0", (max(1, int(step[1])),))
            elif name == "ts_offset":              # every k-th row in local time with its offset (same instant)
                c.execute("BEGIN")
                for i, text in c.execute("SELECT id, timestamp FROM eventmodel WHERE id % ? = 0", (max(1, int(step[1])),)).fetchall():
                    form = ["offset", "neg-offset-space", "hour-offset"][i % 3]
                    c.execute("UPDATE eventmodel SET timestamp = ? WHERE id = ?", (restyle_instant(text, form).replace("T", " "), i))
                c.execute("COMMIT")
            elif name == "id_shift":
                c.execute("UPDATE eventmodel SET id = -id")          # two passes: ids stay unique on the way
                c.execute("UPDATE eventmodel SET id = -id + ?", (int(step[1]),))
            elif name == "id_reverse":
                m = c.execute("SELECT coalesce(max(id), 0) FROM eventmodel").fetchone()[0]
                c.execute("UPDATE eventmodel SET id = -id")
                c.execute("UPDATE eventmodel SET id = ? + 1 + id", (m,))
            elif name == "key_shift":
                c.execute("PRAGMA foreign_keys = OFF")
                c.execute("BEGIN")
                c.execute("UPDATE bucketmodel SET key = -key")
                c.execute("UPDATE eventmodel SET bucket_id = -bucket_id")
                c.execute("UPDATE bucketmodel SET key = -key + ?", (int(step[1]),))
                c.execute("UPDATE eventmodel SET bucket_id = -bucket_id + ?", (int(step[1]),))
                c.execute("COMMIT")
            elif name == "journal":                # "delete" | "wal" (the two modes a file remembers)
                c.execute("PRAGMA journal_mode = " + {"delete": "DELETE", "wal": "WAL"}[step[1]])
            elif name == "page_size":
                if c.execute("PRAGMA journal_mode").fetchone()[0] == "wal":
                    c.execute("PRAGMA journal_mode = DELETE")
                c.execute("PRAGMA page_size = %d" % int(step[1]))
                c.execute("VACUUM")
            elif name == "auto_vacuum":
                c.execute("PRAGMA auto_vacuum = %d" % int(step[1]))
                c.execute("VACUUM")
            elif name == "user_version":
                c.execute("PRAGMA user_version = %d" % int(step[1]))
            elif name == "application_id":
                c.execute("PRAGMA application_id = %d" % int(step[1]))
            elif name == "schema_cookie":          # many schema changes behind it (the header's schema cookie is high)
                for k in range(int(step[1])):
                    c.execute(f"CREATE TABLE tmp_{k} (x)")
                    c.execute(f"DROP TABLE tmp_{k}")
            elif name == "extra_table":
                c.execute("CREATE TABLE IF NOT EXISTS settingsmodel (key VARCHAR(255) NOT NULL PRIMARY KEY, value TEXT)")
                c.execute("INSERT OR REPLACE INTO settingsmodel VALUES ('startOfDay', '\"04:00\"')")
            elif name == "extra_column":           # a newer schema: one more nullable column on either table
                c.execute("ALTER TABLE bucketmodel ADD COLUMN color VARCHAR(255)")
                c.execute("ALTER TABLE eventmodel ADD COLUMN synced INTEGER DEFAULT 0")
            elif name == "extra_index":
                c.execute("CREATE INDEX IF NOT EXISTS eventmodel_bucket_ts ON eventmodel (bucket_id, timestamp)")
            elif name == "drop_index":             # an older schema: one of peewee's own indexes is not there yet
                c.execute("DROP INDEX IF EXISTS " + step[1])
            elif name == "orphans":                # event rows of a bucket that is gone (no bucket row): content of no bucket
                k0 = c.execute("SELECT coalesce(max(key), 0) + 100 FROM bucketmodel").fetchone()[0]
                i0 = c.execute("SELECT coalesce(max(id), 0) FROM eventmodel").fetchone()[0]
                c.executemany("INSERT INTO eventmodel (id, bucket_id, timestamp, duration, datastr) VALUES (?, ?, ?, ?, ?)",
                              [(i0 + 1 + j, k0 + j % 2, "2019-0%d-01 00:00:00+00:00" % (1 + j % 9), j, '{"orphan": %d}' % j)
                               for j in range(int(step[1]))])
            elif name == "churn":                  # free pages: rows were written and deleted again
                c.execute("CREATE TABLE churn (x)")
                c.execute("BEGIN")
                c.executemany("INSERT INTO churn VALUES (?)", [("y" * 400,) for _ in range(int(step[1]))])
                c.execute("COMMIT")
                c.execute("DROP TABLE churn")
            else:
                raise ValueError("raw step " + str(step))
        finally:
            c.close()
    after = raw_content(path)
    if after != before:
        raise RuntimeError(f"harness: raw steps {steps} changed the content of {path}")


def file_diff(before_copy, now):
    """what differs between a copy of a legacy file taken before the construction and the file now: header fields,
    schema objects, rows (value and storage class per column).  Read on copies; text for the violation report."""
    import shutil
    import sqlite3
    import struct
    import tempfile
    out = []
    try:
        ha, hb = open(before_copy, "rb").read(100), open(now, "rb").read(100)
        for name, off, fmt in (("page size", 16, ">H"), ("write version (1 = rollback journal, 2 = WAL)", 18, "B"),
                               ("read version", 19, "B"), ("change counter", 24, ">I"), ("pages", 28, ">I"),
                               ("freelist pages", 36, ">I"), ("schema cookie", 40, ">I"), ("user_version", 60, ">I"),
                               ("application_id", 68, ">I")):
            a, b = struct.unpack_from(fmt, ha, off)[0], struct.unpack_from(fmt, hb, off)[0]
            if a != b:
                out.append(f"header {name}: {a} -> {b}")
        tmp = tempfile.mkdtemp(prefix="c14-diff-")
        try:
            conns = []
            for k, p in enumerate((before_copy, now)):
                for ext in ("", "-wal"):
                    if os.path.exists(p + ext):
                        shutil.copy2(p + ext, os.path.join(tmp, f"f{k}.db{ext}"))
                conns.append(sqlite3.connect(os.path.join(tmp, f"f{k}.db")))
            ca, cb = conns
            sa = set(ca.execute("SELECT type, name, sql FROM sqlite_master"))
            sb = set(cb.execute("SELECT type, name, sql FROM sqlite_master"))
            for x in sorted(sb - sa, key=str):
                out.append(f"schema object added: {x[0]} {x[1]}: {x[2]}")
            for x in sorted(sa - sb, key=str):
                out.append(f"schema object removed: {x[0]} {x[1]}")
            for table, pk in (("bucketmodel", "key"), ("eventmodel", "id")):
                rows = []
                for c in (ca, cb):
                    cols = [r[1] for r in c.execute(f"PRAGMA table_info({table})")]
                    sel = ", ".join(f'"{x}", typeof("{x}")' for x in cols)
                    rows.append({r[0]: dict(zip(cols, zip(r[1::2], r[2::2]))) for r in c.execute(f'SELECT "{pk}", {sel} FROM {table}')})
                ra, rb = rows
                n = 0
                for k in sorted(set(ra) | set(rb)):
                    if ra.get(k) != rb.get(k):
                        n += 1
                        if n <= 3:
                            if k not in ra or k not in rb:
                                out.append(f"{table} row {pk}={k} {'added' if k not in ra else 'removed'}")
                            else:
                                d = {c: f"{ra[k].get(c)} -> {rb[k].get(c)}" for c in set(ra[k]) | set(rb[k]) if ra[k].get(c) != rb[k].get(c)}
                                out.append(f"{table} row {pk}={k}: (value, storage class) {d}")
                if n > 3:
                    out.append(f"{table}: {n} rows differ")
            for c in conns:
                c.close()
        finally:
            shutil.rmtree(tmp, ignore_errors=True)
    except Exception as ex:  # noqa: BLE001 -- diagnostics only
        out.append(f"(no row-level comparison: {type(ex).__name__}: {ex})")
    return "; ".join(out) if out else "no difference in header fields, schema or rows (page layout / other bytes only)"
