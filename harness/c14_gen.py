"""Helpers shared by harness/c14.py and harness/c14_child.py (no aw-core import here).

* `expand_events(spec)`: deterministic expansion of a compact description of a LARGE legacy bucket
  (op `["insert_gen", bucket, spec]`), so that cases with tens of thousands of events stay small in
  replay files and can be shrunk by size.  The buckets are *dense everywhere*: whichever way a copy
  loop cuts the bucket into several reads (by count, by instant, by day ..), the cut falls beside
  events that share its instant, touch it (end == next start), reach across it, or are zero-length.
* fingerprints / listings of the data directory."""
import hashlib
import os
import random

BASE = 1_600_000_000_000_000      # = harness.evutil.BASE (2020-09-13T12:26:40Z), ms-aligned
SEC = 1_000_000
HOUR = 3600 * SEC
DAY = 24 * HOUR

GEN_DATA = ([{"app": f"a{j}", "n": j} for j in range(31)] +
            [{}, {"u": "ünï中😀"}, {"nested": {"l": [1, [2, 3], {"k": None}]}}, {"title": "q'uote\"s \\ and\nnewline"},
             {"n": 1}, {"n": 1.0}, {"status": "afk"}, {"status": "not-afk"}])
GEN_TZ = [0, 0, 0, 0, 120, -300, 330]


def _dense(rng, n, g, off):
    """slots on a grid of g us; 1-3 events per slot (ties), durations around g (touching, overlapping by 1 us,
    1 us short, long, zero), occasional empty slots, and a few events that reach over a large part of the bucket"""
    out = []
    slot = 0
    durs = [0, g, g, g, g + 1, g - 1, g // 2, 2 * g + SEC // 2, 3 * g, 1, 1001, 997 * g]
    while len(out) < n:
        ts = BASE + off + slot * g
        k = rng.choice([1, 1, 1, 2, 2, 3])
        same = rng.random() < 0.3          # a group of fully identical events (same instant, duration and data)
        first = None
        for _ in range(min(k, n - len(out))):
            e = [ts, rng.choice(durs), rng.choice(GEN_DATA), rng.choice(GEN_TZ)]
            if same and first is not None:
                e = list(first)
            first = first or e
            out.append(e)
        slot += rng.choice([1, 1, 1, 1, 1, 2, 5])
    if out:                                 # the oldest event reaches over the whole bucket
        out[0] = [out[0][0], slot * g + g, {"status": "not-afk", "long": True}, 0]
    return out


def _wide(rng, n, g, off):
    """n events spread evenly around BASE with step g (hours), durations from minutes to weeks: events that
    cross midnight, month and year boundaries and reach over many of their successors"""
    out = []
    durs = [0, HOUR, g, g, g + SEC, g - SEC, 30 * HOUR, 3 * DAY, 45 * DAY, 1, 25 * HOUR]
    for k in range(n):
        ts = BASE - 200 * DAY + off + k * g
        out.append([ts, rng.choice(durs), rng.choice(GEN_DATA), rng.choice(GEN_TZ)])
        if rng.random() < 0.15 and len(out) < n:
            out.append([ts, rng.choice(durs), rng.choice(GEN_DATA), 0])
    return out[:n]


def expand_events(spec):
    """spec = {"kind": "dense"|"wide", "n", "seed", "step_ms", "off_ms", "order": "asc"|"desc"|"shuffle"|"blocks"}
    -> [[ts_us, dur_us, data, tz_minutes] ..] in insertion order.  Pure function of spec."""
    rng = random.Random(int(spec.get("seed", 0)))         # the first n events do not depend on n (shrinking by size)
    n = int(spec["n"])
    g = int(spec.get("step_ms", 1000)) * 1000
    off = int(spec.get("off_ms", 0)) * 1000
    evs = (_wide if spec.get("kind") == "wide" else _dense)(rng, n, g, off)
    order = spec.get("order", "asc")
    rng = random.Random(int(spec.get("seed", 0)) + 1)
    if order == "desc":
        evs.reverse()
    elif order == "shuffle":
        rng.shuffle(evs)
    elif order == "blocks":                 # runs of ascending rows, the runs themselves shuffled
        size = max(1, n // 17)
        blocks = [evs[i:i + size] for i in range(0, len(evs), size)]
        rng.shuffle(blocks)
        evs = [e for b in blocks for e in b]
    return evs


def spec_events(op):
    """number of events an op contributes (for size thresholds)"""
    if op[0] == "insert_gen":
        return int(op[2]["n"])
    if op[0] == "insert_many":
        return len(op[2])
    return 1 if op[0] == "insert" else 0


# ---------------------------------------------------------------------------
# the data directory


def data_dir(xdg):
    return os.path.join(xdg, "xdg_data_home", "activitywatch", "aw-server")


def fingerprint(path):
    b = open(path, "rb").read()
    st = os.stat(path)
    return {"sha256": hashlib.sha256(b).hexdigest(), "size": len(b), "mtime_ns": st.st_mtime_ns}


def legacy_prints(xdg, listdir=os.listdir):
    d = data_dir(xdg)
    out = {}
    if os.path.isdir(d):
        for f in sorted(listdir(d)):
            if f.startswith("peewee") and os.path.isfile(os.path.join(d, f)):
                out[f] = fingerprint(os.path.join(d, f))
    return out


def listing(xdg, listdir=os.listdir):
    d = data_dir(xdg)
    return sorted(listdir(d)) if os.path.isdir(d) else []
