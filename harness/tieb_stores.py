"""Tie B for the storage back ends, the Datastore / Bucket layer and the Event model (task B5, notes/agents/TIEBS.md):
which bridge files a check builds and which translator kernels it insists on (a kernel the translator refuses is
reported by Check.prove as a broken tie).  One place, so that the checks that stand on the same model name the
same lists:  ck.prove(extra_targets=[...] + tieb_stores.STORES[0], gen_kernels=[...] + tieb_stores.STORES[1])."""

_PW_METHODS = ["update_bucket_keys", "_where_range", "_get_event", "_get_last", "replace", "buckets", "create_bucket",
               "update_bucket", "delete_bucket", "get_metadata", "insert_one", "insert_many", "replace_last", "delete",
               "get_event", "get_events", "get_eventcount", "step"]

MEM = (["Bridge/BridgeMemStore.v"], ["MemoryStorage"])
SQLITE = (["Bridge/BridgeSqliteStore.v"], ["SqliteStorage"])
PEEWEE = (["Bridge/BridgePeeweeStore.v"],
          ["PeeweeStorage.header", "PeeweeStorage.schema", "EventModel.from_event", "EventModel.json", "BucketModel.json"]
          + ["PeeweeStorage." + m for m in _PW_METHODS]
          # the trimming loop of get_events is k_window's kernel, re-used by k_pwstore
          + ["PeeweeStorage.get_events.trim"])
DATASTORE = (["Bridge/BridgeDatastore.v"],
             ["datastore.header", "Bucket.__init__", "datastore.vocabulary", "Datastore.__init__", "Datastore.buckets",
              "Datastore.__getitem__", "Datastore.create_bucket", "Datastore.update_bucket", "Datastore.delete_bucket",
              "Bucket.metadata", "Bucket.get", "Bucket.get_by_id", "Bucket.get_eventcount", "Bucket.insert",
              "Bucket.delete", "Bucket.replace_last", "Bucket.replace", "datastore.dispatch"])
EVENT = (["Bridge/BridgeEventModel.v"],
         ["models.vocabulary", "models._timestamp_parse", "Event.timestamp.setter", "Event.duration.setter",
          "Event.id_data.setters", "Event.getters", "Event.__init__", "Event.to_json", "Event.__eq__lt__"])
SQLITE_CODEC = (["Bridge/BridgeSqliteCodec.v"],
                ["sqlite.codec.constants", "sqlite._event_to_us", "sqlite._rows_to_events"])


def both(*groups):
    ts, ks = [], []
    for t, k in groups:
        ts += [x for x in t if x not in ts]
        ks += [x for x in k if x not in ks]
    return ts, ks


STORES = both(MEM, SQLITE, PEEWEE)
STORES_DS = both(MEM, SQLITE, PEEWEE, DATASTORE)
STORES_CODEC = both(MEM, SQLITE, PEEWEE, SQLITE_CODEC)      # SQLITE_CODEC's bridge imports the Event bridge
EVENT_CODEC = both(EVENT, SQLITE_CODEC)
