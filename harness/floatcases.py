"""In-Coq correspondence route for float-carrying models (DESIGN 2.3).

Float-carrying Gallina definitions (Model/PyFloat.v and everything built on it) are never
extracted to OCaml.  They are evaluated by Coq itself: the harness writes files
`build/<prop>/cases/<tag>_N.v` holding at most CHUNK literal cases each, every case being one

    Eval vm_compute in (<term>).

where <term> has type `list Z` (use the encoders of Model/PyFloatWire.v: enc_float,
enc_res, enc_Z, enc_pairZ, ...), `coqc` compiles the files in parallel (`xargs -P`), and the
printed normal forms -- one per case, in order -- are parsed back into Python lists of ints.

Interface (used by harness/c13.py; meant to be reused by the C01 / C03 checks):

    from . import floatcases as fc
    results = fc.run_cases("C13", "From AwVerif Require Import Base.Prelude Model.PyFloat "
                           "Model.PyFloatWire.", terms)        # -> list[list[int]]
    fc.coq_float(x)      Python float -> exact Coq PrimFloat literal (hex; nan/inf/-0.0 handled)
    fc.coq_z(n)          int -> Gallina Z literal (negative numbers parenthesised)
    fc.coq_optz(n)       None/int -> (None)/(Some n)
    fc.coq_list(items)   already-rendered items -> [a; b; c]
    fc.float_wire(x)     Python float -> [class, sign, mantissa, exponent], the value
                         PyFloatWire.enc_float computes for the same binary64
    fc.unwire_float(w)   inverse of float_wire
    fc.res_wire_ok(payload) / fc.res_wire_err(exc)   what PyFloatWire.enc_res prints
    fc.ERR_CODE          Python exception class name -> Prelude.errclass_code

The .vo files the cases import must have been built before (Check.prove with
extra_targets=["Model/PyFloatWire.v", ...]).  The terms must be closed and their normal
forms must be lists of integer literals; anything else raises RuntimeError with the tail of
the offending coqc output.  Floats are always passed as exact hexadecimal literals, so the
binary64 the model sees is bit-for-bit the one the implementation saw.
"""
import math
import os
import re
import shutil
import subprocess

from . import common

CHUNK = 500
HEADER_OPTS = ("Set Printing Width 1000000.\nSet Printing Depth 1000000.\n"
               "Set Warnings \"-inexact-float,-notation-overridden\".\n"
               "Open Scope Z_scope.\n")

# Prelude.errclass_code; OverflowError / OSError / ZeroDivisionError have no constructor of
# their own in Base/Prelude.v and are modelled as OtherError
ERR_CODE = {"ParseError": 1, "InterpretError": 2, "FunctionError": 3, "KeyError": 4,
            "ValueError": 5, "IndexError": 6, "AttributeError": 7, "TypeError": 8,
            "IntegrityError": 9, "OtherError": 10, "OverflowError": 10, "OSError": 10,
            "ZeroDivisionError": 10}


# ---------------------------------------------------------------------------
# literals


def coq_z(n):
    n = int(n)
    return str(n) if n >= 0 else f"({n})"


def coq_optz(n):
    return "(@None Z)" if n is None else f"(Some {coq_z(n)})"


def coq_bool(b):
    return "true" if b else "false"


def coq_list(items):
    return "[" + "; ".join(items) + "]"


def coq_float(x):
    """Exact PrimFloat literal of a Python float (float.hex() is exact and Coq's hexadecimal
    float notation parses it without rounding)."""
    x = float(x)
    if math.isnan(x):
        return "nan"
    if math.isinf(x):
        return "infinity" if x > 0 else "neg_infinity"
    if x == 0.0:
        return "neg_zero" if math.copysign(1.0, x) < 0 else "zero"
    h = x.hex()
    return f"({h})%float"


def float_wire(x):
    """[class, sign, mantissa, exponent] exactly as PyFloatWire.enc_float (= Prim2SF)."""
    x = float(x)
    if math.isnan(x):
        return [3, 0, 0, 0]
    s = 1 if math.copysign(1.0, x) < 0 else 0
    if math.isinf(x):
        return [2, s, 0, 0]
    if x == 0.0:
        return [0, s, 0, 0]
    m, e = math.frexp(abs(x))          # abs(x) = m * 2**e, 0.5 <= m < 1
    mant = int(m * (1 << 53))          # exact: m has at most 53 significant bits
    exp = e - 53
    if exp < -1074:                    # subnormal: Prim2SF keeps exponent -1074
        sh = -1074 - exp
        assert mant % (1 << sh) == 0
        mant >>= sh
        exp = -1074
    return [1, s, mant, exp]


def unwire_float(w):
    c, s, m, e = w
    sign = -1.0 if s else 1.0
    if c == 3:
        return float("nan")
    if c == 2:
        return sign * float("inf")
    if c == 0:
        return sign * 0.0
    return sign * math.ldexp(m, e)


def res_wire_ok(payload):
    return [0] + list(payload)


def res_wire_err(exc):
    name = exc if isinstance(exc, str) else type(exc).__name__
    return [1, ERR_CODE.get(name, 10)]


# ---------------------------------------------------------------------------
# running


_ZLIST = re.compile(r"^\[(.*)\]$")


def parse_zlist(text):
    text = text.strip()
    if text in ("[]", "nil"):
        return []
    m = _ZLIST.match(text)
    if not m:
        raise ValueError("not a list of integers: " + text[:200])
    out = []
    for tok in m.group(1).split(";"):
        tok = tok.strip().strip("()").replace(" ", "")
        out.append(int(tok))
    return out


def _parse_output(text):
    """Normal forms printed by `Eval vm_compute in`, in order."""
    res = []
    cur = None
    for line in text.splitlines():
        if line.startswith("     = "):
            cur = [line[7:]]
        elif line.startswith("     : "):
            if cur is not None:
                res.append(" ".join(cur))
            cur = None
        elif cur is not None:
            cur.append(line.strip())
    return res


def run_cases(prop, imports, terms, tag="cases", chunk=CHUNK, jobs=16, timeout=900, keep=False):
    """Evaluate every Gallina term (type list Z) inside Coq; returns list[list[int]]."""
    if not terms:
        return []
    d = os.path.join(common.BUILD, prop, "cases_" + tag)
    shutil.rmtree(d, ignore_errors=True)
    os.makedirs(d)
    files = []
    for n, i in enumerate(range(0, len(terms), chunk)):
        name = f"{tag}_{n}"
        with open(os.path.join(d, name + ".v"), "w") as f:
            f.write("From Coq Require Import ZArith List PrimFloat.\nImport ListNotations.\n")
            f.write(imports.rstrip() + "\n" + HEADER_OPTS)
            for t in terms[i:i + chunk]:
                f.write(f"Eval vm_compute in ({t}).\n")
        files.append(name)
    cmd = (f"printf '%s\\n' {' '.join(files)} | xargs -P{jobs} -I{{}} sh -c "
           f"'timeout {timeout} coqc -q -Q {common.COQ} AwVerif {{}}.v > {{}}.out 2> {{}}.err; echo $? > {{}}.rc'")
    subprocess.run(["bash", "-c", cmd], cwd=d, timeout=timeout * (len(files) // jobs + 2),
                   stdout=subprocess.PIPE, stderr=subprocess.STDOUT)
    out = []
    for n, name in enumerate(files):
        want = min(chunk, len(terms) - n * chunk)
        p = os.path.join(d, name)
        rc = open(p + ".rc").read().strip() if os.path.exists(p + ".rc") else "?"
        got = _parse_output(open(p + ".out").read()) if os.path.exists(p + ".out") else []
        if rc != "0" or len(got) != want:
            err = (open(p + ".err").read() if os.path.exists(p + ".err") else "")[-800:]
            raise RuntimeError(f"{name}.v: coqc rc={rc}, {len(got)} results for {want} cases: {err}")
        out += [parse_zlist(g) for g in got]
    if not keep:
        shutil.rmtree(d, ignore_errors=True)
    return out
