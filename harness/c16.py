"""C16 — merge_events_by_keys / chunk_events_by_key / sort_by.py / filter_keyvals:
correspondence with Model/Group.v and the property statement evaluated on the
implementation's own outputs (plus the before/after comparison of the inputs)."""
import copy
import itertools
import sys
from datetime import timedelta

from . import common
from . import c16_lookalikes as LA
from .common import Check, sx
from .evutil import BASE, dt, mk_event, pulse_us, us_of_dt, us_of_td
from .txhist import strict_eq

RULE = ("boundary corpus (all lists of <= 3 events over a 7-letter data alphabet with missing keys, list values and "
        "equal values under different keys, x every key list over {a,b,c} of length 0..2 incl. repeats; all tie "
        "patterns of 0..4 timestamps/durations; every count in -6..6; every vals subset) then seeded random cases "
        "(0..8 events, key lists of length 0..3, unsorted timestamps, negative/zero durations, 1/1.0/True mixes); "
        "look-alike corpus (round 2): every base value next to every domain value that a serialisation / normalisation / "
        "sort / set / hash / truncation / join of it would conflate with it (json/repr/str of the value and of its tuple "
        "form, 1 / '1' / 1.0 / True / [1] / '[1]', case, whitespace, unicode forms), and every data dict next to the "
        "dicts whose (key, value) pairs spell the same text / flatten to the same sequence; the random pools draw "
        "such companions for the values and dicts they hold; "
        "non-trivial = distinct canonical case in which the function had something to decide (two events in one "
        "group or a key missing somewhere; a tie in the sort key; a count that cuts; a predicate both true and false)"
        "; round 3 (harness/c16_hist.py): the corpus through every registered query function (aw_query.functions.functions) and "
        "query2 statements with arguments that stay referenced; call sequences in one process on live objects (the same / ==-equal "
        "/ edited in between / other keys, counts, look-alike vals / earlier results overwritten); one input of >= 10 001 events "
        "per transform")

KEYS = ["a", "b", "c"]
S = 1_000_000
# data alphabet of the boundary corpus: missing keys, equal values under different keys,
# list values (hashable only through the code's list->tuple step), the empty dict
ALPHA = [{}, {"a": 1}, {"b": 1}, {"a": 1, "b": 1}, {"a": ["x"]}, {"a": 2}, {"b": 1, "a": 1, "c": "x"}]
VALUES = [1, 2, "x", "y", ["x"], ["x", "y"], [], "1", 1.0, True, 0, False, ["y", "x"], None]
PULSES = [5.0, 0, 1, 0.5, 2.5, 1e-6, 0.0000005, 60, -1]


# --------------------------------------------------------------------------- labels


class Lab:
    """key strings -> integers; values -> one integer per Python ==/hash class of the
    hashable-ised value (a list is labelled through its tuple form).  The classes are those of a Python
    dict keyed by the value itself (tuple(v) for a list, v otherwise) - nothing is serialised, normalised
    or coerced on the way, so "x", ["x"], '["x"]', "('x',)" are four labels and 1, 1.0, True are one.
    Domain: str / int / float (no NaN) / bool / None / flat lists of those."""

    def __init__(self):
        self.keys = {}
        self.vals = {}

    def k(self, s):
        return self.keys.setdefault(s, len(self.keys))

    def v(self, x):
        if not LA.in_domain(x):
            raise ValueError(f"value outside the label domain: {x!r}")
        return self.vals.setdefault(tuple(x) if type(x) is list else x, len(self.vals))

    def d(self, data):
        return [[self.k(k), self.v(v)] for k, v in data.items()]


def view(e, lab):
    """(id, ts_us, dur_us, ((k v) ...) in dict order)"""
    return [common.opt(e.id), us_of_dt(e.timestamp), us_of_td(e.duration), lab.d(e.data)]


def snapshot(objs):
    return [(id(o), o.id, o.timestamp, o.duration, copy.deepcopy(o.data)) for o in objs]


def unchanged(objs, snap, lst_len):
    if len(objs) != lst_len:
        return "the input list changed length"
    for o, (i, oid, t, d, data) in zip(objs, snap):
        if id(o) != i:
            return "an element of the input list was replaced"
        if o.id != oid or o.timestamp != t or o.duration != d or o.data != data or list(o.data) != list(data):
            return f"input event modified: now {dict(o)} was ts={t} dur={d} data={data}"
    return None


# --------------------------------------------------------------------------- generators


def mk(evs, Event):
    return [mk_event(Event, t, d, copy.deepcopy(x), eid=i) for (t, d, x, i) in evs]


def ev4(t, d, x, i=None):
    return (BASE + t, d, x, i)


def gen_boundary(maxlen=3):
    keylists = [[]] + [[k] for k in KEYS] + [list(p) for p in itertools.product("ab", repeat=2)] + [["a", "c"], ["c", "b", "a"]]
    lists = [()] + [p for n in range(1, maxlen + 1) for p in itertools.product(range(len(ALPHA)), repeat=n)]
    for idxs in lists:
        # durations are distinct powers of two so that every sum identifies its group
        evs = [ev4(j * S, (1 << j) * S, ALPHA[i]) for j, i in enumerate(idxs)]
        for ks in keylists:
            yield ("merge", ks, evs)
        for key in KEYS:
            yield ("chunk", key, 5.0, evs)
            # the same events in reverse time order: timediff against events[-1] becomes positive
            yield ("chunk", key, 1, [ev4((len(idxs) - j) * 3 * S, (1 << j) * S, ALPHA[i]) for j, i in enumerate(idxs)])
        for key in ("a", "b"):
            for vals in ([], [1], [1, ["x"]], [2, "x"], [["x"]]):
                for excl in (False, True):
                    yield ("filter", key, vals, excl, evs)
    # the pulse edge: timediff = ts - (events[-1].ts + events[-1].dur) exactly at / 1 ms around the pulsetime
    for x_ms in (2999, 3000, 3001):
        for p in (1, 0.999, 1.001, 0, 5.0):
            yield ("chunk", "a", p, [ev4(10 * S, S, {"a": 1}), ev4(x_ms * 1000, S, {"a": 1}), ev4(0, 2 * S, {"a": 1})])
            yield ("chunk", "a", p, [ev4(10 * S, S, {"a": 1}), ev4(x_ms * 1000, S, {"a": 1}), ev4(0, 2 * S, {"b": 1})])
    for n in range(0, 5):
        for pat in itertools.product(range(3), repeat=n):
            evs = [ev4(p * S, ((7 * j + p) % 3) * S, {"i": j}, j) for j, p in enumerate(pat)]
            yield ("sort_ts", evs)
            evs = [ev4(((5 * j + p) % 4) * S, p * S, {"i": j}, j) for j, p in enumerate(pat)]
            yield ("sort_dur", evs)
    for n in range(0, 6):
        evs = [ev4(j * S, S, {"i": j}, j) for j in range(n)]
        for count in range(-7, 8):
            yield ("limit", count, evs)
        yield ("sum", evs)
        for m in range(0, 3):
            yield ("concat", evs, [ev4(j * S, 2 * S, {"i": -j}) for j in range(m)])


def gen_lookalikes():
    """Round 2.  Every base value v next to each of its look-alikes w (harness/c16_lookalikes.py): the two are
    different values of the domain (or the same value under another type), so the statement tells exactly which
    events share a group / a run / a side of the filter; and every base dict next to the dicts whose composite
    key would coincide under a textual / flattened / unordered composite key."""
    for v in LA.BASE_VALUES:
        for w in LA.lookalikes(v):
            c = copy.deepcopy
            evs = [ev4(0, S, {"a": c(v)}), ev4(S, 2 * S, {"a": c(w)}), ev4(2 * S, 4 * S, {"a": c(v), "b": 1}),
                   ev4(3 * S, 8 * S, {"a": c(w)})]
            yield ("merge", ["a"], evs)
            yield ("merge", ["b", "a"], [ev4(0, S, {"a": c(v), "b": c(w)}), ev4(S, 2 * S, {"a": c(w), "b": c(v)}),
                                          ev4(2 * S, 4 * S, {"b": c(v), "a": c(v)}), ev4(3 * S, 8 * S, {"b": c(w), "a": c(v)}),
                                          ev4(4 * S, 16 * S, {"b": c(w)}), ev4(5 * S, 32 * S, {"a": c(w)})])
            yield ("chunk", "a", 5.0, [ev4(0, S, {"a": c(v)}), ev4(S, 2 * S, {"a": c(w)}), ev4(2 * S, 4 * S, {"a": c(w)}),
                                       ev4(3 * S, 8 * S, {"a": c(v)})])
            yield ("filter", "a", [c(v)], False, evs)
            yield ("filter", "a", [c(w), 7], True, evs)
    for d, ks in LA.BASE_DATAS:
        comps = LA.composite_lookalikes(d, ks)
        for j, comp in enumerate(comps):
            evs = [ev4(0, S, d), ev4(S, 2 * S, comp), ev4(2 * S, 4 * S, d), ev4(3 * S, 8 * S, comp)]
            yield ("merge", ks, evs)
            if j % 4 == 0:
                yield ("merge", list(reversed(ks)), evs)
        # all companions of one dict in one call
        yield ("merge", ks, [ev4(j * S, (1 << j) * S, x) for j, x in enumerate([d] + comps[:20])])


def rand_data(rng, pool):
    d = {}
    ks = list(KEYS)
    rng.shuffle(ks)
    for k in ks:
        if rng.random() < 0.6:
            d[k] = copy.deepcopy(rng.choice(pool))
    return d


def rand_events(rng, nmax=8):
    n = rng.choice([0, 1, 2, 2, 3, 3, 4, 5, 6, 7, 8][:nmax + 3])
    pool = rng.sample(VALUES, rng.choice([1, 2, 2, 3, 4]))
    if rng.random() < 0.5:      # round 2: look-alikes of the values already in the pool
        for v in rng.sample(pool, rng.choice([1, 1, 2][:len(pool)])):
            la = LA.lookalikes(v)
            pool = pool + rng.sample(la, min(len(la), rng.choice([1, 1, 2, 3])))
    unit = rng.choice([S, S, 1000, 500_000])
    evs = []
    t = 0
    protos = []
    for j in range(n):
        t += rng.choice([0, 0, 1, 1, 2, 3, 7, -1, -3])
        d = rng.choice([0, 0, 1, 1, 2, 3, 5, -1]) * unit + rng.choice([0, 0, 0, 1, 250, 999_999])
        if protos and rng.random() < 0.35:
            x = copy.deepcopy(rng.choice(protos))            # duplicates
        else:
            x = rand_data(rng, pool)
            protos.append(x)
        ts = t * unit + rng.choice([0, 0, 0, 0, 1, 999, 1500])  # sub-ms part is floored by Event itself
        evs.append(ev4(ts, d, x, rng.choice([None, None, j, 100 + j])))
    return evs, pool


def gen_random(rng, n):
    for _ in range(n):
        evs, pool = rand_events(rng)
        kind = rng.choice(["merge", "merge", "merge", "chunk", "chunk", "chunk", "sort_ts", "sort_dur", "limit", "sum",
                           "concat", "filter", "filter"])
        if kind == "merge":
            ks = [rng.choice(KEYS + ["zz"]) for _ in range(rng.choice([0, 1, 1, 2, 2, 2, 3, 3]))]
            if evs and ks and rng.random() < 0.3:      # round 2: composite-key look-alikes of an event of the list
                src = rng.choice(evs)
                comps = LA.composite_lookalikes(src[2], ks)
                for comp in rng.sample(comps, min(len(comps), rng.choice([1, 1, 2]))):
                    j = rng.randrange(0, len(evs) + 1)
                    evs = evs[:j] + [ev4(rng.choice([0, 1, 5, 9]) * S, rng.choice([0, 1, 3]) * S + 1, comp)] + evs[j:]
            yield ("merge", ks, evs)
        elif kind == "chunk":
            yield ("chunk", rng.choice(KEYS), rng.choice(PULSES), evs)
        elif kind in ("sort_ts", "sort_dur", "sum"):
            yield (kind, evs)
        elif kind == "limit":
            yield ("limit", rng.randrange(-10, 11), evs)
        elif kind == "concat":
            yield ("concat", evs, rand_events(rng, 4)[0])
        else:
            vals = [copy.deepcopy(rng.choice(pool + VALUES[:3])) for _ in range(rng.choice([0, 1, 1, 2, 3]))]
            yield ("filter", rng.choice(KEYS), vals, rng.random() < 0.5, evs)


# --------------------------------------------------------------------------- implementation


class Impl:
    def __init__(self):
        from aw_core.models import Event
        import importlib
        # aw_transform/__init__ rebinds these names to the functions; fetch the modules themselves
        m = importlib.import_module("aw_transform.merge_events_by_keys")
        c = importlib.import_module("aw_transform.chunk_events_by_key")
        s = importlib.import_module("aw_transform.sort_by")
        f = importlib.import_module("aw_transform.filter_keyvals")
        self.Event, self.m, self.c, self.s, self.f = Event, m, c, s, f


def hz(v):
    return tuple(v) if isinstance(v, list) else v


def run_case(case, I, lab, ck):
    """Runs the implementation on fresh objects.  Returns (wire, impl_view, oracle_msg, nontrivial, canon)."""
    kind = case[0]
    evs = case[-1]
    objs = I.objects(evs) if getattr(I, "objects", None) else mk(evs, I.Event)      # round 3: live objects of a call sequence
    snap = snapshot(objs)
    n_in = len(objs)
    inview = [view(o, lab) for o in objs]
    idx = {id(o): i for i, o in enumerate(objs)}
    bad = None
    nontrivial = False

    def identity_indices(out):
        return [idx.get(id(o)) for o in out]

    if kind == "merge":
        keys = case[1]
        wire = [0, [lab.k(k) for k in keys], inview]
        out = I.m.merge_events_by_keys(objs, list(keys))
        outview = [view(o, lab) for o in out]
        # -- the statement, computed independently
        vec = [tuple((k in o.data, lab.v(o.data[k]) if k in o.data else None) for k in keys) for o in objs]
        if not keys:
            ck.count("merge:no-keys returns the input list object" if out is objs else "merge:no-keys returns a new list")
            if [id(o) for o in out] != [id(o) for o in objs]:
                bad = "merge with no keys: output is not the input events"
        else:
            order = []
            for v in vec:
                if v not in order:
                    order.append(v)
            nontrivial = len(order) < n_in or any(not p for v in vec for p, _ in v)
            if len(out) != len(order):
                bad = f"merge groups: {len(out)} outputs for {len(order)} distinct presence/value combinations"
            else:
                for o, v in zip(out, order):
                    members = [objs[i] for i in range(n_in) if vec[i] == v]
                    first = members[0]
                    want = {k: first.data[k] for k in keys if k in first.data}
                    if o.duration != sum((m.duration for m in members), timedelta(0)):
                        bad = f"merge sums: output duration {o.duration} is not the sum of its group {[m.duration for m in members]}"
                    elif o.timestamp != first.timestamp or o.id is not None:
                        bad = "merge first: output does not carry the first member's timestamp / id None"
                    elif o.data != want or [lab.v(o.data[k]) for k in want] != [lab.v(x) for x in want.values()] \
                            or not strict_eq(o.data, want):       # typed: the very values of the first member (True is not 1)
                        bad = f"merge data: output data {o.data} is not the selected keys of the group's first event {want}"
                    elif id(o) in idx:
                        bad = "merge: an input event object is returned as a group"
                if not bad and sum((o.duration for o in out), timedelta(0)) != sum((o.duration for o in objs), timedelta(0)):
                    bad = "merge total: total duration not conserved"
            if any(any(o.data[k] is i.data.get(k) for i in objs) for o in out for k in o.data if isinstance(o.data[k], list)):
                ck.count("merge:list value object shared with an input event")
    elif kind == "chunk":
        key, p = case[1], case[2]
        wire = [1, lab.k(key), pulse_us(p), inview]
        out = I.c.chunk_events_by_key(objs, key, p)
        outview = []
        prefix = list(itertools.takewhile(lambda o: key in o.data, objs))
        nontrivial = len(prefix) >= 2
        cat = []
        for c in out:
            if set(c.data.keys()) != {key, "subevents"} or c.id is not None:
                bad = f"chunk shape: chunk data keys {list(c.data.keys())}, id {c.id}"
                outview.append(["bad-shape"])
                continue
            subs = c.data["subevents"]
            outview.append([us_of_dt(c.timestamp), us_of_td(c.duration), lab.v(c.data[key]), [view(s, lab) for s in subs]])
            cat += subs
            if not subs:
                bad = "chunk with no subevents"
            elif any(key not in s.data or not (s.data[key] == c.data[key]) for s in subs):
                bad = f"chunk value: subevents do not all carry the chunk's value {c.data[key]!r}"
            elif not strict_eq(c.data[key], subs[0].data[key]):
                bad = f"chunk value: the chunk's value {c.data[key]!r} is not the very value of its first subevent {subs[0].data[key]!r}"
            elif c.duration != sum((s.duration for s in subs), timedelta(0)):
                bad = f"chunk sums: chunk duration {c.duration} is not the sum of its subevents"
            elif c.timestamp != subs[0].timestamp:
                bad = "chunk first: chunk timestamp is not its first subevent's"
        if not bad and [id(s) for s in cat] != [id(o) for o in prefix]:
            if [view(s, lab) for s in cat] == [view(o, lab) for o in prefix]:
                ck.count("chunk:subevents are copies")
            else:
                bad = (f"chunk concatenation: subevents {identity_indices(cat)} do not concatenate back to the key-bearing "
                       f"prefix 0..{len(prefix) - 1}")
        elif not bad and cat:
            ck.count("chunk:subevents are the input event objects (sharing, not modification)")
        if len(prefix) < n_in:
            ck.count("chunk:break at a key-less event")
        if any(a[2] == b[2] for a, b in zip(outview, outview[1:]) if len(a) == 4 and len(b) == 4):
            ck.count("chunk:adjacent chunks with the same value (runs not maximal)")
    elif kind in ("sort_ts", "sort_dur"):
        wire = [2 if kind == "sort_ts" else 3, inview]
        out = (I.s.sort_by_timestamp if kind == "sort_ts" else I.s.sort_by_duration)(objs)
        outview = [view(o, lab) for o in out]
        ii = identity_indices(out)
        keyf = (lambda o: us_of_dt(o.timestamp)) if kind == "sort_ts" else (lambda o: -us_of_td(o.duration))
        ks = [keyf(o) for o in out]
        nontrivial = len(set(ks)) < len(ks)
        if None in ii or sorted(ii) != list(range(n_in)):
            bad = f"sort permutation: output objects {ii} are not a permutation of the input"
        elif any(a > b for a, b in zip(ks, ks[1:])):
            bad = f"sort order: output not ordered ({kind})"
        elif any(ka == kb and ia > ib for (ka, ia), (kb, ib) in zip(zip(ks, ii), list(zip(ks, ii))[1:])):
            bad = f"sort stability: equal keys out of input order {ii}"
        elif out is objs:
            bad = "sort returned the input list object"
    elif kind == "limit":
        count = case[1]
        wire = [4, count, inview]
        out = I.s.limit_events(objs, count)
        outview = [view(o, lab) for o in out]
        ii = identity_indices(out)
        nontrivial = len(out) < n_in
        want = min(count, n_in) if count >= 0 else max(0, n_in + count)
        if ii != list(range(len(out))):
            bad = f"limit prefix: output {ii} is not a prefix of the input"
        elif len(out) != want:
            bad = f"limit length: {len(out)} events for count {count} of {n_in}"
    elif kind == "sum":
        wire = [5, inview]
        out = I.s.sum_durations(objs)
        exact = sum(us_of_td(o.duration) for o in objs)
        got = us_of_td(out)
        dev = abs(got - exact)
        ck.coverage["sum_durations_max_float_deviation_us"] = max(ck.coverage.get("sum_durations_max_float_deviation_us", 0), dev)
        if dev > 1:
            bad = f"sum_durations off by {dev} us (float route) on {[us_of_td(o.duration) for o in objs]}"
        # the model is the exact sum; float rounding of the code is outside the model: compare within the tolerance
        outview = exact if dev <= 1 else got
        nontrivial = n_in >= 2
    elif kind == "concat":
        objs1 = I.objects(case[1]) if getattr(I, "objects", None) else mk(case[1], I.Event)
        snap1 = snapshot(objs1)
        wire = [6, [view(o, lab) for o in objs1], inview]
        out = I.s.concat(objs1, objs)
        outview = [view(o, lab) for o in out]
        nontrivial = bool(objs1) and bool(objs)
        if [id(o) for o in out] != [id(o) for o in objs1 + objs] or out is objs or out is objs1:
            bad = "concat: output is not events1 followed by events2 in a new list"
        bad = bad or unchanged(objs1, snap1, len(case[1]))
    elif kind == "filter":
        key, vals, excl = case[1], case[2], case[3]
        vals_obj = copy.deepcopy(vals)
        wire = [7, lab.k(key), [lab.v(v) for v in vals], bool(excl), inview]
        out = I.f.filter_keyvals(objs, key, vals_obj, exclude=excl)
        other = I.f.filter_keyvals(objs, key, vals_obj, exclude=not excl)
        outview = [view(o, lab) for o in out]
        a, b = (other, out) if excl else (out, other)     # a = kept by filter, b = kept by exclude
        ia, ib = identity_indices(a), identity_indices(b)
        # independent predicate: through the label classes
        lv = set(lab.v(v) for v in vals)
        pred = [key in o.data and lab.v(o.data[key]) in lv for o in objs]
        nontrivial = any(pred) and not all(pred)
        if None in ia or None in ib or ia != sorted(ia) or ib != sorted(ib):
            bad = "filter order: outputs are not order-preserving sub-sequences of the input"
        elif sorted(ia + ib) != list(range(n_in)):
            bad = f"filter partition: filter keeps {ia}, exclude keeps {ib}: not complementary"
        elif ia != [i for i in range(n_in) if pred[i]]:
            bad = f"filter predicate: kept {ia}, predicate true at {[i for i in range(n_in) if pred[i]]}"
        elif vals_obj != vals:
            bad = "filter modified vals"
    else:
        raise ValueError(kind)
    bad = bad or unchanged(objs, snap, len(evs))
    canon = [kind, wire]
    return wire, outview, bad, nontrivial, canon


def describe(case):
    kind = case[0]
    evs = [{"timestamp_us": t, "duration_us": d, "data": x, "id": i} for (t, d, x, i) in case[-1]]
    call = {"merge": "merge_events_by_keys(events, keys)", "chunk": "chunk_events_by_key(events, key, pulsetime)",
            "sort_ts": "sort_by_timestamp(events)", "sort_dur": "sort_by_duration(events)",
            "limit": "limit_events(events, count)", "sum": "sum_durations(events)", "concat": "concat(events1, events)",
            "filter": "filter_keyvals(events, key, vals, exclude)"}[kind]
    r = {"call": call, "events": evs}
    names = {"merge": ["keys"], "chunk": ["key", "pulsetime"], "limit": ["count"], "filter": ["key", "vals", "exclude"],
             "concat": ["events1"]}.get(kind, [])
    for nme, v in zip(names, case[1:-1]):
        r[nme] = v
    return r


def reserved_key_probe(I, ck):
    """key == "subevents" collides with the chunk's own data key; outside the model's domain.
    Recorded as an observation."""
    obs = {}
    for name, val in (("scalar", 1), ("one-element list", ["x"]), ("empty list", [])):
        evs = [mk_event(I.Event, BASE, S, {"subevents": copy.deepcopy(val)}),
               mk_event(I.Event, BASE + S, S, {"subevents": copy.deepcopy(val)})]
        try:
            out = I.c.chunk_events_by_key(evs, "subevents")
            obs[name] = f"{len(out)} chunks; chunk.data['subevents'] is the subevent list, not the value {val!r}"
        except Exception as ex:  # noqa
            obs[name] = f"raises {type(ex).__name__}: {ex}"
    ck.coverage["chunk_key_subevents_probe (outside the model's domain: key != 'subevents')"] = obs


def sum_float_probe(I, ck):
    """sum_durations goes through floats; outside the exact-sum model.  Records how far the float route is from
    the exact sum on large magnitudes (centuries plus microseconds)."""
    worst = (0, None)
    for big_days in (36_500, 365_000, 3_650_000, 36_500_000):
        for frac in (1, 3, 333_333, 999_999):
            durs = [big_days * 86_400 * S + frac, frac, 7 * frac, S // 3]
            evs = [mk_event(I.Event, BASE, d, {}) for d in durs]
            dev = abs(us_of_td(I.s.sum_durations(evs)) - sum(durs))
            if dev > worst[0]:
                worst = (dev, durs)
    ck.coverage["sum_durations_large_magnitude_probe (float route, outside the model)"] = {
        "largest_deviation_us": worst[0], "durations_us": worst[1]}


def main(argv=None):
    ck = Check("C16", argv)
    common.setup_impl_env()
    I = Impl()

    ck.run_witnesses(["w12"])
    ck.prove(extra_targets=["Bridge/BridgeGroup.v", "Bridge/BridgeGroup2.v", "Props/C16own.v"],
             gen_kernels=["group_prelude", "kv_predicate", "filter_keyvals", "sort_by_timestamp", "sort_by_duration",
                          "limit_events", "concat",
                          "group2_prelude", "merge_events_by_keys", "chunk_events_by_key"])
    have_driver = ck.driver()

    n_rand = 6000 if ck.tier == "quick" else 400000
    la_cases = list(gen_lookalikes())
    ck.coverage["lookalike_corpus_cases"] = len(la_cases)
    cases = list(gen_boundary(3 if ck.tier == "quick" else 4)) + la_cases + list(gen_random(ck.rng, n_rand))
    lab = Lab()
    wires, impls = [], []
    sampled = set()
    for case in cases:
        kind = case[0]
        try:
            wire, outview, bad, nontrivial, canon = run_case(case, I, lab, ck)
        except Exception as ex:  # the statement says these functions return
            ck.failing_input(f"C16:{kind} raises", f"{kind} raises {type(ex).__name__}: {ex}", describe(case))
            ck.count(kind + ":raised")
            continue
        wires.append((case, sx(wire)))
        impls.append(outview)
        ck.count(kind)
        ck.count("len=%d" % len(case[-1]))
        if kind == "merge":
            ck.count("merge:keys=%d" % len(case[1]))
        ck.note_case(canon, nontrivial=nontrivial)
        if nontrivial and kind not in sampled and len(case[-1]) >= 3:
            sampled.add(kind)
            d = describe(case)
            d["impl_output_view"] = outview
            ck.sample(d, limit=8)
        if bad:
            d = describe(case)
            d["impl_output_view"] = outview
            ck.failing_input("C16:" + bad.split(":")[0], bad, d)
    from . import c16_hist          # round 3: the query layer, call sequences on live objects, >= 10 001 events
    c16_hist.run(ck, sys.modules[__name__], I, lab, have_driver, cases)
    reserved_key_probe(I, ck)
    sum_float_probe(I, ck)
    if have_driver:
        model = common.run_driver("C16", [w for _, w in wires])
        for (case, w), mo, io in zip(wires, model, impls):
            if mo != io:
                d = describe(case)
                d.update({"wire": w, "model": mo, "impl": io})
                ck.disagreement("group", f"{case[0]}: model {str(mo)[:300]} impl {str(io)[:300]}", d)
    ck.coverage["ties"] = {
        "A (differential, extracted model)": ["merge_events_by_keys", "chunk_events_by_key", "sort_by_timestamp",
                                              "sort_by_duration", "limit_events", "sum_durations (within 1 us)",
                                              "concat", "filter_keyvals"],
        "B (regenerated from source + bridge lemma)": ["filter_keyvals and its predicate", "sort_by_timestamp",
                                                       "sort_by_duration", "limit_events", "concat",
                                                       "merge_events_by_keys", "chunk_events_by_key"]}
    ck.assumptions += [
        "key strings enter the model as integer labels; values as one label per Python-== class of the hashable-ised "
        "value (list -> tuple; the classes of a Python dict keyed by the value itself); values are "
        "str/int/float (no NaN)/bool/None/flat lists of those",
        "pulsetime enters the model as the integer microseconds Python's timedelta(seconds=p) yields",
        "chunk_events_by_key: key != 'subevents' (the chunk's own data key) is the model's domain; probed separately",
        "sum_durations: the model is the exact integer sum; the code's float route is compared within 1 us "
        "(largest deviation seen is in coverage.sum_durations_max_float_deviation_us)",
        "'none of these modify their input': theorems over the heap-level model (Props/C16own.v: FRAME for every heap and "
        "aliasing, SHARING stated exactly, refinement to Model/Group.v), tied by harness/theap2.py (sharing graphs + "
        "before/after snapshots with aliasing inputs); the before/after comparison of this harness still runs"]
    from . import theap2           # heap-level model of the C16 transforms (Props/C16own.v), tie A with aliasing
    theap2.heap_check(ck, "C16", have_driver=theap2.prepare(ck, "C16"))
    return ck.finish(RULE)


if __name__ == "__main__":
    sys.exit(main())
