"""C20 — load_config_toml / _merge / _comment_out_toml: correspondence with Model/Config.v and
the property statement evaluated on the implementation (effective configuration, file bytes)."""
import builtins
import datetime
import os
import shutil
import sys
import tempfile

from . import common
from . import c20_gen as G
from .common import Check, sx

RULE = ("boundary corpus (22 small documents squared: every scalar type change 1/1.0/true/\"1\", value<->table "
        "conflicts, tables to depth 3, dotted headers and keys, out-of-order tables, [[array-of-tables]], "
        "multi-line values, CRLF, no final newline; each also with no existing file; round 2: 146 first-run documents "
        "with one line that contains U+2028 / U+2029 / U+0085 (in a basic or literal string, a comment, a trailing "
        "comment, a quoted key) followed by a header / array-header / key / comment look-alike, those three "
        "between a number and the end of the line, VT / FF / FS / GS / RS in a comment (not TOML)) then seeded random pairs "
        "(1.5 % of the strings, comments, trailing comments and 0.75 % of the keys carry such a character) "
        "(independent documents over one small key alphabet, and user files derived from the defaults), every "
        "case through the real load_config_toml under a fresh XDG_CONFIG_HOME, with a second and third load "
        "after a first-run write.  Round 5: 30 application names (dots: version suffixes, reverse-DNS, leading / trailing / doubled dot, "
        "a name ending in .toml; unicode letters; spaces and shell characters; 200-250 bytes) each with a user file (half of them "
        "put in place by save_config_toml) and as a first run, 20 % of the random cases under such a name; loads during which the "
        "READ of the existing file fails (OSError EIO / EACCES / ESTALE / EINTR / EMFILE / ETIMEDOUT raised once by the read-mode "
        "open, EIO / ESTALE / EISDIR by f.read(), the file in mode 0200 / 0000 under an unprivileged effective uid, a file that "
        "is not UTF-8) on 4 document pairs x 12 faults and 6 % of the random cases with a user file, each followed by an ordinary load; "
        "non-trivial = distinct case in which the user file sets at least one key "
        "the defaults also have, or a first-run file was written and re-read")

APP = G.APP_DEFAULT
OLD_NS = 1_000_000_000 * 10 ** 9      # mtime given to a pre-existing user file
UNPRIVILEGED = 65534                  # effective uid/gid of a load that must not be able to read a mode-0200 file (when root)


# ---------------------------------------------------------------------------------------
# canonical values


def typed(v):
    """Exact (type, value) description of a leaf."""
    if hasattr(v, "unwrap"):
        v = v.unwrap()
    if isinstance(v, bool):
        return ("bool", v)
    if isinstance(v, int):
        return ("int", int(v))
    if isinstance(v, float):
        return ("float", repr(float(v)))
    if isinstance(v, str):
        return ("str", str(v))
    if isinstance(v, (list, tuple)):
        return ("list", tuple(typed(x) for x in v))
    if isinstance(v, dict):
        return ("dict", tuple((str(k), typed(x)) for k, x in v.items()))
    if isinstance(v, (datetime.datetime, datetime.date, datetime.time)):
        return (type(v).__name__, v.isoformat())
    return ("other", repr(v))


def plain(x, AoT):
    """A value as _merge sees it: ("T", [(key, value)...]) for every dict, ("A", [tables]) for a
    [[array-of-tables]], ("L", exact typed leaf) for everything else; key order = iteration order."""
    if isinstance(x, dict):
        return ("T", [(str(k), plain(v, AoT)) for k, v in x.items()])
    if isinstance(x, AoT):
        return ("A", [plain(e, AoT) for e in x])
    return ("L", typed(x))


def gen_value(v):
    """value of the generator -> same canonical form"""
    if v[0] == "T":
        return ("T", [(k, gen_value(x)) for k, x in v[1]])
    return ("L", typed(v[1]))


def canon_typed(t):
    if t[0] == "dict":
        return ("dict", tuple(sorted((k, canon_typed(v)) for k, v in t[1])))
    if t[0] == "list":
        return ("list", tuple(canon_typed(x) for x in t[1]))
    return t


def as_typed(p):
    if p[0] == "T":
        return ("dict", tuple(sorted((k, as_typed(v)) for k, v in p[1])))
    if p[0] == "A":
        return ("list", tuple(as_typed(x) for x in p[1]))
    return canon_typed(p[1])


def unordered(p):
    """Canonical form for comparing values as mappings: tables compared without key order; an
    [[array-of-tables]] and an inline array of inline tables with the same content are the same
    value (since baead4f load_config_toml returns plain dicts and lists)."""
    if p[0] == "T":
        return ("T", tuple(sorted((k, unordered(v)) for k, v in p[1])))
    return ("L", as_typed(p))


def key_order(p):
    """Key order of a table and of its sub-tables (what C20_merge_keys speaks about)."""
    if p[0] == "T":
        return tuple((k, key_order(v)) for k, v in p[1])
    return None


def overlay_spec(d, u):
    """The property statement, computed without following _merge's loop: at every level the
    user's value for each key the user sets, the default for every key it does not, keys that
    only the user has are kept; two tables are overlaid recursively."""
    dd, uu = dict(d[1]), dict(u[1])
    out = []
    for k in sorted(set(dd) | set(uu)):
        if k not in uu:
            out.append((k, dd[k]))
        elif k in dd and dd[k][0] == "T" and uu[k][0] == "T":
            out.append((k, overlay_spec(dd[k], uu[k])))
        else:
            out.append((k, uu[k]))
    return ("T", out)


def section_replaces_value(d, u):
    """Does the user's file put a table / array of tables where the defaults have another kind of value?"""
    dd = dict(d[1])
    for k, uv in u[1]:
        if k in dd:
            if dd[k][0] == "T" and uv[0] == "T":
                if section_replaces_value(dd[k], uv):
                    return True
            elif uv[0] in ("T", "A"):
                return True
    return False


def inline_table_paths(doc):
    """Paths at which the document defines an inline table ({...} value), nested ones included."""
    out, cur = [], []

    def walk(path, v):
        if v[0] == "T":
            out.append(path)
            for k, x in v[1]:
                walk(path + [k], x)

    for m in doc.model_lines():
        if m[0] in ("header", "aot"):
            cur = list(m[1])
        elif m[0] == "kv":
            walk(cur + list(m[1]), m[2])
    return out


def section_paths(doc):
    """Paths at which the document creates a [table] / [[array]] section item or a dotted-key table."""
    out, cur = [], []
    for m in doc.model_lines():
        if m[0] in ("header", "aot"):
            cur = list(m[1])
            out.append(cur)
        elif m[0] == "kv" and len(m[1]) > 1:
            out.append(cur + list(m[1][:-1]))
    return out


def section_under_inline_table(d, u):
    """The structural condition of the open known finding C20:overlay:section-into-inline-table: the
    defaults define an inline table at some path and the user's file creates a section (a [table] /
    [[array]] header or a dotted-key table) strictly below that path."""
    if u is None:
        return False
    qs = inline_table_paths(d)
    return any(len(p) > len(q) and p[:len(q)] == q for q in qs for p in section_paths(u))


def split_array_paths(doc):
    """[[p]] header paths of the document whose occurrences are separated by a section header that is not
    below p (tomlkit then represents an enclosing table as an OutOfOrderTableProxy holding p twice)."""
    out = []
    seq = [(m[0], list(m[1])) for m in doc.model_lines() if m[0] in ("header", "aot")]
    for i, (k, p) in enumerate(seq):
        if k != "aot" or p in out:
            continue
        between = False
        for k2, p2 in seq[i + 1:]:
            if k2 == "aot" and p2 == p:
                if between:
                    out.append(p)
                    break
            elif p2[:len(p)] != p:
                between = True
    return out


def user_sets_split_array(d, pu):
    """Structural condition of the finding C20:overlay:split-array-of-tables: the user's document has a
    value at the path of a split [[array]] of the defaults."""
    if pu is None or pu[0] != "T":
        return False
    for p in split_array_paths(d):
        v = pu
        for k in p:
            nxt = dict(v[1]).get(k) if v[0] == "T" else None
            if nxt is None:
                v = None
                break
            v = nxt
        if v is not None:
            return True
    return False


class Lab:
    def __init__(self):
        self.keys = {}
        self.leaves = {}
        self.rkeys = {}
        self.rleaves = {}

    def key(self, k):
        if k not in self.keys:
            self.keys[k] = len(self.keys) + 1
            self.rkeys[self.keys[k]] = k
        return self.keys[k]

    def leaf(self, t):
        if t not in self.leaves:
            self.leaves[t] = len(self.leaves) + 1
            self.rleaves[self.leaves[t]] = t
        return self.leaves[t]

    def wire(self, p):
        if p[0] == "T":
            return [1] + [[self.key(k), self.wire(v)] for k, v in p[1]]
        if p[0] == "A":
            return [2] + [self.wire(e) for e in p[1]]
        return [0, self.leaf(p[1])]

    def unwire(self, w):
        if w[0] == 1:
            return ("T", [(self.rkeys[e[0]], self.unwire(e[1])) for e in w[1:]])
        if w[0] == 2:
            return ("A", [self.unwire(e) for e in w[1:]])
        return ("L", self.rleaves[w[1]])

    def line(self, m):
        if m[0] == "blank":
            return [0]
        if m[0] == "comment":
            return [1]
        if m[0] == "header":
            return [2] + [self.key(k) for k in m[1]]
        if m[0] == "aot":
            return [3] + [self.key(k) for k in m[1]]
        if m[0] == "kv":
            return [4, [self.key(k) for k in m[1]], self.wire(gen_value(m[2]))]
        return [5, 1 if m[1] else 0]

    def doc(self, d):
        return [self.line(m) for m in d.model_lines()]


# ---------------------------------------------------------------------------------------
# running the implementation


class Impl:
    def __init__(self):
        import tomlkit
        import tomlkit.items
        import aw_core.config as cfg
        self.tomlkit = tomlkit
        self.AoT = tomlkit.items.AoT
        self.cfg = cfg
        self.trace = []
        self.path = None
        self.tmp = None
        self.app = APP
        self.fault = None          # read fault armed for the next read-mode open of the configuration file (one-shot)
        self.fault_fired = None
        self.other = []            # opens of other paths below the configuration home

        def tracing_open(file, mode="r", *a, **k):
            p = os.path.abspath(os.fspath(file)) if isinstance(file, (str, os.PathLike)) else None
            if self.path is not None and p == self.path:
                self.trace.append(("open", mode))
                if self.fault is not None and self.fault[0] in ("open", "read") and not set(mode) & set("wax+"):
                    kind, code = self.fault
                    self.fault, self.fault_fired = None, (kind, code)
                    if kind == "open":
                        raise OSError(code, os.strerror(code), str(file))
                    return FailingReader(builtins.open(file, mode, *a, **k), code, str(file))
            elif p is not None and self.tmp is not None and p.startswith(self.tmp + os.sep):
                self.other.append((os.path.relpath(p, self.tmp), mode))
            return builtins.open(file, mode, *a, **k)

        cfg.open = tracing_open            # module global shadows the builtin inside config.py
        real_isfile = os.path.isfile

        def tracing_isfile(p):
            r = real_isfile(p)
            if self.path is not None and os.path.abspath(str(p)) == self.path:
                self.trace.append(("isfile", r))
            return r

        os.path.isfile = tracing_isfile

    def parse(self, text):
        try:
            doc = self.tomlkit.parse(text)
        except Exception as ex:          # tomlkit raises ParseError / TOMLKitError subclasses
            return ("EXC", type(ex).__name__)
        try:
            return plain(doc, self.AoT)
        except Exception as ex:
            # tomlkit accepted the text but cannot read its own document back (seen: KeyAlreadyPresent
            # from OutOfOrderTableProxy for `[[a.t]] / [b.t] / [a.t.t]`): no expected value exists
            return ("UNREADABLE", type(ex).__name__)

    def parse_unwrapped(self, text):
        """what load_config_toml hands to _merge: tomlkit.parse(text).unwrap()"""
        return plain(self.tomlkit.parse(text).unwrap(), self.AoT)

    def comment_out(self, text):
        return self.cfg._comment_out_toml(text)

    def fresh(self, app=APP):
        tmp = tempfile.mkdtemp(prefix="awverif-c20-")
        os.environ["XDG_CONFIG_HOME"] = tmp
        self.tmp = tmp
        self.app = app
        # the file of an application: <config home>/activitywatch/<appname>/<appname>.toml, whatever characters the name has
        self.path = os.path.join(tmp, "activitywatch", app, app + ".toml")
        self.other = []

    def put_user_file(self, text, via_save=False, prefix=b""):
        """the user's file: written here, or by the library's own save_config_toml (the location it uses itself)"""
        if via_save:
            self.cfg.save_config_toml(self.app, text)
            self.other = []
            if not os.path.isfile(self.path):
                return False
        else:
            os.makedirs(os.path.dirname(self.path), exist_ok=True)
            with builtins.open(self.path, "wb") as f:
                f.write(prefix + text.encode("utf-8"))
        os.utime(self.path, ns=(OLD_NS, OLD_NS))
        return True

    def strays(self):
        """regular files below the configuration home other than the application's file"""
        out = []
        for d, _, fs in os.walk(self.tmp):
            for f in fs:
                if os.path.join(d, f) != self.path:
                    out.append(os.path.relpath(os.path.join(d, f), self.tmp))
        return sorted(out)

    def stat(self):
        if not os.path.lexists(self.path):
            return None
        st = os.stat(self.path)
        with builtins.open(self.path, "rb") as f:
            return (f.read(), st.st_mtime_ns, st.st_ino)

    def load(self, default_text, fault=None):
        before = self.stat()
        self.trace = []
        self.fault, self.fault_fired, self.exc = None, None, None
        dropped = False
        if fault is not None and fault[0] == "chmod":
            os.chmod(self.path, fault[1])
            self.fault_fired = ("chmod", fault[1])
            if os.geteuid() == 0:
                # root may read every file: the load runs under an unprivileged effective uid that owns the tree
                for dp, _, fs in os.walk(self.tmp):
                    for x in [dp] + [os.path.join(dp, f) for f in fs]:
                        os.chown(x, UNPRIVILEGED, UNPRIVILEGED)
                os.seteuid(UNPRIVILEGED)
                dropped = True
        elif fault is not None and fault[0] in ("open", "read"):
            self.fault = fault
        try:
            value = plain(self.cfg.load_config_toml(self.app, default_text), self.AoT)
        except Exception as ex:
            value = ("EXC", type(ex).__name__)
            self.exc = ex
        finally:
            self.fault = None
            if dropped:
                os.seteuid(0)
            if fault is not None and fault[0] == "chmod":
                os.chmod(self.path, 0o644)
        trace = self.trace
        self.trace = []
        return value, before, self.stat(), trace

    def done(self):
        self.path = None
        shutil.rmtree(self.tmp, ignore_errors=True)


class FailingReader:
    """a file object whose reads raise OSError(code): the open succeeded, the device fails afterwards"""

    def __init__(self, f, code, name):
        self._f, self._code, self._name = f, code, name

    def _fail(self, *a, **k):
        raise OSError(self._code, os.strerror(self._code), self._name)

    read = readline = readlines = __next__ = _fail

    def __iter__(self):
        return self

    def __enter__(self):
        return self

    def __exit__(self, *exc):
        self._f.close()
        return False

    def __getattr__(self, name):
        return getattr(self._f, name)


def trace_of_model_f(tr):
    out = []
    for e in tr:
        if e[0] == 0:
            out.append(("isfile", bool(e[1])))
        elif e[0] == 1:
            out.append(("open", "r"))
        elif e[0] == 3:
            out.append(("open", "r"))          # the failed read is an open for reading too (the exception class is in the value)
        else:
            out.append(("open", "w"))
    return out


def trace_of_model(tr):
    out = []
    for e in tr:
        if e[0] == 0:
            out.append(("isfile", bool(e[1])))
        elif e[0] == 1:
            out.append(("open", "r"))
        else:
            out.append(("open", "w"))
    return out


# ---------------------------------------------------------------------------------------


P_APP = 0.2          # share of the random cases that run under another application name
P_FAULT = 0.06       # share of the random cases with a user file whose read fails


def gen_cases(ck):
    """(stream, default, user | None, opts); opts: app (application name), fault (a read fault, only with a user file),
    via_save (the user's file is put in place by save_config_toml)"""
    rng = ck.rng
    for d, u in G.corpus_pairs():
        yield "corpus", d, u, {}
    # round 5: application names (dots, leading / trailing dot, unicode, long): one overlay with keys on both sides and
    # user-only tables, one first run with later loads, per name
    d1, u1 = [G.build(ops) for ops in G.fault_corpus()[0]]
    for i, app in enumerate(G.APP_NAMES):
        yield "corpus-appname", d1, u1, {"app": app, "via_save": i % 2 == 0}
        yield "corpus-appname", d1, None, {"app": app}
    # round 5: the read of the existing file fails
    for k, (dops, uops) in enumerate(G.fault_corpus()):
        for j, fault in enumerate(G.READ_FAULTS):
            yield "corpus-read-fault", G.build(dops), G.build(uops), {"fault": fault,
                                                                       "app": G.APP_NAMES[(j + k) % 4] if (j + k) % 3 == 0 else APP}
    n = int(os.environ.get("VERIF_C20_N", "0")) or (1500 if ck.tier == "quick" else 60000)
    for i in range(n):
        r = rng.random()
        opts = {}
        if rng.random() < P_APP:
            opts["app"] = G.rand_app_name(rng)
        if r < 0.30:
            d = G.gen_doc(rng, allow_ml=rng.random() < 0.15, aot_sub=rng.random() < 0.1)
            yield "random-nofile", d, None, opts
            continue
        if rng.random() < P_FAULT:
            opts["fault"] = rng.choice(G.READ_FAULTS)
        if r < 0.60:
            d = G.gen_doc(rng, allow_ml=rng.random() < 0.1)
            yield "random-independent", d, G.gen_doc(rng, allow_ml=rng.random() < 0.2), opts
        else:
            d = G.gen_doc(rng, allow_ml=rng.random() < 0.1, size=rng.choice([3, 5, 8, 12, 16, 24]))
            yield "random-derived", d, G.gen_user_from(rng, d, allow_ml=rng.random() < 0.2), opts


# str.isspace() characters (CPython 3) and look-alikes that are not (NUL, BS, ZWSP, WORD JOINER, BOM, U+180E, U+0084, U+0086)
WS_PROBE = [chr(c) for c in [9, 10, 11, 12, 13, 28, 29, 30, 31, 32, 133, 160, 5760] + list(range(8192, 8203)) +
            [8232, 8233, 8239, 8287, 12288, 0, 8, 27, 127, 132, 134, 6158, 8203, 8288, 65279]]

RAW_INVALID = ["a = \n", "a = 1\na = 2\n", "[t\nx = 1\n", "= 1\n", "[t]\n[t]\n", "a = 1 b = 2\n", "[[a]]\n[a]\n"]


def main(argv=None):
    ck = Check("C20", argv)
    common.setup_impl_env()
    impl = Impl()
    if ck.prove(extra_targets=["Bridge/BridgeConfig.v", "Props/C20Text.v", "Props/C20Faults.v"], gen_kernels=["_merge"]):
        for extra in ("Props/C20Text.v", "Props/C20Faults.v"):
            ok_ax, ax = common.print_assumptions(extra, ck.log)
            if ok_ax:
                ck.axioms.update(ax)
            else:
                ck.broken.append("Print Assumptions pass failed on " + extra)
    have_driver = ck.driver()
    # second extracted model (round 2): _comment_out_toml on the text, Model/ConfigText.v
    have_text_driver, out = common.build_driver("C20Text", ck.log, "ExC20Text")
    if not have_text_driver:
        ck.broken.append("text model no longer extracts/compiles: " + out[-300:])
    # third extracted model (round 5): the I/O script with a read that may fail, Model/ConfigFaults.v
    have_fault_driver, out = common.build_driver("C20Faults", ck.log, "ExC20Faults")
    if not have_fault_driver:
        ck.broken.append("fault-script model no longer extracts/compiles: " + out[-300:])
    text_cases = {}      # text -> replay
    ck.run_witnesses(["w15", "w20"])

    lab = Lab()
    wire = []            # driver cases
    expect = []          # (kind, payload) parallel to wire: what to compare the model's answer with

    def ask(case, kind, payload):
        wire.append(sx(case))
        expect.append((kind, payload))

    def check_untouched(tag, before, after, trace, replay):
        if before is not None and (after is None or after != before or ("open", "w") in trace):
            what = "deleted" if after is None else ("bytes changed" if after[0] != before[0] else
                                                    "rewritten (mtime/inode changed or opened for writing)")
            ck.failing_input("C20:user-file-altered", f"{tag}: an existing configuration file was altered: {what}",
                             dict(replay, file_before=before[0].decode("utf-8", "replace"),
                                  file_after=None if after is None else after[0].decode("utf-8", "replace")))

    is_root = hasattr(os, "geteuid") and os.geteuid() == 0
    can_drop = False
    if is_root:
        try:
            os.seteuid(UNPRIVILEGED)
            try:
                # the unprivileged load must be able to REACH the file: every ancestor of the temp directory has to
                # be traversable by that uid (a TMPDIR below a 0700 directory is not), otherwise the stream is skipped
                import tempfile as _tf
                can_drop = os.access(_tf.gettempdir(), os.R_OK | os.X_OK, effective_ids=True)
            finally:
                os.seteuid(0)
        except OSError:
            pass
    fault_wire, fault_expect = [], []

    for stream, d, u, opts in gen_cases(ck):
        ck.count(stream)
        app, fault = opts.get("app", APP), (opts.get("fault") if u is not None else None)
        if fault is not None and fault[0] == "chmod" and is_root and not can_drop:
            ck.count("read fault by file mode (0200 / 0000) skipped: the harness runs as root and cannot change its effective uid (or the temp directory is not reachable for the unprivileged uid)")
            fault = None
        replay = {"default_config": d.text, "user_file": None if u is None else u.text, "appname": app,
                  "call": f"XDG_CONFIG_HOME=<fresh dir>; load_config_toml({app!r}, default_config)"
                          + ("" if u is None else " with <dir>/activitywatch/<appname>/<appname>.toml = user_file")}
        if app != APP:
            ck.count("application name other than %r" % APP + (": with a dot" if "." in app else "")
                     + (": with a user file" if u is not None else ": first run"))
        pd = impl.parse(d.text)
        # the user's file is read in text mode: universal newlines turn "\r\n" into "\n" before tomlkit sees it
        pu = None if u is None else impl.parse(u.text.replace("\r\n", "\n").replace("\r", "\n"))
        if pd[0] == "UNREADABLE" or (pu is not None and pu[0] == "UNREADABLE"):
            ck.count("tomlkit cannot read back a document it parsed (out-of-order sub-table of an array element): skipped")
            continue

        # ---- line level: the code's per-line decision and tomlkit's reading of both texts
        for doc, ptk in ((d, pd), (u, pu)):
            if doc is None:
                continue
            commented = impl.comment_out(doc.text)
            text_cases.setdefault(doc.text, (commented, dict(replay, text=doc.text)))
            in_lines, out_lines = doc.text.split("\n"), commented.split("\n")
            if len(in_lines) != len(out_lines) or len(in_lines) != len(doc.lines):
                ck.disagreement("comment_out", "line count changed", dict(replay, text=doc.text))
                continue
            kept = []
            for a, b in zip(in_lines, out_lines):
                kept.append(1 if a == b else (0 if b == "#" + a else -1))
            ptc = impl.parse(commented)
            ask([1, lab.doc(doc)], "lines", (doc, kept, ptk, ptc, dict(replay, text=doc.text, commented=commented)))

        # ---- the implementation, through load_config_toml
        impl.fresh(app)
        if u is not None:
            placed = True
            if opts.get("via_save"):
                try:
                    placed = impl.put_user_file(u.text, via_save=True)
                except Exception as ex:
                    placed = False
                    replay["save_config_toml"] = "raised " + type(ex).__name__
                if not placed:
                    ck.disagreement("config-path", f"save_config_toml({app!r}, text) did not leave the text in <config dir>/<appname>.toml "
                                    f"(files: {impl.strays()})", dict(replay))
                else:
                    ck.count("user file put in place by save_config_toml")
            if not placed or not opts.get("via_save"):
                impl.put_user_file(u.text, prefix=(b"\xff\xfe# not utf-8\n" if fault is not None and fault[0] == "undecodable" else b""))
        if fault is not None:
            # ---- round 5: a load during which the READ of the existing file fails.  The file is as it was, whatever the
            # load answers; the load after it (below) has the user's values.
            what = {"open": "the read-mode open of the file raises OSError(%s) once", "read": "f.read() raises OSError(%s) once",
                    "chmod": "the file has mode %s while the load runs", "undecodable": "the file starts with the bytes FF FE '# not utf-8' LF, which are not UTF-8, followed by user_file%.0s"}[fault[0]] \
                % (oct(fault[1]) if fault[0] == "chmod" else (os.strerror(fault[1]) if fault[1] else ""))
            replay = dict(replay, read_fault=what)
            v0, before0, after0, trace0 = impl.load(d.text, fault)
            ck.count("load with a failing read of the existing file: " + fault[0] + (" -> raised" if v0[0] == "EXC" else " -> answered"))
            check_untouched(f"load during which the read of the existing file fails ({what}; the load "
                            f"{'raised ' + v0[1] if v0[0] == 'EXC' else 'returned ' + str(v0)})", before0, after0, trace0, replay)
            if pd[0] != "EXC" and d.one_line:
                fault_wire.append(sx([lab.doc(d), [lab.doc(u)], 5 if fault[0] == "undecodable" else 10]))
                fault_expect.append((v0, impl.exc, trace0, impl.fault_fired, fault, replay))
            if fault[0] == "undecodable":
                if impl.strays() or impl.other:
                    ck.disagreement("io-script", f"files other than <appname>.toml were touched: {impl.strays()} {impl.other}", replay)
                impl.done()
                ck.note_case([d.text, u.text, app, list(fault)], nontrivial=pd[0] != "EXC")
                continue
        v1, before1, after1, trace1 = impl.load(d.text)
        loads = [(v1, trace1, after1)]
        check_untouched("load with an existing file", before1, after1, trace1, replay)
        if pd[0] == "EXC":
            ck.count("default-rejected-by-tomlkit")
            if v1[0] != "EXC" or after1 != before1:
                ck.failing_input("C20:invalid-default-written", "defaults that are not valid TOML did not raise before "
                                 "the file system was touched", replay)
        elif u is not None:
            if pu[0] == "EXC":
                ck.count("user-file-rejected-by-tomlkit")
            else:
                want = overlay_spec(pd, pu)
                if v1[0] == "EXC" or unordered(v1) != unordered(want):
                    ck.failing_input("C20:overlay", f"effective configuration is not defaults overlaid by the user's file: "
                                     f"got {v1}, expected {want}", dict(replay, got=v1, expected=want))
                shared = any(k in dict(pd[1]) for k, _ in pu[1])
                ck.count("user-sets-a-default-key" if shared else "user-keys-disjoint")
        else:
            # first run: effective configuration = defaults, the file is created; later loads
            if v1[0] == "EXC" or unordered(v1) != unordered(pd):
                ck.failing_input("C20:first-run:first-load", f"first load does not return the defaults: {v1}",
                                 dict(replay, got=v1, expected=pd))
            if after1 is None:
                ck.failing_input("C20:first-run:no-file-written", "no configuration file was written", replay)
            for nth in (2, 3):
                vn, bn, an, tn = impl.load(d.text)
                loads.append((vn, tn, an))
                check_untouched(f"load number {nth} after the first-run write", bn, an, tn, replay)
                if not d.one_line:
                    ck.count("first-run-with-multi-line-values (later loads not required to equal defaults)")
                    continue
                if vn[0] == "EXC" or unordered(vn) != unordered(pd):
                    sig = ("C20:first-run:header-under-array-of-tables" if d.header_under_aot
                           else "C20:first-run:later-load-differs")
                    ck.failing_input(sig, f"load number {nth} after the first-run write does not return the defaults: "
                                     f"got {vn}, defaults {pd}",
                                     dict(replay, got=vn, expected=pd,
                                          written_file=None if after1 is None else after1[0].decode("utf-8", "replace")))
        if impl.strays() or impl.other:
            # the model's file system is the one file <config dir>/<appname>.toml
            ck.disagreement("io-script", f"load_config_toml({app!r}, ...) touched files other than <appname>.toml below the configuration "
                            f"home: files {impl.strays()}, opens {impl.other[:4]}", replay)
        impl.done()

        # ---- the model
        if pd[0] != "EXC" and pu is not None and pu[0] != "EXC":
            # _merge's own arguments: both documents unwrapped to plain dicts (key order as unwrap gives it)
            ad = impl.parse_unwrapped(d.text)
            au = impl.parse_unwrapped(u.text.replace("\r\n", "\n").replace("\r", "\n"))
            ask([0, lab.wire(ad), lab.wire(au)], "merge", (v1, replay))
        subset = d.one_line and (u is None or u.one_line)
        ask([2, lab.doc(d), [] if u is None else [lab.doc(u)]], "load",
            (d, u, loads, pd, pu, subset, replay))
        if u is None and d.one_line and pd[0] != "EXC" and after1 is not None:
            # later loads: the model re-reads the document the *code* wrote (its per-line decisions)
            outl = after1[0].decode().split("\n")
            raws = [r for _, r in d.lines]
            if len(outl) == len(raws):
                written = [l if o == r else [1] for l, o, r in zip(lab.doc(d), outl, raws)]
                ask([2, lab.doc(d), [written]], "load-again", (d, loads, pd, replay))

        nontrivial = (u is None and pd[0] != "EXC") or (u is not None and pd[0] != "EXC" and pu[0] != "EXC"
                                                         and any(k in dict(pd[1]) for k, _ in pu[1]))
        ck.note_case([d.text, None if u is None else u.text] + ([app] if app != APP else []) + ([list(fault)] if fault else []),
                     nontrivial=nontrivial)
        ck.count("default lines=%d" % min(len(d.lines), 20))
        if G.has_line_separator(d.text):
            ck.count("default has a line with a character at which str.splitlines() splits (U+2028/U+2029/U+0085/VT/FF/FS/GS/RS)"
                     + (": first run" if u is None else ""))
        if u is not None and G.has_line_separator(u.text):
            ck.count("user file has a line with a character at which str.splitlines() splits")
        if d.header_under_aot:
            ck.count("default has a [table] under an [[array]]")
        if section_under_inline_table(d, u):
            ck.count("condition of the fixed finding section-into-inline-table (baead4f) exercised")
        if pu is not None and user_sets_split_array(d, pu):
            ck.count("condition of the fixed finding split-array-of-tables (baead4f) exercised")
        if len(ck.samples) < 5 and u is not None and len(u.lines) > 3 and pu[0] != "EXC" and pd[0] != "EXC":
            ck.sample({"default_config": d.text, "user_file": u.text, "effective": v1})

    # ---- malformed stream: no line model, only the file-system clauses
    for bad in RAW_INVALID:
        for role in ("default", "user"):
            ck.count("malformed-" + role)
            impl.fresh()
            replay = {"default_config": bad if role == "default" else "a = 1\n",
                      "user_file": bad if role == "user" else None}
            if role == "user":
                impl.put_user_file(bad)
            v, b, a, tr = impl.load(replay["default_config"])
            ck.note_case([role, bad], nontrivial=False)
            check_untouched("malformed " + role, b, a, tr, replay)
            if v[0] != "EXC":
                ck.count("malformed-accepted-by-tomlkit")
            elif role == "default" and (a is not None or tr):
                ck.failing_input("C20:invalid-default-written", "invalid defaults touched the file system", replay)
            impl.done()

    # ---- compare with the model
    if have_driver:
        res = common.run_driver("C20", wire)
        for (kind, payload), w, mo in zip(expect, wire, res):
            if mo in ([-999], [-998]):
                ck.disagreement("wire", "driver could not decode a case", {"case": w})
                continue
            if kind == "merge":
                v1, replay = payload
                mv = lab.unwire(mo)
                if v1[0] == "EXC" or unordered(v1) != unordered(mv):
                    ck.disagreement("merge", f"model _merge and load_config_toml differ: model {mv} impl {v1}",
                                    dict(replay, case=w, model=mo, impl=v1))
                elif key_order(v1) != key_order(mv):
                    # load_config_toml returns _merge's plain dict: insertion order is the order C20_merge_keys states
                    ck.disagreement("merge-key-order", f"same mapping, different key order: model {key_order(mv)} "
                                    f"impl {key_order(v1)}", dict(replay, case=w, model=mo, impl=v1))
                else:
                    ck.count("merge agrees incl. key order at every table level")
            elif kind == "lines":
                doc, kept, ptk, ptc, replay = payload
                mkept, mparse, mparse_c = mo
                if mkept != kept:
                    ck.disagreement("comment_out", f"per-line decision differs: model keeps {mkept}, code keeps {kept}",
                                    dict(replay, case=w))
                for what, mp, tk in (("document", mparse, ptk), ("commented-out document", mparse_c, ptc)):
                    if what == "commented-out document" and not doc.one_line:
                        continue
                    if tk[0] == "EXC":
                        ck.count(f"tomlkit rejects {what}; model says " + ("error" if mp[0] != 0 else "ok (model is lenient)"))
                        continue
                    if mp[0] != 0:
                        if doc.one_line:
                            ck.disagreement("tomlkit-oracle", f"line model rejects a {what} tomlkit accepts",
                                            dict(replay, case=w, model=mp, tomlkit=tk))
                        else:
                            ck.count("document outside the line-model subset (multi-line value)")
                        continue
                    ck.count(f"tomlkit agrees with parse_lines on {what}?")
                    if mp[1] != lab.wire(tk):
                        ck.disagreement("tomlkit-oracle", f"tomlkit and the line model read a {what} differently",
                                        dict(replay, case=w, model=mp[1], tomlkit=lab.wire(tk)))
            elif kind == "load-again":
                d, loads, pd, replay = payload
                mval, mfile, mtrace = mo
                for nth, (vn, tn, an) in enumerate(loads[1:], 2):
                    iw = None if vn[0] == "EXC" else unordered(vn)
                    mw = unordered(lab.unwire(mval[1])) if mval[0] == 0 else None
                    if iw is None and mw is not None and d.header_under_aot:
                        # the written file repeats a [table] header (one per array element in the defaults);
                        # tomlkit rejects the repeat, the line model's reading re-opens the table.  Only under
                        # the condition of the known finding C20:first-run:header-under-array-of-tables.
                        ck.count("later load raises on a repeated [table] header (known finding); model reading is lenient")
                    elif iw != mw:
                        ck.disagreement("load-again", f"load number {nth} after the first-run write: model {mval} impl {vn}",
                                        dict(replay, case=w))
                    if trace_of_model(mtrace) != tn:
                        ck.disagreement("io-script", f"file operations of load number {nth} differ: model "
                                        f"{trace_of_model(mtrace)} impl {tn}", dict(replay, case=w))
            else:
                d, u, loads, pd, pu, subset, replay = payload
                mval, mfile, mtrace = mo
                v1, trace1, after1 = loads[0]
                # file operations: compared on every case in which both sides accept the defaults
                if pd[0] != "EXC" and d.one_line:
                    if trace_of_model(mtrace) != trace1:
                        ck.disagreement("io-script", f"file operations differ: model {trace_of_model(mtrace)} impl {trace1}",
                                        dict(replay, case=w))
                    if u is None and mfile:
                        mk = [1 if l in ([0], ) or l[0] == 2 or l == [5, 1] else 0 for l in mfile[0]]
                        raws = [r for _, r in d.lines]
                        want = "\n".join(r if k else "#" + r for r, k in zip(raws, mk)).encode()
                        # model's written document: kept lines verbatim, the rest comment lines
                        if after1 is None or after1[0] != want:
                            ck.disagreement("io-script", "first-run file differs from the model's comment_out",
                                            dict(replay, case=w, want=want.decode(), got=None if after1 is None else after1[0].decode()))
                if subset and pd[0] != "EXC" and (pu is None or pu[0] != "EXC"):
                    iw = None if v1[0] == "EXC" else unordered(v1)
                    mw = unordered(lab.unwire(mval[1])) if mval[0] == 0 else None
                    if iw is None or mw is None or iw != mw:
                        ck.disagreement("load", f"load on the line model differs: model {mval} impl {v1}",
                                        dict(replay, case=w))
    # ---- the I/O script with a failing read (Model/ConfigFaults.v): value = the exception's class, trace = isfile -> failed
    # read, no write (C20_read_fault_no_write)
    if have_fault_driver and fault_wire:
        res = common.run_driver("C20Faults", fault_wire)
        for (v0, exc, trace0, fired, fault, replay), w, mo in zip(fault_expect, fault_wire, res):
            ck.count("load with a failing read: model run")
            if mo == [-999]:
                ck.disagreement("wire", "fault driver could not decode a case", {"case": w})
                continue
            mval, mfile, mtrace = mo
            want_cls = ValueError if mval[:2] == [1, 5] else OSError
            if fault[0] in ("open", "read") and fired is None:
                ck.disagreement("io-script-faults", "the configuration file was never opened for reading through open(): the injected "
                                "fault was not reached", dict(replay, case=w, impl_trace=trace0))
            elif mval[0] != 1 or v0[0] != "EXC" or not isinstance(exc, want_cls):
                ck.disagreement("io-script-faults", f"the read of the existing file fails: model answers {mval} (the exception leaves the "
                                f"function), load_config_toml {'raised ' + v0[1] if v0[0] == 'EXC' else 'returned ' + str(v0)}",
                                dict(replay, case=w, model=mo))
            if trace_of_model_f(mtrace) != trace0:
                ck.disagreement("io-script-faults", f"file operations of the load with a failing read differ: model {trace_of_model_f(mtrace)} "
                                f"impl {trace0}", dict(replay, case=w))

    # ---- text level: Model/ConfigText.v on the code points of every generated document
    # plus raw texts (not necessarily TOML): every str.isspace() character, and some that are not, in front of a
    # header / array header / key / comment / nothing, alone on a line, and between two lines
    for ws in WS_PROBE:
        for tail in ("[t]", "[[t]]", "a = 1", "# c", "", "["):
            for t in (f"x = 1\n{ws}{tail}\ny = 2", f"{ws}{ws} {tail}{ws}\n", f"[u]{ws}{tail}"):
                if t not in text_cases:
                    ck.count("raw text probes (text level only)")
                    text_cases[t] = (impl.comment_out(t), {"text": t, "call": "aw_core.config._comment_out_toml(text)"})
    if have_text_driver and text_cases:
        texts = list(text_cases)
        res = common.run_driver("C20Text", [sx([ord(c) for c in t]) for t in texts])
        for t, mo in zip(texts, res):
            commented, replay = text_cases[t]
            ck.count("comment_out on the text: model run")
            if mo == [-999] or "".join(map(chr, mo)) != commented:
                got = None if mo == [-999] else "".join(map(chr, mo))
                ck.disagreement("comment_out_text", f"_comment_out_toml and Model/ConfigText.v differ on the text {t!a}: "
                                f"model {got!a} impl {commented!a}", dict(replay, model=got, impl=commented))
    ck.assumptions += [
        "tomlkit.parse is an oracle: Section variable `parse` in Model/Config.v load_config; its agreement with the "
        "line-level reading parse_lines is checked on every generated one-line-valued document (stream tomlkit-oracle)",
        "text level (Model/ConfigText.v): a text is its list of code points; str.strip() is modelled by the set of "
        "characters with str.isspace() in CPython 3 (TAB..CR, FS..US, SPACE, NEL, NBSP, U+1680, U+2000..U+200A, U+2028, "
        "U+2029, U+202F, U+205F, U+3000); compared with the code on every generated document (stream comment_out_text)",
        "leaves are compared through labels, one per exact (type, value): 1, 1.0, true and \"1\" are different leaves",
        "the file system is reduced to the one file load_config_toml addresses; directory creation by "
        "dirs.get_config_dir is outside the model; bytes, mtime_ns and inode of the file are compared before/after",
        "which file that is -- <config dir>/<appname>.toml for every admissible application name (one path component, <= 255 "
        "bytes with the suffix) -- is the harness's statement, not the model's: cases run under names with dots, a leading / "
        "trailing dot, unicode letters and of maximal length; any other file touched below the configuration home is reported",
        "read faults (Model/ConfigFaults.v): the answer to the read of the existing file is a parameter of the script; on the "
        "implementation it is injected into the open() the module calls (OSError at open, OSError at read; a file mode "
        "without read permission when not root; bytes that are not UTF-8)",
    ]
    return ck.finish(RULE)


if __name__ == "__main__":
    sys.exit(main())
