"""C19 (round 5): categorize / tag / split_url_events / simplify_string on INPUT TYPES at the edge of what the API accepts,
NUMERIC EXTREMES and under FAULTS (generic part: harness/txedge.py).

harness/c19.py and harness/c19_hist.py hand every call a `list` of Events whose data are plain dicts of small JSON values,
with durations of seconds around one instant in 2020, on a healthy interpreter.  They can therefore never see

  * CONTAINERS: a second pass over `events` / over the rule list, an `isinstance(events, list)` fast path that copies
    otherwise, len() / indexing where iteration was enough;
  * DATA TYPES: an EAFP rewrite (`try: d[k] except KeyError`) on a data dict that supplies defaults for missing keys
    (collections.defaultdict, Counter, any dict subclass with __missing__) - the subscript never raises, and on a defaultdict it
    STORES the key; a `type(d) is dict` fast path; a copy that loses the type of the data dict (dict(e.data), JSON) or of a
    value (Str -> str, tuple -> list, int keys -> str keys);
  * EXTREMES: a float route for durations (exact only below 2**53 us) or timestamps;
  * FAULTS: a broad `except` that turns a failing deep copy into a normal looking result.

Every call of this module is ONE spec (a dict, see `enc_spec`): kind, events [(ts_us, dur_us, data, id)] (data = the real, possibly
exotic, dict value), the container kinds of `events` and of the rule list, the rules [(class, rule dict, literal)], the key, the
route (direct | registry), a fault.  `Engine.judge` runs it and

  1. sends the PLAIN READING of the call (txedge.plain of the data as they were before the call; of the result as it came back)
     through c19's `process` closure: the statement oracle, labels, wire and the extracted model judge it like any other call;
     for simplify_string on a defaulting dict that lacks the key the plain reading holds the key with the dict's default
     (that is what the unchanged code reads: an observation, notes/agents/C19.md);
  2. judges the TYPED frame itself (`typed_frame`): per returned event the data dict has the type it had, no key was ADDED or
     removed beyond the keys the transform owns, the other keys are in the order they were and hold same-typed values;
  3. identity: categorize / tag / split_url_events hand back the caller's own event objects, whatever container they came
     in; simplify_string hands back new ones and leaves the caller's events (txedge.changed) alone; a container that can be read
     twice still holds the same objects in the same order;
  4. faults: the call raises the fault's exception class or returns exactly what the fault-free call returns.

usage: python -m harness.c19_edge replay <replay.json>
"""
import collections
import contextlib
import copy
import json
import sys
import time
from datetime import timedelta

from . import common
from . import txedge as X
from .evutil import BASE, us_of_dt, us_of_td

FN = {"categorize": "categorize", "tag": "tag", "split": "split_url_events", "simplify": "simplify_string"}
MODULE = {"categorize": "aw_transform.classify", "tag": "aw_transform.classify", "split": "aw_transform.split_url_events",
          "simplify": "aw_transform.simplify"}
Q2NAME = {"categorize": "categorize", "tag": "tag", "split": "split_url_events", "simplify": "simplify_window_titles"}
INPLACE = ("categorize", "tag", "split")
KINDS = ("categorize", "tag", "split", "simplify")
URL_KEYS = ["$protocol", "$domain", "$path", "$params", "$options", "$identifier"]
# the rule list: read once per event, so every re-iterable container works like a list; a one-shot iterable is used up by the
# first event (the later events see no rule at all) - established by experiment on the unchanged tree, see the notes
CLASSES_SUPPORT = X.REITERABLE
DEEP = 40                  # values nested deeper than this travel as tokens (txedge.show / enc abbreviate from here on)
S = 1_000_000


class Fuse:
    """A data value whose deep copy can be made to fail once: while `Fuse.armed` is n, the n-th copy of a Fuse (0-based,
    counted from the moment of arming) raises MemoryError - a fault in the MIDDLE of simplify_string's deepcopy (txedge's
    DeepcopyFault only sees the outermost invocation: copy's helpers bind `deepcopy` as a default argument)."""
    armed = None
    copies = 0
    fired = False
    __slots__ = ("n",)

    def __init__(self, n):
        self.n = n

    def __eq__(self, o):
        return type(o) is Fuse and o.n == self.n

    def __hash__(self):
        return hash(("Fuse", self.n))

    def __repr__(self):
        return "Fuse(%d)" % self.n

    def __deepcopy__(self, memo):
        k = Fuse.copies
        Fuse.copies += 1
        if Fuse.armed is not None and k == Fuse.armed and not Fuse.fired:
            Fuse.fired = True
            raise MemoryError("injected by the harness: copy %d of a data value fails" % k)
        return Fuse(self.n)


class _NoCount:
    def count(self, *a, **k):
        pass


class Run:
    pass


def owned_keys(kind, data, key):
    if kind == "categorize":
        return ["$category"]
    if kind == "tag":
        return ["$tags"]
    if kind == "split":
        return URL_KEYS if dict.__contains__(data, "url") else []
    return [key]


def typed_frame(kind, key, seq, before):
    """The frame clause with TYPES: -> None | sentence.  `seq` the returned events, `before` txedge.snap of the caller's
    events as they were handed over."""
    if len(seq) != len(before):
        return f"frame: {len(before)} events in, {len(seq)} out"
    for n, (o, b) in enumerate(zip(seq, before)):
        was = b[5]
        try:
            now = o.data
            if not isinstance(now, dict):
                return f"malformed: returned event {n} has data of type {type(now).__name__}"
        except Exception as ex:  # noqa: BLE001
            return f"malformed: returned element {n} is no event ({type(ex).__name__})"
        if o.id != b[1] or o.timestamp != b[2] or o.duration != b[3]:
            return (f"frame: event {n} id/timestamp/duration changed: (id, ts_us, dur_us) = ({b[1]}, {us_of_dt(b[2])}, "
                    f"{us_of_td(b[3])}) -> ({o.id}, {us_of_dt(o.timestamp)}, {us_of_td(o.duration)})")
        owned = owned_keys(kind, was, key)
        kname = X.dict_kind(was)
        a_kind = "a plain dict" if type(was) is dict else f"a {kname}"
        added = [k for k in now if not dict.__contains__(was, k) and k not in owned]
        gone = [k for k in was if not dict.__contains__(now, k) and k not in owned]
        if added and gone:
            return (f"frame: event {n}: key(s) {gone} of its data ({a_kind}) came back as {added} (typed comparison: 5 is not '5'): "
                    f"{X.show(was)} -> {X.show(now)}; {FN[kind]} owns {owned}")
        if added:
            why = "has no url but " if kind == "split" and not owned else ""
            return (f"frame: event {n} {why}key(s) {added} were ADDED to its data ({a_kind}): {X.show(was)} -> {X.show(now)}; "
                    f"{FN[kind]} owns {owned or 'no key of an event without url'}")
        if gone:
            return f"frame: event {n}: key(s) {gone} were removed from its data ({a_kind}): {X.show(was)} -> {X.show(now)}"
        if type(now) is not type(was) or getattr(now, "default_factory", None) is not getattr(was, "default_factory", None):
            return (f"frame: event {n}: its data came back as a {X.dict_kind(now)}, was {a_kind} (the type of the data dict is "
                    f"part of the event's unrelated data): {X.show(was)} -> {X.show(now)}")
        ra = [k for k in now if k not in owned]
        rb = [k for k in was if k not in owned]
        if ra != rb:
            return f"frame: event {n}: the order of its unrelated keys changed {rb} -> {ra}"
        for k in rb:
            if not X.same_typed(dict.__getitem__(now, k), dict.__getitem__(was, k)):
                return (f"frame: event {n} unrelated data changed under key {k!r}: {X.show(dict.__getitem__(was, k))} -> "
                        f"{X.show(dict.__getitem__(now, k))} (typed comparison: a tuple is not a list, a Str is not a str, "
                        f"1 is not '1')")
    return None


class Engine:
    def __init__(self, ck, C, process, env):
        self.ck, self.C, self.process, self.env = ck, C, process, env
        self.nmin = 0
        self.reported = 0
        self.per = {}
        self.calls = 0

    # ------------------------------------------------------------------ making one call

    def build(self, spec):
        out = []
        for n, (t, d, data, i) in enumerate(spec["events"]):
            data = copy.deepcopy(data)
            if spec.get("fuses"):
                data["fuse"] = Fuse(n)
                data["fused"] = [Fuse(100 + n), {"k": Fuse(200 + n)}]
            out.append(X.mk_event(self.env.Event, t, d, data, i))
        return out

    def rules(self, spec):
        if spec["kind"] not in ("categorize", "tag"):
            return None
        if spec.get("route") == "registry":
            return [[copy.deepcopy(c), copy.deepcopy(rd)] for c, rd, _ in spec["classes"]]
        return [(copy.deepcopy(c), self.env.cl.Rule(copy.deepcopy(rd))) for c, rd, _ in spec["classes"]]

    def invoke(self, spec, events, classes):
        kind, env = spec["kind"], self.env
        if spec.get("route") == "registry":
            ns = env.q2.create_namespace()
            f = env.qf.functions[Q2NAME[kind]]
            if kind in ("categorize", "tag"):
                return f(env.ds, ns, events, classes)
            if kind == "split":
                return f(env.ds, ns, events)
            return f(env.ds, ns, events, spec["key"])
        if kind == "categorize":
            return env.cl.categorize(events, classes)
        if kind == "tag":
            return env.cl.tag(events, classes)
        if kind == "split":
            return env.split(events)
        return env.simplify(events, spec["key"])

    def one_call(self, spec):
        """-> Run: the call made on fresh objects, nothing judged"""
        r = Run()
        r.spec = spec
        r.objs = self.build(spec)
        r.before = X.snap(r.objs)
        r.handed = X.Handed(spec.get("container", "list"), r.objs)
        rules = self.rules(spec)
        r.rules = rules
        r.rules_arg = None if rules is None else X.wrap(spec.get("classes_container", "list"), rules)
        fault = spec.get("fault") or {}

        def call():
            return self.invoke(spec, r.handed.arg, r.rules_arg)
        Fuse.armed, Fuse.copies, Fuse.fired = fault.get("fuse_nth"), 0, False
        r.fired = False
        try:
            if fault.get("deepcopy_raises"):
                import builtins
                with X.DeepcopyFault(fault.get("nth"), getattr(builtins, fault["deepcopy_raises"])) as g:
                    r.how, r.value = X.under_default_limit(call)
                r.fired, r.deepcopies = g.fired, g.calls
            elif fault or spec.get("limit") == "default":
                r.how, r.value = X.under_default_limit(call)
                r.fired = Fuse.fired
            else:
                try:
                    r.how, r.value = "ok", call()
                except Exception as ex:  # noqa: BLE001 - the exception class is the observable
                    r.how, r.value = "raised", ex
        finally:
            Fuse.armed = None
        r.fuse_copies = Fuse.copies
        r.seq = None
        if r.how == "ok":
            try:
                r.seq = list(r.value)
            except Exception:  # noqa: BLE001
                r.seq = None
        return r

    # ------------------------------------------------------------------ the plain reading (for the oracle and the model)

    def plain_case(self, r):
        """the call's arguments as c19 cases have them, read from the snapshot taken before the call"""
        spec = r.spec
        kind = spec["kind"]
        toks = []

        def tok(v):
            n = X.depth_of(v)
            if n <= DEEP:
                return v
            for j, w in enumerate(toks):
                if X.same_typed(w, v):
                    return ("<nested>", j, n)
            toks.append(v)
            return ("<nested>", len(toks) - 1, n)

        def items_of(data):
            return [(X.plain(k), tok(X.plain(v))) for k, v in dict.items(data)]
        events = []
        for b in r.before:
            items = items_of(b[5])
            if kind == "simplify" and type(b[5]) is not dict and not dict.__contains__(b[5], spec["key"]):
                probe = copy.deepcopy(b[5])
                try:               # what `e.data[key]` reads on this dict type: a default, or KeyError like a plain dict
                    items.append((spec["key"], tok(X.plain(probe[spec["key"]]))))
                    r.defaulted = True
                except KeyError:
                    pass
            events.append((b[1], us_of_dt(b[2]), us_of_td(b[3]), items))
        tag = "%s[%s%s]" % (spec.get("route", "direct"), spec.get("container", "list"),
                            "; rules as " + spec["classes_container"] if spec.get("classes_container", "list") != "list" else "")
        case = {"kind": kind, "events": events, "route": tag, "program": spec.get("stream")}
        if kind in ("categorize", "tag"):
            case["classes"] = [(copy.deepcopy(c), copy.deepcopy(rd), l) for c, rd, l in spec["classes"]]
        if kind == "simplify":
            case["key"] = spec["key"]
        if r.how == "ok":
            res = ("ok", [(o.id, us_of_dt(o.timestamp), us_of_td(o.duration), items_of(o.data)) for o in r.seq])
        else:
            res = ("err", type(r.value).__name__)
        return case, res

    # ------------------------------------------------------------------ judging

    def checks(self, r, bads, process):
        """typed frame, identity, caller's objects; then the plain reading through `process` (or the bare oracle)"""
        spec = r.spec
        kind, key = spec["kind"], spec.get("key")
        fn = FN[kind]
        cont = spec.get("container", "list")
        if r.how == "ok" and r.seq is None:
            bads.append(("C19:malformed", f"malformed: {fn} returned a {type(r.value).__name__}, which cannot be read as a sequence of events"))
            return
        if r.how == "ok":
            bad = typed_frame(kind, key, r.seq, r.before)
            if bad:
                bads.append(("C19:" + bad.split(":")[0], bad))
            if len(r.seq) == len(r.objs):
                if kind in INPLACE:
                    k = next((i for i, (a, b) in enumerate(zip(r.seq, r.objs)) if a is not b), None)
                    if k is not None:
                        bads.append(("C19:aliasing", f"aliasing: {fn}(a {cont} of {len(r.objs)} events) returned at position {k} an object "
                                                     f"that is not the caller's event {k}; handed a list it annotates the caller's "
                                                     f"events in place and returns those very objects"))
                else:
                    ids = {id(o) for o in r.objs} | {id(o.data) for o in r.objs}
                    k = next((i for i, a in enumerate(r.seq) if id(a) in ids or id(a.data) in ids), None)
                    if k is not None:
                        bads.append(("C19:aliasing", f"aliasing: {fn}(a {cont}) returned at position {k} one of the caller's own event / data "
                                                     f"objects; it returns copies"))
        # the caller's objects
        if kind == "simplify":
            ch = X.changed(r.objs, r.before, "caller's event")
            if ch:
                bads.append(("C19:aliasing", f"aliasing: {fn}(a {cont}) works on a copy, but after the call "
                                             f"({'it returned' if r.how == 'ok' else 'it raised ' + type(r.value).__name__}) {ch}"))
        else:
            same_objs = r.how == "ok" and len(r.seq) == len(r.objs) and all(a is b for a, b in zip(r.seq, r.objs))
            # in place: only the owned keys of the caller's events change (judged above when the call returned them)
            bad = None if same_objs else typed_frame(kind, key, r.objs, r.before)
            if bad and not (r.how == "ok" and bads):
                bads.append(("C19:" + bad.split(":")[0], "the caller's events after the call: " + bad))
            for i, (o, b) in enumerate(zip(r.objs, r.before)):
                if id(o.data) != b[4]:
                    bads.append(("C19:aliasing", f"aliasing: {fn} replaced the data dict object of the caller's event {i} (it writes INTO "
                                                 f"the dict the event holds)"))
                    break
        t = r.handed.touched()
        if t:
            bads.append(("C19:aliasing", f"aliasing: after {fn}: {t}"))
        # the plain reading: statement oracle + model
        if r.how == "raised" and isinstance(r.value, (RecursionError, MemoryError)):
            return
        case, res = self.plain_case(r)
        r.case, r.res = case, res
        if getattr(r, "defaulted", False) and process is not None:
            self.ck.count("edge:simplify:missing-key-read-as-the-dict's-default")
        if process is not None:
            process(case, res, None, on_bad=lambda b: bads.append(("C19:" + b.split(":")[0], b)))
        else:
            try:
                b = self.C.oracle(case, res, _NoCount())
            except Exception as ex:  # noqa: BLE001
                b = f"malformed: the oracle could not read the output ({type(ex).__name__}: {ex})"
            if b:
                bads.append(("C19:" + b.split(":")[0], b))

    def judge(self, spec, process=None):
        """-> (bads [(signature, sentence)], Run)"""
        bads = []
        with (X.harness_limit() if spec.get("deep") else contextlib.nullcontext()):
            if spec.get("fault") or spec.get("limit"):
                ref = self.one_call(dict(spec, fault=None, limit=None))
                self.checks(ref, bads, process)
                r = self.one_call(spec)
                r.ref = ref
                self.fault_checks(r, ref, bads)
            else:
                r = self.one_call(spec)
                self.checks(r, bads, process)
        return bads, r

    def typed_views(self, seq):
        return [(o.id, o.timestamp, o.duration, o.data) for o in seq]

    def fault_checks(self, r, ref, bads):
        spec = r.spec
        kind = spec["kind"]
        fn = FN[kind]
        fault = spec.get("fault") or {}
        what = ("a MemoryError injected into copy.deepcopy (step %s: 0 = the call, then the copies of the Fragile data values)" % fault.get("nth") if fault.get("deepcopy_raises") else
                "a MemoryError raised by copy %s of a data value" % fault.get("fuse_nth") if "fuse_nth" in fault else
                "the interpreter's default recursion limit")
        classes = (MemoryError,) if fault else (RecursionError,)
        if ref.how == "raised":
            classes += (type(ref.value),)
        if r.how == "raised":
            if not isinstance(r.value, classes):
                bads.append(("C19:fault", f"fault: under {what} {fn} raised {type(r.value).__name__} ({str(r.value)[:80]}); it may raise "
                                          f"{'/'.join(c.__name__ for c in classes)} or return what the fault-free call returns"))
        elif ref.how == "raised":
            bads.append(("C19:fault", f"fault: under {what} {fn} returned, the fault-free call raises {type(ref.value).__name__}"))
        elif r.seq is None or ref.seq is None:
            bads.append(("C19:fault", f"fault: under {what} {fn} returned a {type(r.value).__name__}"))
        else:
            a, b = self.typed_views(r.seq), self.typed_views(ref.seq)
            if len(a) != len(b):
                bads.append(("C19:fault", f"fault: under {what} {fn} returned {len(a)} events, the fault-free call returns {len(b)} "
                                          f"(it may raise, it may not return something else)"))
            else:
                for i, (x, y) in enumerate(zip(a, b)):
                    if not X.same_typed(x, y):
                        bads.append(("C19:fault", f"fault: under {what} {fn} returned normally, but event {i} is "
                                                  f"(id, ts_us, dur_us, data) = ({x[0]}, {us_of_dt(x[1])}, {us_of_td(x[2])}, {X.show(x[3])}) "
                                                  f"where the fault-free call returns ({y[0]}, {us_of_dt(y[1])}, {us_of_td(y[2])}, "
                                                  f"{X.show(y[3])}): a failed copy must not turn into a normal looking result"))
                        break
            if kind in INPLACE and len(r.seq) == len(r.objs) and any(p is not q for p, q in zip(r.seq, r.objs)):
                bads.append(("C19:aliasing", f"aliasing: under {what} {fn} returned objects that are not the caller's events"))
            if kind == "simplify":
                ids = {id(o) for o in r.objs} | {id(o.data) for o in r.objs}
                if any(id(a) in ids or id(getattr(a, "data", None)) in ids for a in r.seq):
                    bads.append(("C19:aliasing", f"aliasing: under {what} {fn} returned the caller's own event / data objects; it returns copies"))
        # the caller's events, whatever happened
        if kind == "simplify":
            ch = X.changed(r.objs, r.before, "caller's event")
            if ch:
                bads.append(("C19:aliasing", f"aliasing: {fn} under {what} ({'returned' if r.how == 'ok' else 'raised ' + type(r.value).__name__}): {ch}"))
        else:
            bad = typed_frame(kind, spec.get("key"), r.objs, r.before)
            if bad:
                bads.append(("C19:" + bad.split(":")[0], f"under {what}, the caller's events after the call: " + bad))

    # ------------------------------------------------------------------ running, reporting

    def left_out(self, spec):
        """a container kind the unchanged tree does not handle like a list: run, counted, not judged"""
        kind = spec["kind"]
        n = len(spec["events"])
        r = self.one_call(spec)
        if r.how == "raised":
            what = "raises " + type(r.value).__name__
        elif r.seq is None:
            what = "returns a " + type(r.value).__name__
        elif len(r.seq) != n:
            what = f"the returned {type(r.value).__name__} yields {'none' if not r.seq else 'some'} of the events (used up)"
        else:
            try:
                case, res = self.plain_case(r)
                ok = self.C.oracle(case, res, _NoCount()) is None
            except Exception:  # noqa: BLE001
                ok = False
            what = "works like a list here" if ok else "the rules are used up by the first event"
        which = FN[kind] + "/" + spec.get("container", "list") + ("" if spec.get("classes_container", "list") == "list" else
                                                                 ", rules as " + spec["classes_container"])
        self.ck.count(f"container-left-out:{which}: {what}")

    def supported(self, spec):
        return X.supported(FN[spec["kind"]], (spec.get("container", "list"),)) and \
            spec.get("classes_container", "list") in CLASSES_SUPPORT

    def run(self, spec):
        """one judged call; -> res (the plain result) or None when left out"""
        self.calls += 1
        self.ck.count("edge:" + spec.get("stream", "?"))
        if not self.supported(spec):
            self.left_out(spec)
            return None
        bads, r = self.judge(spec, self.process)
        if bads:
            self.report(spec, bads[0], r)
        return getattr(r, "res", None) if not (spec.get("fault") or spec.get("limit")) else getattr(r.ref, "res", None)

    def fails(self, spec, sig):
        try:
            bads, _ = self.judge(spec, None)
        except Exception:  # noqa: BLE001
            return False
        return any(s == sig for s, _ in bads)

    def report(self, spec, bad, r):
        sig, desc = bad
        self.reported += 1
        k = (sig, spec.get("stream"))
        self.per[k] = self.per.get(k, 0) + 1
        if self.per[k] > 2 or len(self.per) > 10:       # two per clause and stream: the report shows different classes
            return
        small, how = spec, "not minimised"
        if self.nmin < 4:
            self.nmin += 1
            try:
                if self.fails(spec, sig):
                    evs = common.shrink_list(spec["events"], lambda c: self.fails(dict(spec, events=list(c)), sig), 24)
                    small = dict(spec, events=evs)
                    if small.get("classes"):
                        cls = common.shrink_list(small["classes"], lambda c: self.fails(dict(small, classes=list(c)), sig), 12)
                        small = dict(small, classes=cls)
                    for field, plainval in (("container", "list"), ("classes_container", "list"), ("route", "direct")):
                        if small.get(field, plainval) != plainval and self.fails(dict(small, **{field: plainval}), sig):
                            small = dict(small, **{field: plainval})
                    bads, r = self.judge(small, None)
                    desc = next((d for s, d in bads if s == sig), desc)
                    how = "events, rules and container minimised by re-running the call on fresh objects in this process; it fails again on its own"
                else:
                    how = "did NOT fail again when the call was re-run on fresh objects in this process"
            except Exception as ex:  # noqa: BLE001
                how = f"minimisation failed ({type(ex).__name__})"
        self.ck.failing_input(sig, desc, self.replay(small, r, how))

    def replay(self, spec, r, how):
        kind = spec["kind"]
        obs = {}
        try:
            with X.harness_limit():
                obs["outcome"] = ("returned " + type(r.value).__name__) if r.how == "ok" else "raised %s: %s" % (type(r.value).__name__, str(r.value)[:160])
                obs["events_before(id,ts_us,dur_us,data)"] = [[b[1], us_of_dt(b[2]), us_of_td(b[3]), X.show(b[5], 400)] for b in r.before[:8]]
                if r.seq is not None:
                    obs["returned(id,ts_us,dur_us,data)"] = [[o.id, us_of_dt(o.timestamp), us_of_td(o.duration), X.show(o.data, 400)]
                                                           for o in r.seq[:8] if hasattr(o, "timestamp")]
                obs["callers_events_after"] = [[o.id, us_of_dt(o.timestamp), us_of_td(o.duration), X.show(o.data, 400)] for o in r.objs[:8]]
        except Exception as ex:  # noqa: BLE001
            obs["unreadable"] = type(ex).__name__
        rp = {"edge_case": enc_spec(spec), "observed": obs, "minimisation": how, "base_us": BASE,
              "how_to_read": "edge_case: ONE call of %s.%s; events = [timestamp_us, duration_us, data, id] with data in txedge.enc form "
                             "(__type__ = the dict class, __Str__/__Int__ = str/int subclasses, __tuple__, __nested__ = nested that deep); "
                             "container = what the events were handed over in; classes = [class, rule dict, literal]; "
                             "/venv/bin/python -m harness.c19_edge replay <this file> re-runs and judges it" % (MODULE[kind], FN[kind])}
        if kind in ("split", "simplify") and spec.get("route", "direct") == "direct" and not spec.get("fuses"):
            f = spec.get("fault") or {}
            rp.update(X.edge_replay(MODULE[kind], FN[kind], [(spec.get("container", "list"), [tuple(e) for e in spec["events"]])],
                                    scalars=[spec["key"]] if kind == "simplify" else (),
                                    fault=f if f.get("deepcopy_raises") else None,
                                    limit=spec.get("limit"), observed=obs))
            rp["rerun_hint"] += "   |   verdict: /venv/bin/python -m harness.c19_edge replay <this file>"
        else:
            rp["rerun_hint"] = "cd /verif && VERIF_REPO=<repo> PYTHONPATH=<repo>:/verif /venv/bin/python -m harness.c19_edge replay <this file>"
        return rp


def enc_spec(spec):
    out = {k: spec[k] for k in ("kind", "container", "classes_container", "key", "route", "fault", "limit", "fuses", "deep", "stream")
           if spec.get(k) is not None}
    out["events(ts_us,dur_us,data,id)"] = [[t, d, X.enc(x), i] for (t, d, x, i) in spec["events"]]
    if "classes" in spec:
        out["classes"] = [[c, rd, l] for c, rd, l in spec["classes"]]
    return out


def dec_spec(j):
    spec = {k: v for k, v in j.items() if k not in ("events(ts_us,dur_us,data,id)", "classes")}
    with X.harness_limit():
        spec["events"] = [(t, d, X.dec(x), i) for t, d, x, i in j["events(ts_us,dur_us,data,id)"]]
    if "classes" in j:
        spec["classes"] = [(c, rd, l) for c, rd, l in j["classes"]]
    return spec


# --------------------------------------------------------------------------- generators


def E(n, data, dur=1000, eid=None):
    return (BASE + 1000 * n, dur, data, eid)


OD = collections.OrderedDict
D_URL = {"app": "Firefox", "title": "(3) Inbox - FIREFOX", "url": "http://www.example.com/a/b;p?q=1#frag"}
D_NOURL = {"title": "* notes.md FPS: 12.5", "app": "Editor", "n": 7}
D_NOTITLE = {"app": "Cemu", "name": "(1) x", "audible": False}
D_EMPTYURL = {"url": "", "title": "plain"}
D_NONJSON = {"title": "(2) t", "cursor": (10, 4), 7: "seven", "nested": OD([("a", collections.defaultdict(list, {"k": [1, (2, 3)]}))]),
             "app": "VSCode"}
D_NAME = {"name": "● only a name"}
D_NUM = {"count": 3, "hits": 2}
D_WWW = {"title": "Uncategorized", "app": "", "url": "www.example.com/path", 5: (1, "x")}
TEMPLATES = [D_URL, D_NOURL, D_NOTITLE, D_EMPTYURL, D_NONJSON, D_NAME, D_NUM, D_WWW]
DICT_KINDS = list(X.DICT_KINDS) + ["defaultdict(int)"]

# rules whose select_keys hit MISSING keys with a regex that the default of a str factory ('') / any string would match
CATS = [(["Web"], {"regex": "fire", "ignore_case": True}, "fire"),
        (["Web", "Mail"], {"regex": "Inbox", "select_keys": ["title", "missing"]}, "Inbox"),
        (["Default", "Of", "A", "Factory"], {"regex": "^$", "select_keys": ["missing"]}, None),
        (["Any", "Thing", "Under", "Absent", "Keys"], {"regex": ".", "select_keys": ["absent1", "n", "count"]}, None),
        (["Empty", "Url"], {"regex": "^$", "select_keys": ["url", "title"]}, None),
        (["Num"], {"regex": "7|3"}, None),
        (["Name"], {"regex": "name", "select_keys": ["name", "url"]}, "name")]
TAGS = [("t%d" % j, rd, l) for j, (_, rd, l) in enumerate(CATS)]


def usable(data, kind):
    """a Counter compares missing == 0: no falsy numbers in one; an empty exotic dict becomes {} in Event.__init__"""
    if not data:
        return False
    if kind == "Counter" and any(type(v) in (int, float, bool) and not v for v in data.values()):
        return False
    return True


def with_rules(spec):
    if spec["kind"] == "categorize":
        spec["classes"] = CATS
    elif spec["kind"] == "tag":
        spec["classes"] = TAGS
    elif spec["kind"] == "simplify":
        spec.setdefault("key", "title")
    return spec


def base_lists():
    yield [E(0, D_URL, eid=1), E(1, D_NOURL, 2 * S, eid=2), E(2, D_NOTITLE), E(3, D_EMPTYURL, 0, eid=4), E(4, D_WWW, 1, eid=5)]
    yield [E(0, {"title": "(1) a", "app": "x", "url": "https://example.com"}, eid=7)]
    yield []
    yield [E(0, D_NAME), E(0, D_NUM), E(1, D_NONJSON, 2500, eid=3)]


def simplify_ready(events, key="title"):
    """simplify_string raises on an event without the key (plain dict): give every event one"""
    out = []
    for n, (t, d, data, i) in enumerate(events):
        if key not in data:
            data = dict(data)
            data[key] = ("(%d) t%d" % (n, n), "* FPS: 1.5 x", "plain")[n % 3]
        out.append((t, d, data, i))
    return out


def gen_containers(C, rng, tier):
    """every container kind on `events`, every container kind on the rule list; the list case first"""
    group = 0
    for kind in KINDS:
        for events in base_lists():
            group += 1
            evs = simplify_ready(events) if kind == "simplify" else events
            for cont in X.ALL_KINDS:
                yield with_rules({"kind": kind, "events": evs, "container": cont, "stream": "containers", "group": group})
            if kind in ("categorize", "tag"):
                for cc in X.ALL_KINDS[1:]:
                    yield with_rules({"kind": kind, "events": evs, "classes_container": cc, "stream": "containers", "group": group,
                                      "container": ("list", "tuple", "generator")[len(cc) % 3]})
    for _ in range(300 if tier == "quick" else 4000):
        kind = rng.choice(KINDS)
        events = [(t, d, dict(items), i) for i, t, d, items in C.rand_events(rng, lambda: C.rand_data(rng), 6)]
        spec = {"kind": kind, "events": events, "stream": "containers", "container": rng.choice(X.ALL_KINDS)}
        if kind in ("categorize", "tag"):
            views = [(i, t, d, list(x.items())) for t, d, x, i in events]
            cl = []
            for _ in range(rng.randrange(0, 5)):
                rd, l = C.derived_rule(rng, views) if rng.random() < 0.6 else C.rand_rule(rng)
                cl.append((list(rng.choice(C.CATS)) if kind == "categorize" else rng.choice(C.TAGS), rd, l))
            spec["classes"] = cl
            spec["classes_container"] = rng.choice(X.REITERABLE + ("generator",))
        if kind == "simplify":
            spec["key"] = rng.choice(["title", "title", "name"])
            spec["events"] = [(t, d, dict(x, **{spec["key"]: rng.choice(C.TITLES)}), i) for t, d, x, i in events]
        yield spec


def gen_dicttypes(C, rng, tier):
    """every dict type x events WITH and WITHOUT the key the transform looks for"""
    n = 0
    for dk in DICT_KINDS:
        tpl = [t for t in TEMPLATES if usable(t, dk)]
        for kind in ("categorize", "tag", "split"):
            n += 1
            events = [E(j, X.exotic(t, dk), (1000, 0, 2 * S)[j % 3], eid=j + 1) for j, t in enumerate(tpl)]
            yield with_rules({"kind": kind, "events": events, "stream": "dicttypes", "route": ("direct", "registry")[n % 2]})
            # one dict type among plain dicts (and the other way round)
            mixed = [E(j, X.exotic(t, dk) if j % 2 == n % 2 else dict(t), 1000, eid=None) for j, t in enumerate(tpl)]
            yield with_rules({"kind": kind, "events": mixed, "stream": "dicttypes", "container": ("tuple", "list", "deque")[n % 3]})
        for key in ("title", "app", "name", "missing"):
            for j, t in enumerate(tpl):       # one call per event: on a plain dict the missing key raises
                n += 1
                yield {"kind": "simplify", "key": key, "events": [E(j, X.exotic(t, dk), 1000, eid=j), E(j + 1, X.exotic(D_URL if key != "name" else D_NOTITLE, dk))],
                       "stream": "dicttypes", "route": ("direct", "registry")[n % 2]}
                yield {"kind": "simplify", "key": key, "events": [E(j, X.exotic(t, dk), 1000, eid=j)], "stream": "dicttypes"}
    kinds_all = DICT_KINDS + ["plain"]
    for _ in range(800 if tier == "quick" else 12000):
        kind = rng.choice(KINDS)
        views = C.rand_events(rng, lambda: C.rand_data(rng), 5)
        key = rng.choice(["title", "title", "name", "app"])
        events = []
        for i, t, d, items in views:
            data = dict(items)
            if kind == "simplify" and rng.random() < 0.85:
                data[key] = rng.choice(C.TITLES)
            q = rng.random()
            if q < 0.2:
                data["cursor"] = (rng.randrange(9), "x")
            elif q < 0.35:
                data[rng.randrange(2, 9)] = rng.choice(["seven", (1, 2), 3])
            elif q < 0.45:
                data["sub"] = X.exotic({"a": rng.choice(C.CANARIES), "b": [1]}, rng.choice(DICT_KINDS[:5]))
            dk = rng.choice(kinds_all)
            if not usable(data, dk):
                dk = "plain"
            data = X.exotic(data, dk)
            if rng.random() < 0.3:
                for k in list(data):
                    v = dict.__getitem__(data, k)
                    if type(v) is str and rng.random() < 0.6:
                        dict.__setitem__(data, k, X.Str(v))
                    elif type(v) is int and v and rng.random() < 0.6:
                        dict.__setitem__(data, k, X.Int(v))
            events.append((t, d, data, i))
        spec = {"kind": kind, "events": events, "stream": "dicttypes", "route": rng.choice(["direct", "direct", "registry"])}
        spec["container"] = rng.choice(X.REITERABLE if spec["route"] == "direct" else ("list", "listsub"))
        if kind in ("categorize", "tag"):
            cl = []
            for _ in range(rng.randrange(0, 5)):
                r = rng.random()
                if r < 0.25:
                    c, rd, l = rng.choice(CATS)
                    rd = dict(rd)
                elif r < 0.7:
                    rd, l = C.derived_rule(rng, views)
                else:
                    rd, l = C.rand_rule(rng)
                cl.append((list(rng.choice(C.CATS)) if kind == "categorize" else rng.choice(C.TAGS), rd, l))
            spec["classes"] = cl
        if kind == "simplify":
            spec["key"] = key
        yield spec


def extreme_durs():
    tmin = timedelta.min // X.US
    return list(X.EXTREME_DURS) + [0, 1, -1, -1000, -X.DAY, -(X.TWO53 + 1), -(150_000 * X.DAY) - 1, X.TD_MAX_US, X.TD_MAX_US - 1,
                                   tmin, tmin + 1, 999_999_999 * X.DAY + 1]


def gen_extremes(C, rng, tier):
    """durations at and around 2**53 us, negative, zero, timedelta.min / max; timestamps over the whole datetime range (ms grid)"""
    durs = extreme_durs()
    far = list(X.FAR_INSTANTS)
    datas = [D_URL, D_NOURL, {"title": "(7) t", "app": "a", "url": "http://www.x.org/"}, {"title": "plain", "name": "n"}]
    n = 0
    for kind in KINDS:
        for chunk in range(0, len(durs), 5):
            n += 1
            ds = durs[chunk:chunk + 5]
            events = [(far[(n + 3 * j) % len(far)] if j % 2 else BASE + 1000 * j, d, datas[(n + j) % len(datas)], (None, j + 1)[j % 2])
                      for j, d in enumerate(ds)]
            yield with_rules({"kind": kind, "events": events, "stream": "extremes", "route": ("direct", "registry")[n % 2]})
        for chunk in range(0, len(far), 6):
            n += 1
            ts = far[chunk:chunk + 6]
            events = [(t, durs[(n + j) % len(durs)] if j % 3 == 0 else 1000 * j, datas[(n + j) % len(datas)], j) for j, t in enumerate(ts)]
            yield with_rules({"kind": kind, "events": events, "stream": "extremes", "container": ("list", "tuple", "deque", "listsub")[n % 4]})
        for j, d in enumerate(durs):        # one event each (what a minimal replay looks like)
            if j % 4 == KINDS.index(kind):
                yield with_rules({"kind": kind, "events": [(far[j % len(far)], d, datas[2], j)], "stream": "extremes"})
    for _ in range(300 if tier == "quick" else 4000):
        kind = rng.choice(KINDS)
        key = "title"
        events = []
        for i, t, d, items in C.rand_events(rng, lambda: C.rand_data(rng), 5):
            data = dict(items)
            if kind == "simplify":
                data[key] = rng.choice(C.TITLES)
            r = rng.random()
            if r < 0.5:
                d = rng.choice(durs) if rng.random() < 0.6 else rng.choice([1, -1]) * (X.TWO53 + rng.randrange(-3, 2 ** 40))
            if rng.random() < 0.4:
                t = rng.choice(far) if rng.random() < 0.5 else rng.randrange(X.DT_MIN_US // 1000 + 1, X.DT_MAX_MS // 1000) * 1000
            events.append((t, d, data, i))
        spec = {"kind": kind, "events": events, "stream": "extremes", "route": rng.choice(["direct", "registry"])}
        if kind in ("categorize", "tag"):
            views = [(i, t, d, list(x.items())) for t, d, x, i in events]
            cl = []
            for _ in range(rng.randrange(0, 4)):
                rd, l = C.derived_rule(rng, views)
                cl.append((list(rng.choice(C.CATS)) if kind == "categorize" else rng.choice(C.TAGS), rd, l))
            spec["classes"] = cl
        if kind == "simplify":
            spec["key"] = key
        yield spec


def gen_faults(C, rng, tier):
    """deeply nested unrelated data under the default recursion limit; a MemoryError in the deep copy"""
    n = 0
    for depth in (300, 480, 520, 600, 900):
        for shape in ("dict", "list", "mixed"):
            n += 1
            nest = X.nested(depth, shape, leaf=("x", 7, "(1) leaf")[n % 3])
            events = [E(0, {"app": "a", "title": "(1) * t FPS: 2.5", "deep": nest, "url": "http://www.a.b/c"}, eid=1),
                      E(1, {"title": "plain", "deep": X.nested(depth, ("list", "mixed", "dict")[n % 3], leaf=None), "n": 1})]
            for kind in (KINDS if depth >= 600 and n % 3 != 1 else ("simplify",)):
                yield with_rules({"kind": kind, "events": events, "stream": "faults:nesting", "limit": "default", "deep": True,
                                  "container": ("list", "tuple")[n % 2]})
    evs = [E(0, {"app": "a", "title": "(1) * t FPS: 2.5", "k": [1, [2], {"a": (1, 2)}]}, eid=1), E(1, {"title": "(2) b", "n": 1.5}, 2 * S),
           E(2, {"title": "● c", "app": "b", "url": "http://www.c.d/"}, 0, eid=3)]
    for kind in KINDS:
        for m, events in enumerate((evs, evs[:1], [])):
            yield with_rules({"kind": kind, "events": events, "stream": "faults:deepcopy", "fault": {"deepcopy_raises": "MemoryError", "nth": 0},
                              "container": ("list", "deque", "tuple")[m]})
        # the copy of one (string) data value fails: txedge.Fragile values are steps of a DeepcopyFault after the top-level
        # deepcopy call (step 0); 2 per event
        fr = [(t, d, dict(x, f=X.Fragile("v%d" % j), fk=[1, X.Fragile("* w%d" % j)]), i) for j, (t, d, x, i) in enumerate(evs)]
        for nth in (1, 2 * len(fr), rng.randrange(2, 2 * len(fr))):
            yield with_rules({"kind": kind, "events": fr, "stream": "faults:copy-of-a-value", "fault": {"deepcopy_raises": "MemoryError", "nth": nth}})
        # an opaque data value whose copy fails: first, last, a random one (3 Fuse objects per event)
        nf = 3 * len(evs)
        for nth in (0, nf - 1, rng.randrange(1, nf - 1), nf):
            yield with_rules({"kind": kind, "events": evs, "stream": "faults:copy-of-a-value", "fuses": True, "fault": {"fuse_nth": nth}})


def run(ck, C, process, env):
    """called from harness/c19.py: main"""
    t0 = time.time()
    eng = Engine(ck, C, process, env)
    sizes = {}
    for name, gen in (("containers", gen_containers), ("dicttypes", gen_dicttypes), ("extremes", gen_extremes), ("faults", gen_faults)):
        t1 = time.time()
        k = 0
        last_list = None
        for spec in gen(C, ck.rng, ck.tier):
            k += 1
            try:
                res = eng.run(spec)
            except Exception as ex:  # noqa: BLE001 - a tree on which an edge call cannot even be judged: the tie is not established
                ck.disagreement("edge", f"an edge call could not be run ({type(ex).__name__}: {str(ex)[:200]})", {"edge_case": _safe_enc(spec)})
                continue
            if name == "containers" and res is not None:
                # the result for any supported container equals the result for a list
                ident = spec.get("group")
                if spec.get("container", "list") == "list" and spec.get("classes_container", "list") == "list":
                    last_list = (ident, res)
                elif ident is not None and last_list and last_list[0] == ident and not C.agree(last_list[1], res):
                    which = spec.get("container", "list") + ("" if spec.get("classes_container", "list") == "list" else
                                                             " (rules as a %s)" % spec["classes_container"])
                    ck.failing_input("C19:container", f"container: {FN[spec['kind']]} on a {which} returns {str(res)[:300]}, on a list of the "
                                                      f"same events {str(last_list[1])[:300]}", eng.replay(spec, eng.one_call(spec), "not minimised"))
        sizes[name] = {"calls": k, "seconds": round(time.time() - t1, 1)}
    ck.coverage["round5"] = {"streams": sizes, "calls": eng.calls, "failing_inputs_reported": eng.reported,
                             "container_kinds": list(X.ALL_KINDS), "dict_kinds": DICT_KINDS + ["nested subclasses", "tuple values", "int keys"],
                             "extreme_durations_us": [str(d) for d in extreme_durs()], "far_instants_us": len(X.FAR_INSTANTS),
                             "nesting_depths": [300, 480, 520, 600, 900], "wall_s": round(time.time() - t0, 1)}


def _safe_enc(spec):
    try:
        with X.harness_limit():
            return enc_spec(spec)
    except Exception:  # noqa: BLE001
        return {"kind": spec.get("kind"), "stream": spec.get("stream")}


# --------------------------------------------------------------------------- command line


def replay_main(path):
    from . import c19 as C
    from . import c19_hist
    common.setup_impl_env()
    obj = json.load(open(path))
    cands = [obj.get("replay", obj)] + [x.get("replay", {}) for x in obj.get("other_failing_inputs", [])]
    rp = next((c for c in cands if "edge_case" in c), None)
    if rp is None:
        print("no edge_case in", path)
        return 2
    spec = dec_spec(rp["edge_case"])
    eng = Engine(_NoCount(), C, None, c19_hist.Env())
    bads, r = eng.judge(spec, None)
    kind = spec["kind"]
    with X.harness_limit():
        print("%s.%s(%s of %d events%s%s)  route %s%s" % (
            MODULE[kind], FN[kind], spec.get("container", "list"), len(spec["events"]),
            ", %s of %d rules" % (spec.get("classes_container", "list"), len(spec["classes"])) if "classes" in spec else "",
            ", key=%r" % spec["key"] if kind == "simplify" else "", spec.get("route", "direct"),
            "   fault: %s" % (spec.get("fault") or spec.get("limit")) if (spec.get("fault") or spec.get("limit")) else ""))
        for c, rd, _ in spec.get("classes", []):
            print("   rule", c, rd)
        for b in r.before:
            print("   event before: id=%s ts_us=%s dur_us=%s data=%s" % (b[1], us_of_dt(b[2]), us_of_td(b[3]), X.show(b[5], 400)))
        if r.how == "raised":
            print("  raises", type(r.value).__name__, str(r.value)[:200])
        else:
            print("  ->", type(r.value).__name__)
            for o in (r.seq or []):
                print("   returned: id=%s ts_us=%s dur_us=%s data=%s" % (o.id, us_of_dt(o.timestamp), us_of_td(o.duration), X.show(o.data, 400)))
        for o in r.objs:
            print("   caller's event afterwards: id=%s ts_us=%s dur_us=%s data=%s" % (o.id, us_of_dt(o.timestamp), us_of_td(o.duration), X.show(o.data, 400)))
    print("VERDICT " + ("OK" if not bads else bads[0][0] + " " + bads[0][1].replace("\n", " ")))
    return 0


if __name__ == "__main__":
    if len(sys.argv) >= 3 and sys.argv[1] == "replay":
        sys.exit(replay_main(sys.argv[2]))
    print(__doc__)
