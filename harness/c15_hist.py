"""C15 (round 3): union_no_overlap under HISTORY, through the QUERY LAYER, and on LARGE inputs.

Streams added to harness/c15.py (hook: `c15_hist.run(...)` in main)

  q2        seeded random sorted non-overlapping pairs through aw_query.functions.functions["union_no_overlap"]
            and through a query2 statement `RETURN = union_no_overlap(arg_a, arg_b)`; the arguments stay referenced.
  session   call sequences in one process on live objects (harness/txhist.py Session): the same two lists again,
            new lists that are == but not identical (other ids - Event.__eq__ ignores ids -, look-alike data
            True / 1 / 1.0), one list replaced by such a twin, a list edited in between (an element's duration /
            data, the data dict edited in place, elements popped / appended), new list objects around the same
            events, the earlier result overwritten before the next call; routes direct / registry / program mixed.
            Every call: the statement (typed: "unchanged" and "keeping its source event's data" mean the very
            values, True is not 1) + inputs not modified + the model run on that call alone.
  big       two lists of >= 10 001 events each (most list-two events covered, the rest straddling, in gaps, or
            spanning several list-one events), direct (+ model) and through the registry; judged by an interval
            version of the oracle (same clauses as c15.oracle_union, O(n log n)), which is also compared with
            c15.oracle_union on every q2 / session call.
usage: python -m harness.c15_hist replay <replay.json>
"""
import bisect
import copy
import json
import sys
import time

from . import common
from . import txhist as TX
from .evutil import BASE, ev_unwire, ev_wire

VALS = [1, 0, True, 2, 1.0, "x"]


# --------------------------------------------------------------------------- the oracle on intervals


def merged(ivs):
    """sorted disjoint union of the positive-length intervals (touching ones joined)"""
    out = []
    for s, e in sorted(iv for iv in ivs if iv[0] < iv[1]):
        if out and s <= out[-1][1]:
            out[-1][1] = max(out[-1][1], e)
        else:
            out.append([s, e])
    return out


def subtract(s, e, cover, starts):
    """[s, e) minus the merged cover (starts = its start points)"""
    res = []
    k = max(0, bisect.bisect_right(starts, s) - 1)
    x = s
    while k < len(cover) and cover[k][0] < e and x < e:
        cs, ce = cover[k]
        if ce > x:
            if cs > x:
                res.append([x, min(cs, e)])
            x = max(x, ce)
        k += 1
    if x < e:
        res.append([x, e])
    return [iv for iv in res if iv[0] < iv[1]]


def first_diff(u, v):
    for x, y in zip(u, v):
        if x != y:
            return x, y
    return (u[len(v)] if len(u) > len(v) else None), (v[len(u)] if len(v) > len(u) else None)


def oracle_union_fast(case, out, provenance=True):
    a = [(i, t, d, x) for t, d, x, i in case["a"]]
    b = [(i, t, d, x) for t, d, x, i in case["b"]]
    pos = sorted((o for o in out if o[2] > 0), key=lambda o: o[1])
    end, who = None, None
    for o in pos:
        if end is not None and o[1] < end:
            return f"no-overlap: returned events {who[:3]} and {o[:3]} both cover [{o[1] - BASE},{min(end, o[1] + o[2]) - BASE})"
        if end is None or o[1] + o[2] > end:
            end, who = o[1] + o[2], o
    want = merged([(t, t + d) for (_, t, d, _) in a + b])
    got = merged([(t, t + d) for (_, t, d, _) in out])
    if want != got:
        w, g = first_diff(want, got)
        return (f"cover-is-union: the inputs cover {None if w is None else [w[0] - BASE, w[1] - BASE]} where the result covers "
                f"{None if g is None else [g[0] - BASE, g[1] - BASE]}")
    if not provenance:
        rest = list(out)
        for e in a:
            k = next((j for j, o in enumerate(rest) if TX.strict_eq(o, e)), None)
            if k is None:
                return f"list-one-intact: list-one event {e[:3]} is not returned unchanged"
            del rest[k]
        return None
    akeys = {e[3]["k"] for e in a}
    bkey = {e[3]["k"]: e for e in b}
    out_a = [o for o in out if isinstance(o[3], dict) and o[3].get("k") in akeys]
    if not TX.strict_eq(out_a, a):
        return f"list-one-intact: list-one events in the result differ from list one (first difference {first_diff([o for o in out_a], a)})"
    pieces = {k: [] for k in bkey}
    for o in out:
        k = o[3].get("k") if isinstance(o[3], dict) else None
        if k in akeys:
            continue
        f = bkey.get(k)
        if f is None:
            return f"pieces: returned event {o} comes from neither list"
        if not TX.strict_eq(o[3], f[3]) or o[0] != f[0]:
            return f"pieces: piece {o} does not keep the data/id of its source {f}"
        if not (f[1] <= o[1] and o[1] + o[2] <= f[1] + f[2] and o[2] >= 0):
            return f"pieces: piece {o[:3]} does not lie inside its source {f[:3]}"
        pieces[k].append(o)
    cover_a = merged([(t, t + d) for (_, t, d, _) in a])
    starts_a = [c[0] for c in cover_a]
    for k, f in bkey.items():
        ps = sorted((p for p in pieces[k] if p[2] > 0), key=lambda p: p[1])
        for p, q in zip(ps, ps[1:]):
            if q[1] < p[1] + p[2]:
                return f"pieces: two pieces of {f[:3]} overlap on [{q[1] - BASE},{min(p[1] + p[2], q[1] + q[2]) - BASE})"
        want = subtract(f[1], f[1] + f[2], cover_a, starts_a)
        got = merged([(p[1], p[1] + p[2]) for p in ps])
        if want != got:
            return (f"pieces: list-two event {f[:3]} minus list one is {[[s - BASE, e - BASE] for s, e in want][:4]} but its pieces "
                    f"cover {[[s - BASE, e - BASE] for s, e in got][:4]}")
    return None


# --------------------------------------------------------------------------- generators


def sorted_list(rng, n, unit, side, vals=True):
    t = rng.randrange(0, 4)
    evs = []
    for i in range(n):
        t += rng.choice([0, 0, 0, 1, 1, 2, 3, 7])
        d = rng.choice([0, 0, 1, 1, 2, 3, 5, 9])
        data = {"k": "%s%d" % (side, i), "app": rng.choice(["x", "y"])}
        if vals and rng.random() < 0.8:
            data["n"] = rng.choice(VALS)
        evs.append((BASE + t * unit, d * unit, data, rng.choice([None, None, 100 * (side == "b") + i])))
        t += d
    return evs


def gen_big(rng, n):
    """list one: n events of 5..8 units every 10 units; list two: n events, one per period: inside the list-one
    event (dropped), straddling its end / its start, in the gap, zero-length, or spanning the next one or two."""
    U = 1000
    adur = {}

    def a_dur(i):
        if i not in adur:
            adur[i] = rng.choice([5, 6, 8, 8]) * U
        return adur[i]
    b = []
    i = 0
    while len(b) < n:
        s = BASE + i * 10 * U
        end_a = s + a_dur(i)
        r = rng.random()
        if r < 0.78:
            t, d = s + rng.choice([0, 1, 2]) * U, rng.choice([0, 1, 2, 3]) * U                   # inside: dropped
        elif r < 0.86:
            t, d = end_a - rng.choice([0, 1, 2]) * U, rng.choice([1, 2, 3]) * U                    # across the end
        elif r < 0.92:
            t, d = s + 8 * U, rng.choice([1, 2, 3, 4]) * U                                        # gap / across the next start
        elif r < 0.95:
            t, d = s + 9 * U, 0
        else:
            t, d = s + rng.choice([1, 6, 9]) * U, rng.choice([10, 17, 25]) * U                   # spans one or two list-one events
        t = max(t, (b[-1][0] + b[-1][1]) if b else t)
        j = len(b)
        b.append((t, d, {"k": "b%d" % j}, 50_000 + j if j % 2 else None))
        i = max(i + 1, (t + d - BASE) // (10 * U))
    a = [(BASE + k * 10 * U, a_dur(k), {"k": "a%d" % k}, None if k % 3 else k) for k in range(max(n, i + 1))]
    return {"kind": "union", "stream": "big", "a": a, "b": b}


# --------------------------------------------------------------------------- running


class Route:
    """stands in for the module aw_transform.union_no_overlap in c15.run_impl"""

    def __init__(self, uno, ql, route):
        self.uno, self.ql, self.route = uno, ql, route
        self.last = None
        self._split_event = uno._split_event

    def union_no_overlap(self, a, b):
        self.last = None
        if self.route == "direct":
            r = self.uno.union_no_overlap(a, b)
        else:
            r = self.ql.call(self.route, "union_no_overlap", a, b)
        self.last = r
        return r


class Runner:
    def __init__(self, ck, c15, Event, uno, have_driver):
        self.ck, self.c15, self.Event, self.uno, self.have_driver = ck, c15, Event, uno, have_driver
        self.ql = TX.QueryLayer()
        self.labels = TX.FastLabels()
        self.pending = []
        self.minimised = False
        self.routes = {r: Route(uno, self.ql, r) for r in TX.ROUTES}

    def verdict(self, case, route, live=None, fast=False):
        """-> (impl result, first failed clause or None); out of the domain only 'inputs not modified' is judged"""
        c15 = self.c15
        out, nm = c15.run_impl(case, self.Event, self.routes[route], live=live)
        if nm:
            return out, "inputs-not-modified: " + nm
        if not c15.in_domain(case):
            return out, None
        if out[0] != "ok":
            return out, f"raises: union_no_overlap raised {out[1]} on sorted non-overlapping inputs"
        bad = oracle_union_fast(case, out[1]) if fast else c15.oracle_union(case, out[1])
        if not fast and (oracle_union_fast(case, out[1]) is None) != (bad is None):
            self.ck.count("interval-oracle-differs-from-oracle(harness defect)")
        return out, bad

    def call(self, case, route, live=None, replay=None, fast=False, model=True, shrink=None):
        ck, c15 = self.ck, self.c15
        out, bad = self.verdict(case, route, live, fast)
        rep = replay or (lambda: c15.replay_obj(c15.jsonable(case), out))
        ck.evaluations += 1
        ck.count("stream=" + case["stream"])
        ck.count("route:" + route)
        if not c15.in_domain(case):
            ck.count("session:out-of-domain(correspondence only)")
        if bad:
            d = rep()
            if live is None and not bad.startswith("inputs-not-modified") and \
                    (self.verdict(case, route, None, fast)[1] or "").split(":")[0] != bad.split(":")[0]:
                bad += TX.HISTORY_NOTE
            elif shrink and (not ck.violations or (live is not None and not self.minimised)):
                self.minimised = self.minimised or live is not None
                bad, d = shrink(bad, d)
            d["route"] = route
            ck.failing_input("C15:" + bad.split(":")[0], f"[{case['stream']}/{route}] " + bad, d)
        fs, nontrivial = c15.features(case) if len(case["a"]) + len(case["b"]) < 200 else (set(), True)
        if nontrivial:
            ck.nontrivial.add(common.hashlib.sha1(json.dumps([route, c15.jsonable(case)["a"][:50], c15.jsonable(case)["b"][:50],
                                                              len(case["a"]), len(case["b"])], default=str).encode()).hexdigest())
        if model:
            w = c15.case_wire(case, self.labels)
            io = [0, [(i, t, d, self.labels.label(x)) for i, t, d, x in out[1]]] if out[0] == "ok" else [1, c15.ERRCODE.get(out[1], 10)]
            self.pending.append((case["stream"], w, io, rep))
        return bad

    def compare_with_model(self):
        if not (self.have_driver and self.pending):
            return
        model = common.run_driver("C15", [w for (_, w, _, _) in self.pending])
        for (stream, w, io, rep), mo in zip(self.pending, model):
            mo_c = [0, [ev_unwire(e) for e in mo[1]]] if mo and mo[0] == 0 else mo
            if mo_c != io:
                self.ck.count("disagreement")
                short = (lambda v: v if not (isinstance(v, list) and len(v) == 2 and isinstance(v[1], list) and len(v[1]) > 12)
                         else [v[0], v[1][:12], "... %d events" % len(v[1])])
                d = rep()
                self.ck.disagreement("union_no_overlap/" + stream, f"model {short(mo_c)} impl {short(io)}", d)


def live_case(S, stream):
    return {"kind": "union", "stream": stream, "a": S.specs("a"), "b": S.specs("b")}


def run(ck, c15, Event, uno, have_driver):
    t0 = time.time()
    rng = ck.rng
    quick = ck.tier == "quick"
    R = Runner(ck, c15, Event, uno, have_driver)
    TX.make_room(ck)

    # -- q2
    n_q2 = 500 if quick else 20_000
    for k in range(n_q2):
        unit = rng.choice([1000, 1000, 1_000_000, 250_000])
        case = {"kind": "union", "stream": "q2", "a": sorted_list(rng, rng.choice([0, 1, 2, 3, 4, 6, 12]), unit, "a"),
                "b": sorted_list(rng, rng.choice([0, 1, 2, 3, 4, 6, 12]), unit, "b")}
        R.call(case, ("registry", "program")[k % 2])

    # -- sessions
    n_sessions = 150 if quick else 6000
    allowed = [s for s in TX.Session.STEPS if s != "swap"]
    for _ in range(n_sessions):
        unit = rng.choice([1000, 1000, 1_000_000])
        base = {"a": sorted_list(rng, rng.choice([1, 1, 2, 3, 4]), unit, "a"), "b": sorted_list(rng, rng.choice([0, 1, 2, 3, 4]), unit, "b")}
        pool = [{"app": "x", "n": 1}, {"app": "y", "n": True}, {"app": "x"}, {"n": 0, "m": [1]}]
        S = TX.Session(Event, base, protect_keys=("k",), sorted_lists=True, pool=pool)
        for name in S.plan(rng, rng.choice([6, 8, 10]), allowed):
            what = S.step(name, rng)
            if what is None:
                continue
            route = rng.choice(TX.ROUTES)
            S.record(name, what, {"route": route, "module": "aw_transform.union_no_overlap", "name": "union_no_overlap"})
            k = len(S.log)
            case = live_case(S, "session")

            def shrink(bad, d, S=S, k=k):
                steps, ok = TX.minimise_session(S.log[:k], "harness.c15_hist", bad.split(":")[0])
                return bad, TX.session_replay(steps, ok)
            bad = R.call(case, route, live=(S.lists["a"], S.lists["b"]), replay=lambda S=S, k=k: S.replay(k), shrink=shrink)
            S.results.append(R.routes[route].last)
            ck.count("session-step:" + name)
            if bad:
                break

    # -- big
    # quick: one pair, through the registered function (which calls the anchored one), with the model
    bigs = [("registry", True)] if quick else [("direct", True), ("registry", True), ("program", False), ("direct", False)]
    for route, with_model in bigs:
        n = TX.BIG_N + rng.randrange(0, 300) if quick else rng.choice([TX.BIG_N, 15_013])
        case = gen_big(rng, n)
        ck.count("len>=%d+%d" % (TX.BIG_N, TX.BIG_N))

        def shrink(bad, d, case=case, route=route):
            """drop events while a clause of the same name still fails (fresh objects every time)"""
            sig = bad.split(":")[0]

            def verdict(c):
                return R.verdict(c, route, fast=True)

            def fails(a, b):
                m = verdict(dict(case, a=a, b=b))[1]
                return m is not None and m.split(":")[0] == sig
            a, b = list(case["a"]), list(case["b"])
            a = common.shrink_list(a, lambda x: fails(x, b), 40)
            b = common.shrink_list(b, lambda x: fails(a, x), 40)
            a = common.shrink_list(a, lambda x: fails(x, b), 40)
            small = dict(case, a=a, b=b)
            o, m = verdict(small)
            if not (m and m.split(":")[0] == sig):
                return bad, d
            d2 = big_replay(small, route)
            d2["impl_output"] = o
            return m, d2
        R.call(case, route, fast=True, model=with_model, replay=lambda case=case, route=route: big_replay(case, route), shrink=shrink)
    try:
        from . import c15_edge          # round 5: containers, data dict types, numeric extremes, faults
        c15_edge.run(R)
    except Exception as ex:  # noqa: BLE001    a tree on which the edge streams cannot even run: the tie is not established
        import traceback
        ck.disagreement("edge streams", f"harness/c15_edge.py could not complete against this tree: {type(ex).__name__}: {str(ex)[:200]}",
                        {"traceback": traceback.format_exc()[-1500:]})
    R.compare_with_model()
    TX.prefer_session_failure(ck)
    ck.coverage["round3"] = {
        "q2": f"{n_q2} random sorted non-overlapping pairs through functions['union_no_overlap'] and a query2 statement",
        "session": f"{n_sessions} call sequences on live objects (same / ==-equal with other ids and look-alike data / edited in between / "
                   "vandalised results), routes mixed; statement read with typed equality",
        "big": [f"{r}: two lists of >= {TX.BIG_N} events" + (" (+ model)" if m else " (oracle only)") for r, m in bigs],
        "wall_s": round(time.time() - t0, 1)}


def big_replay(case, route):
    return {"call": "union_no_overlap(a, b)", "route": route, "n_events": [len(case["a"]), len(case["b"])],
            "case": {"kind": "union", "stream": case["stream"], "a": [list(s) for s in case["a"]], "b": [list(s) for s in case["b"]]},
            "event_spec": "(timestamp_us_since_epoch, duration_us, data, id)",
            "rerun_hint": "PYTHONPATH=<repo>:/verif /venv/bin/python -m harness.c15_hist replay <this file>"}


def replay_main(path):
    from . import c15
    obj = json.load(open(path))
    r = obj.get("replay", obj)
    if "session" in r:
        return TX.replay_main(path)
    if "case" not in r:
        print("nothing to replay in", path)
        return 2
    common.setup_impl_env()
    Event, uno = c15._impl()
    case = r["case"]
    for k in ("a", "b"):
        case[k] = [tuple(s) for s in case[k]]
    route = r.get("route", "direct")
    out, nm = c15.run_impl(case, Event, Route(uno, TX.QueryLayer(), route))
    bad = ("inputs-not-modified: " + nm) if nm else (oracle_union_fast(case, out[1], provenance=case["stream"] != "shared")
                                                     if out[0] == "ok" else f"raises {out[1]}")
    print(f"{len(case['a'])} + {len(case['b'])} events, route {route}: {len(out[1]) if out[0] == 'ok' else out} output events")
    print("property oracle:", bad or "holds")
    return 1 if bad else 0


def session_judge(Event):
    from . import c15
    ck = common.Check("C15", ["quick"])
    R = Runner(ck, c15, Event, c15._impl()[1], False)

    def judge(st, args):
        c = {"kind": "union", "stream": "session", "a": [TX.spec_of(o) for o in args[0]], "b": [TX.spec_of(o) for o in args[1]]}
        return R.verdict(c, st["call"]["route"], live=(args[0], args[1]))[1]
    return judge


if __name__ == "__main__":
    if len(sys.argv) >= 3 and sys.argv[1] == "replay":
        sys.exit(replay_main(sys.argv[2]))
    if len(sys.argv) >= 3 and sys.argv[1] == "judge":
        sys.exit(TX.judge_main(sys.argv[2], session_judge))
    print(__doc__)
