"""C08 — heartbeat_merge / heartbeat_reduce: correspondence with Model/Heartbeat.v and the
property statement evaluated on the implementation."""
import copy
import itertools
import sys

from . import common
from .common import Check, sx
from .evutil import BASE, ev_unwire, ev_view, ev_wire, mk_event, pulse_us

RULE = ("boundary grid (every ordering of start/end/pulse edges on a 0..4 grid, negative and zero "
        "durations, equal/different data) then seeded random pairs and lists up to 12 events; "
        "non-trivial = distinct canonical case in which at least one merge attempt was made on "
        "equal data (the rule's window test is exercised)"
        "; round 3 (harness/c08_hist.py): the package-level names aw_transform.heartbeat_*; call sequences in one process on live "
        "objects (the same / ==-equal with other ids and look-alike data / edited in between / earlier results emptied), every "
        "call judged alone; heartbeat_reduce on >= 10 001 heartbeats")

DATA = [{"app": "a"}, {"app": "b"}, {"app": "a", "title": "x"}, {}, {"n": 1}, {"n": 1.0}, {"n": True}]
PULSES = [0, 0.5, 1, 2, 2.5, 5, 0.001, 0.0000005, 1e-6, 3.0000015]


def gen_pairs_grid():
    unit = 1_000_000
    for lt, ld, ht, hd, p, same in itertools.product(range(0, 3), (-1, 0, 1, 2), range(0, 5), (-1, 0, 1, 3),
                                                     (0, 1, 2), (True, False)):
        yield ("merge", p, [(BASE + lt * unit, ld * unit, DATA[0]),
                            (BASE + ht * unit, hd * unit, DATA[0] if same else DATA[1])])


def gen_random(rng, n_pairs, n_lists):
    for _ in range(n_pairs):
        unit = rng.choice([1000, 1_000_000, 500_000])
        lt = rng.randrange(0, 6)
        ld = rng.choice([-2, -1, 0, 0, 1, 2, 3, 5]) * unit + rng.choice([0, 0, 1, -1, 499])
        ht = lt + rng.choice([-1, 0, 0, 1, 2, 3, 4, 6])
        hd = rng.choice([-1, 0, 0, 1, 2, 7]) * unit + rng.choice([0, 0, 1, 333])
        p = rng.choice(PULSES)
        d1 = rng.choice(DATA)
        d2 = d1 if rng.random() < 0.7 else rng.choice(DATA)
        yield ("merge", p, [(BASE + lt * unit, ld, d1), (BASE + ht * unit, hd, copy.deepcopy(d2))])
    for _ in range(n_lists):
        n = rng.randrange(0, 13)
        unit = rng.choice([1000, 1_000_000])
        t = 0
        evs = []
        pool = rng.sample(DATA, rng.choice([1, 2, 3]))
        for _ in range(n):
            t += rng.choice([0, 0, 1, 1, 2, 3, 5, -1])
            d = rng.choice([0, 0, 1, 2, 4, -1]) * unit + rng.choice([0, 0, 0, 250])
            evs.append((BASE + t * unit, d, copy.deepcopy(rng.choice(pool))))
        yield ("reduce", rng.choice(PULSES), evs)


def run_impl(case, Event, hb, labels, objs=None):
    """`objs` (round 3, harness/c08_hist.py): the live objects of a call sequence instead of fresh ones"""
    kind, p, evs = case
    if objs is None:
        objs = [mk_event(Event, t, d, copy.deepcopy(x)) for t, d, x in evs]
    if kind == "merge":
        m = hb.heartbeat_merge(objs[0], objs[1], p)
        return None if m is None else [ev_view(m, labels)]
    return [ev_view(e, labels) for e in hb.heartbeat_reduce(objs, p)]


def oracle(case, out, Event, hb, labels, mk_event=mk_event):
    """The property statement, evaluated on the implementation's own answers.
    An event of the case is (ts, dur, data) or (ts, dur, data, id): ids are carried along (round 3).
    `mk_event` (round 5): the constructor for the oracle's own events (txedge.mk_event near the ends of the datetime range)."""
    kind, p, evs = case
    P = pulse_us(p)
    if kind == "merge":
        (lt, ld, lx, *_), (ht, hd, hx, *_) = evs
        should = (lx == hx) and lt <= ht <= lt + ld + P and ld >= 0
        if should != (out is not None):
            return f"merge iff rule: expected merged={should}, got {out}"
        if out is not None:
            (i, t, d, x) = out[0]
            if t != lt or labels.value(x) != lx or t + d != max(lt + ld, ht + hd) or d < ld:
                return f"hull rule violated: {out}"
        return None
    # reduce: left fold of the implementation's own merge
    acc = []
    for t, d, x, *i in evs:
        e = mk_event(Event, t, d, copy.deepcopy(x), *i)
        if acc:
            m = hb.heartbeat_merge(acc[-1], e, p)
            if m is not None:
                acc[-1] = m
                continue
        acc.append(e)
    fold = [ev_view(e, labels) for e in acc]
    if fold != out:
        return f"reduce is not the left fold of merge: {out} vs {fold}"
    for a, b in zip(out, out[1:]):
        if labels.value(a[3]) == labels.value(b[3]) and a[1] <= b[1] <= a[1] + a[2] + P and a[2] >= 0:
            return f"two consecutive outputs are mergeable: {a} {b}"
    again = [ev_view(e, labels) for e in
             hb.heartbeat_reduce([mk_event(Event, t, d, copy.deepcopy(labels.value(x)), i) for i, t, d, x in out], p)]
    if again != out:
        return f"reduce is not idempotent: {out} -> {again}"
    for t, d, x, *_ in evs:
        if d >= 0 and not any(o[1] <= t and t + d <= o[1] + o[2] and labels.value(o[3]) == x for o in out):
            return f"input interval ({t},{d}) not covered"
    return None


def main(argv=None):
    ck = Check("C08", argv)
    common.setup_impl_env()
    from aw_core.models import Event
    import aw_transform.heartbeats as hb

    ck.prove(extra_targets=["Bridge/BridgeHeartbeat.v"], gen_kernels=["heartbeat_merge", "heartbeat_reduce"])
    have_driver = ck.driver()

    n_pairs, n_lists = (3000, 1500) if ck.tier == "quick" else (150000, 60000)
    cases = list(gen_pairs_grid()) + list(gen_random(ck.rng, n_pairs, n_lists))
    labels = common.Labels()
    wire = []
    impl = []
    for case in cases:
        kind, p, evs = case
        try:
            out = run_impl(case, Event, hb, labels)
        except Exception as ex:  # noqa: BLE001    the statement is about all pairs / lists: the functions return
            ck.failing_input("C08:raises", f"heartbeat_{kind} raised {type(ex).__name__}: {str(ex)[:120]}",
                             {"call": kind, "pulsetime_s": p, "events": [(t, d, x) for t, d, x in evs]})
            ck.count(kind + ":raised")
            out = "raised"
        impl.append(out)
        views = [ev_wire((None, t, d, labels.label(x))) for t, d, x in evs]
        if kind == "merge":
            wire.append(sx([0, pulse_us(p), views[0], views[1]]))
        else:
            wire.append(sx([1, pulse_us(p), views]))
        ck.count(kind)
        ck.count("len=%d" % len(evs))
        if out == "raised":
            continue
        merged_some = (out is not None) if kind == "merge" else (len(out) < len(evs))
        ck.count("merged" if merged_some else "not-merged")
        same_data = any(a[2] == b[2] for a, b in zip(evs, evs[1:]))
        ck.note_case([kind, pulse_us(p), [(t - BASE, d, labels.label(x)) for t, d, x in evs]], nontrivial=same_data)
        if len(ck.samples) < 4 and merged_some and len(evs) >= 2:
            ck.sample({"kind": kind, "pulsetime_s": p, "events_us_rel": [(t - BASE, d, x) for t, d, x in evs],
                       "impl": [list(o) for o in out]})
        try:
            bad = oracle(case, out, Event, hb, labels)
        except Exception as ex:  # noqa: BLE001    the oracle re-applies the implementation's own merge / reduce
            bad = f"raises: heartbeat_merge / heartbeat_reduce raised {type(ex).__name__} while the statement was evaluated on {out}"
        if bad:
            ck.failing_input("C08:" + bad.split(":")[0], bad,
                             {"call": kind, "pulsetime_s": p, "events": [(t, d, x) for t, d, x in evs], "impl_output": out})
    from . import c08_hist          # round 3: the package-level names, call sequences on live objects, >= 10 001 heartbeats
    c08_hist.run(ck, sys.modules[__name__], Event, hb, labels, have_driver, cases)
    if have_driver:
        model = common.run_driver("C08", wire)
        for case, w, mo, io in zip(cases, wire, model, impl):
            if io == "raised":       # already reported
                continue
            mo_c = None if (case[0] == "merge" and mo == []) else [ev_unwire(e) for e in mo]
            io_c = None if io is None else [tuple(e) for e in io]
            if mo_c != io_c:
                ck.disagreement("heartbeat", f"{case[0]}: model {mo_c} impl {io_c}",
                                {"case": w, "pulsetime_s": case[1], "events": case[2], "model": mo, "impl": io})
    ck.assumptions += ["pulsetime enters the model as the integer microseconds Python's timedelta(seconds=p) yields",
                       "event data compared through harness-assigned labels (one per Python == class)"]
    return ck.finish(RULE)


if __name__ == "__main__":
    sys.exit(main())
