"""Histories for the C06 / C18 checks.  A history is a generator function taking the
Runner (so it can aim at event ids / buckets that exist) and yielding concrete steps
(dt_us, tick_us, spec); the executed steps are concrete and replayable as they are."""
from .c06_lib import S

MS = 1000


def _ins(b, n, dt=MS, tick=0):
    for _ in range(n):
        yield (dt, tick, ("insert_one", b))


def _create(b, dt=MS):
    return (dt, 0, ("create_bucket", b))


# ---------------------------------------------------------------------------
# deterministic boundary corpus


def corpus():
    """-> list of (name, lazy, history)"""
    out = []

    def add(name, h, lazy=True):
        out.append((name, lazy, h))

    # count threshold: n = 49, 50, 51, 52 writes of each kind on a clean transaction
    for n in (49, 50, 51, 52):
        def h_ins(r, n=n):
            yield _create("b")
            yield from _ins("b", n)
        add(f"threshold-insert-{n}", h_ins)

        def h_del(r, n=n):
            yield _create("b")
            yield (MS, 0, ("insert_many", "b", (), n + 3))
            yield (MS, 0, ("get_events", "b", -1))
            for i in r.event_ids("b")[:n]:
                yield (MS, 0, ("delete", "b", i))
        add(f"threshold-delete-{n}", h_del)

        def h_rep(r, n=n):
            yield _create("b")
            yield (MS, 0, ("insert_many", "b", (), 5))
            yield (MS, 0, ("get_eventcount", "b"))
            ids = r.event_ids("b")
            for k in range(n):
                yield (MS, 0, ("replace", "b", ids[k % len(ids)]) if k % 2 else ("replace_last", "b"))
        add(f"threshold-replace-{n}", h_rep)

        def h_mix(r, n=n):
            yield _create("b")
            yield (MS, 0, ("insert_many", "b", (), 30))
            yield (MS, 0, ("get_eventcount", "b"))
            ids = r.event_ids("b")
            for k in range(n):
                yield (MS, 0, [("insert_one", "b"), ("delete", "b", ids[k % 30]), ("replace_last", "b"),
                               ("replace", "b", ids[(k * 7) % 30])][k % 4])
            yield (MS, 0, ("get_events", "b", 0))       # limit 0: no commit
            yield (MS, 0, ("buckets",))
        add(f"threshold-mixed-{n}", h_mix)

    # insert_many of m rows on top of p pending writes, with and without upserts
    for p in (0, 1, 49, 50):
        for m in (0, 1, 49, 50, 51, 52, 99, 100, 101):
            def h_many(r, p=p, m=m):
                yield _create("b")
                yield from _ins("b", p)
                yield (MS, 0, ("insert_many", "b", (), m))
                yield from _ins("b", 2)
            add(f"insert_many-{m}-on-{p}", h_many)
    for p in (0, 47, 48, 49, 50):
        def h_ups(r, p=p):
            yield _create("b")
            yield (MS, 0, ("insert_many", "b", (), 6))
            yield (MS, 0, ("get_eventcount", "b"))
            ids = r.event_ids("b")
            yield from _ins("b", p)
            yield (MS, 0, ("insert_many", "b", (ids[0], ids[2], 999999), 4))
            yield (MS, 0, ("insert_many", "b", (ids[1],), 0))
            yield (MS, 0, ("insert_many", "b", (), 0))
        add(f"insert_many-upserts-on-{p}", h_ups)

    # bucket operations flush; delete_bucket is two statements
    def h_buckets(r):
        yield _create("a")
        yield from _ins("a", 7)
        yield (MS, 0, ("update_bucket", "a", 1))
        yield from _ins("a", 5)
        yield _create("b")
        yield from _ins("b", 3)
        yield from _ins("a", 3)
        yield (MS, 0, ("delete_bucket", "b"))
        yield from _ins("a", 49)
        yield (MS, 0, ("delete_bucket", "a"))
        yield _create("c")
        yield (MS, 0, ("delete_bucket", "c"))          # empty bucket: first DELETE changes nothing
        yield _create("d")
        yield from _ins("d", 50)
        yield (MS, 0, ("update_bucket", "d", 2))
    add("bucket-ops", h_buckets)

    # reads flush (except get_events(limit=0), buckets(), get_metadata())
    def h_reads(r):
        yield _create("b")
        for call in (("get_events", "b", 0), ("buckets",), ("get_metadata", "b"), ("get_events", "b", -1),
                     ("get_events", "b", 1), ("get_eventcount", "b"), ("get_event", "b", 1), ("get_event", "b", 424242)):
            yield from _ins("b", 3)
            yield (MS, 0, call)
    add("reads", h_reads)

    # calls that raise
    def h_bad(r):
        yield _create("b")
        yield from _ins("b", 4)
        yield (MS, 0, ("insert_one", "nope"))
        yield _create("b")
        yield (MS, 0, ("update_bucket", "b", None))
        yield (MS, 0, ("update_bucket", "nope", 3))
        yield (MS, 0, ("insert_many", "nope", (1, 2), 3))
        yield (MS, 0, ("insert_many", "nope", (1,), 0))
        yield (MS, 0, ("delete", "b", 987654))
        yield (MS, 0, ("delete", "nope", 1))
        yield (MS, 0, ("replace", "b", 987654))
        yield (MS, 0, ("replace_last", "nope"))
        yield (MS, 0, ("get_metadata", "nope"))
        yield (MS, 0, ("delete_bucket", "nope"))
        yield (MS, 0, ("get_eventcount", "nope"))
        yield from _ins("b", 48)
    add("rejected-calls", h_bad)

    # a bulk insert that raises part-way: its rows are counted by the finally clause (the
    # accumulating witness of the pre-ec39c3d defect is corpus/c06_partial_bulk_failure.json)
    def h_partial(r):
        yield _create("b")
        yield from _ins("b", 3)
        yield (MS, 0, ("insert_many_bad", "b", (1,), 4))
        yield from _ins("b", 2)
        yield (MS, 0, ("insert_many_bad", "b", (), 0))
        yield (MS, 0, ("insert_many_bad", "nope", (2,), 3))
        yield from _ins("b", 38)
    add("partial-bulk-failure-small", h_partial)

    # an insert_many whose UPSERT loop raises part-way (bind-time overflow of an id-carrying event):
    # since a00ceb1 the loop is inside the try, the upserts that ran are counted by the finally
    # clause (with the loop outside the try they would stay in the open transaction uncounted:
    # 3 x 20 > 50 below)
    def h_partial_upserts(r):
        yield _create("b")
        yield (MS, 0, ("insert_many", "b", (), 25))
        yield (MS, 0, ("get_eventcount", "b"))
        ids = r.event_ids("b")
        yield (MS, 0, ("insert_many_badup", "b", tuple(ids[:3]), 2, 2))
        yield (MS, 0, ("insert_many_badup", "b", tuple(ids[:1]), 0, 0))
        yield (MS, 0, ("insert_many_badup", "nope", tuple(ids[:2]), 1, 1))
        yield (MS, 0, ("get_eventcount", "b"))
        for _ in range(3):
            yield (MS, 0, ("insert_many_badup", "b", tuple(ids[:21]), 20, 0))
        yield from _ins("b", 3)
    add("partial-bulk-failure-in-the-upserts", h_partial_upserts)

    # age: one write at exactly gap after the flush, then another 1 ms later
    for gap in (9_999_000, 9_999_999, 10_000_000, 10_000_001, 10_001_000, 30 * S, 3600 * S):
        for kind in ("insert_one", "delete", "replace", "replace_last", "insert_many"):
            def h_age(r, gap=gap, kind=kind):
                yield _create("b")
                yield (MS, 0, ("insert_many", "b", (), 3))
                yield (MS, 0, ("get_eventcount", "b"))                 # flush at time T
                ids = r.event_ids("b")
                spec = {"insert_one": ("insert_one", "b"), "delete": ("delete", "b", ids[0]),
                        "replace": ("replace", "b", ids[1]), "replace_last": ("replace_last", "b"),
                        "insert_many": ("insert_many", "b", (), 2)}[kind]
                yield (gap, 0, spec)
                yield (MS, 0, ("insert_one", "b"))
                yield (gap, 0, ("insert_many", "b", (ids[1], ids[2]), 1))  # several statements, one commit decision
                yield (gap - 2 * MS, 0, ("insert_one", "b"))
            add(f"age-{kind}-{gap}", h_age)

    # trickles below the count threshold and idle periods followed by bursts
    for period in (4 * S, 9_999_999, 10 * S, 10_000_001, 11 * S):
        def h_trickle(r, period=period):
            yield _create("b")
            for k in range(9):
                yield (period, 0, ("insert_one", "b") if k % 3 else ("replace_last", "b"))
        add(f"trickle-{period}", h_trickle)

    def h_idle(r):
        yield _create("b")
        yield from _ins("b", 5)
        yield from _ins("b", 60, dt=1)
        yield (7200 * S, 0, ("insert_one", "b"))
        yield from _ins("b", 55, dt=200 * MS)
        yield (9 * S, 0, ("get_events", "b", 0))
        yield (2 * S, 0, ("insert_one", "b"))
    add("idle-then-burst", h_idle)

    # the clock moves between the readings of one conditional_commit
    for tick in (1, S, 4 * S, 6 * S, 11 * S):
        def h_tick(r, tick=tick):
            yield _create("b")
            yield from _ins("b", 49, dt=1)
            yield (0, tick, ("insert_one", "b"))
            yield (0, tick, ("insert_one", "b"))      # the 51st counted statement
            yield (0, tick, ("insert_one", "b"))
            yield (0, tick, ("insert_many", "b", (1, 2), 60))
            yield (0, tick, ("update_bucket", "b", 5))
            yield (0, tick, ("get_eventcount", "b"))
            yield (5 * S, tick, ("insert_one", "b"))
            yield (5 * S, tick, ("delete", "b", 1))
        add(f"ticking-clock-{tick}", h_tick)

    # eager store
    def h_eager(r):
        yield _create("b")
        yield from _ins("b", 5)
        yield (MS, 0, ("insert_many", "b", (1, 2), 3))
        yield (20 * S, 0, ("delete", "b", 1))
        yield (MS, 0, ("update_bucket", "b", 1))
    add("eager", h_eager, lazy=False)
    return out + enabled_corpus_files()


def enabled_corpus_files():
    """corpus/c06_*.json: concrete histories (same format as the replays); only those marked
    "enabled": true take part in the checks."""
    import glob
    import json
    import os
    out = []
    here = os.path.join(os.path.dirname(os.path.dirname(os.path.abspath(__file__))), "corpus")
    for f in sorted(glob.glob(os.path.join(here, "c06_*.json"))):
        o = json.load(open(f))
        if o.get("enabled"):
            out.append(("corpus:" + os.path.basename(f), o["history"]["lazy"], o["history"]["steps"]))
    return out


# ---------------------------------------------------------------------------
# seeded random histories

GAPS = [0, 1, MS, MS, MS, 500 * MS, 3 * S, 9_999_000, 10 * S, 10_000_001, 10_001_000, 30 * S, 3600 * S]
TICKS = [0, 0, 0, 0, 0, 1, S, 4 * S, 6 * S, 11 * S]


def random_history(rng, profile):
    """profile: 'mixed' | 'burst' | 'trickle' | 'bulk'"""
    n_calls = rng.randrange(20, 140)
    names = ["a", "b", "c"]

    def h(r):
        yield _create("a")
        burst = 0
        for _ in range(n_calls):
            have = r.bucket_ids()
            b = rng.choice(have) if have and rng.random() < 0.93 else rng.choice(names + ["nope"])
            if profile == "burst":
                if burst == 0 and rng.random() < 0.1:
                    burst = rng.choice([48, 49, 50, 51, 52, 60, 110])
                dt = rng.choice([0, 1, MS]) if burst else rng.choice(GAPS)
                burst = max(0, burst - 1)
            elif profile == "trickle":
                dt = rng.choice([3 * S, 4 * S, 9_999_999, 10 * S, 10_000_001, 12 * S, 40 * S])
            else:
                dt = rng.choice(GAPS)
            tick = rng.choice(TICKS) if rng.random() < 0.3 else 0
            ids = r.event_ids(b) if b in have else []
            some_id = (lambda: rng.choice(ids)) if ids and rng.random() < 0.9 else (lambda: rng.randrange(1, 500))
            x = rng.random()
            if profile == "bulk" and x < 0.35:
                ups = tuple(some_id() for _ in range(rng.choice([0, 0, 1, 2, 5])))
                yield (dt, tick, ("insert_many", b, ups, rng.choice([0, 1, 2, 10, 49, 50, 51, 99, 100, 101, 130])))
            elif x < 0.40:
                yield (dt, tick, ("insert_one", b))
            elif x < 0.52:
                yield (dt, tick, ("delete", b, some_id()))
            elif x < 0.62:
                yield (dt, tick, ("replace", b, some_id()))
            elif x < 0.72:
                yield (dt, tick, ("replace_last", b))
            elif x < 0.78:
                ups = tuple(some_id() for _ in range(rng.choice([0, 0, 1, 3])))
                yield (dt, tick, ("insert_many", b, ups, rng.choice([0, 1, 3, 8, 20, 51])))
            elif x < 0.82:
                yield (dt, tick, ("create_bucket", rng.choice(names)))
            elif x < 0.85:
                yield (dt, tick, ("update_bucket", b, rng.choice([None, 1, 2, 3])))
            elif x < 0.87:
                yield (dt, tick, ("delete_bucket", b))
            elif x < 0.90:
                yield (dt, tick, ("get_events", b, rng.choice([0, 0, 1, -1])))
            elif x < 0.92:
                yield (dt, tick, ("get_eventcount", b))
            elif x < 0.94:
                yield (dt, tick, ("get_event", b, some_id()))
            elif x < 0.97:
                yield (dt, tick, ("buckets",))
            else:
                yield (dt, tick, ("get_metadata", b))
    return h
