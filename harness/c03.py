"""C03 — time-window reads return exactly the intersecting events, newest first, limited.

Correspondence of Model/Window.v (Bucket.get's rounding + each back end's window read / count)
with the three real storages through the real `Bucket.get` / `Bucket.get_eventcount`, and the
property statement evaluated on the implementation's own outputs on exact integers.

  memory, sqlite : model and implementation compared exactly (ids, order, contents, counts, the
                   rounded edges Bucket.get forwards).  The float query parameters of sqlite.py
                   are evaluated inside Coq (Model/WindowFloat.v, harness/floatcases.py) and handed
                   to the extracted model as the integers SQLite's exact comparison makes of them.
  peewee         : SQLite's strftime/julianday end instant of every stored row is measured on the
                   engine itself (with the code's own dt_plus_duration expression) and handed to the
                   model as a table; given it the comparison is exact too.  The table is checked
                   against the Section hypothesis |sql_end_ms - (ts+dur)| <= 1000 and the largest
                   deviation goes into the evidence.  The relational statement (must <= got <= may,
                   clipping exact) is the oracle below.
"""
import multiprocessing
import os
import shutil
import sys
import tempfile
from datetime import timedelta, timezone

from . import common
from . import floatcases as fc
from . import store_hist as sh
from .common import Check
from .evutil import BASE, dt, us_of_dt, us_of_td

RULE = ("deterministic boundary corpus (all placements of two intervals incl. zero-length, touching, nested and "
        "overlapping ones on a 1 ms grid that straddles a whole second, every window whose edges are grid points "
        "+/- {0, 1, 500, 999} us, open-ended, zero-width and sub-millisecond windows, limits -1,0,1,2,n) then seeded "
        "random buckets of 0-8 events (durations 0 .. 24 h, a separate out-of-domain stream > 24 h for correspondence "
        "only) with windows whose edges sit within +/-3 ms of event edges at us resolution, tz offsets -12h..+14h, "
        "limits -5,-1,0,1,2,n,n+1; every case on memory, sqlite and peewee through Bucket.get / Bucket.get_eventcount; "
        "non-trivial = a windowed query on a bucket of >= 2 events that keeps some and drops some")

DELTA = 2000
DAY = 24 * 3600 * 1_000_000
SEC = 1_000_000
NEG_DUR_SIG = "C03:peewee-clip-negative-duration"
SHARP = {"memory": 0, "sqlite": 1}      # us; peewee's resolution is the statement's own tolerance


# ---------------------------------------------------------------------------
# cases
#   case  = {"events": [[ts, dur, label] ...], "queries": [q ...], "stream": str}
#   q     = ["get", limit, ws|None, we|None, off_min_s, off_min_e] | ["count", ws, we, off_s, off_e]
#           | ["round", utc, off_us]       (the rounding alone; off_us may be sub-millisecond)


def floor_ms(t):
    return t - t % 1000


def aware(us, off_min):
    return dt(us).astimezone(timezone(timedelta(minutes=off_min)))


OFFS = [0, 0, 0, -720, 840, 330, 345, -210, 60, 765]


def window_queries(ws, we, limits, rng=None):
    o1 = rng.choice(OFFS) if rng else 0
    o2 = rng.choice(OFFS) if rng else 0
    qs = [["get", -1, ws, we, o1, o2], ["count", ws, we, o1, o2]]
    for k in limits:
        qs.append(["get", k, ws, we, o1, o2])
    return qs


def boundary_cases():
    """Two intervals on a 1 ms grid around a whole second (grid point 2 = BASE + 1 s), every
    placement with lengths 0..3, windows over grid points +/- small offsets."""
    out = []
    g0 = BASE + SEC - 2000
    jit = [0, 1, 500, 999]
    placements = []
    for a in range(0, 4):
        for la in (0, 1, 2):
            for b in range(0, 5):
                for lb in (0, 1, 3):
                    if (a, la) <= (b, lb):
                        placements.append((a, la, b, lb))
    for n, (a, la, b, lb) in enumerate(placements):
        evs = [[g0 + a * 1000, la * 1000, 1], [g0 + b * 1000, lb * 1000, 2]]
        if n % 3 == 0:      # sub-millisecond duration variants (ends off the ms grid)
            evs[0][1] += 400
            evs[1][1] += 600
        qs = []
        edges = sorted({g0 + p * 1000 + j for p in range(-1, 7) for j in jit})
        # one full sweep of single-edge windows per placement, two-edge windows on a rotating subset
        for i, e in enumerate(edges):
            if (i + n) % 3 == 0:
                qs += window_queries(e, None, [1])
            if (i + n) % 3 == 1:
                qs += window_queries(None, e, [1, 2])
            if (i + n) % 3 == 2:
                w = [0, 1, 999, 1000, 2500][(i + n) % 5]
                qs += window_queries(e, e + w, [0, 1, 2])
        qs += window_queries(None, None, [0, 1, 2, 3])
        out.append({"events": evs, "queries": qs, "stream": "boundary"})
    # whole-second and 24 h prefilter boundaries
    for d in (DAY, DAY - 1, DAY - 1000, DAY + 1000, 2 * DAY):
        evs = [[BASE, d, 1], [BASE + 1000, 0, 2], [BASE + DAY, 1500, 3], [BASE - DAY, DAY, 4]]
        qs = []
        for e in (BASE + DAY - 1000, BASE + DAY, BASE + DAY + 1, BASE + DAY + 999, BASE + DAY + 1000,
                  BASE + DAY + 2000, BASE + DAY - 600, BASE, BASE - 1):
            qs += window_queries(e, None, [1, 4]) + window_queries(e, e + 5 * SEC, [2])
        out.append({"events": evs, "queries": qs, "stream": "long" if d > DAY else "boundary"})
    return out


BASES = [BASE, BASE, BASE + SEC - 3000, 4102444790 * SEC, 86400 * SEC, 2147483647 * SEC - 1000,
         951782400 * SEC + 999000, 1234567890 * SEC + 123000]
DUR_POOL = [0, 0, 1, 400, 999, 1000, 1001, 1500, 2000, 3000, 5000, SEC, SEC + 1, 3 * SEC, 3600 * SEC,
            DAY - 1, DAY]
LONG_POOL = [DAY + 1, DAY + 1000, 25 * 3600 * SEC, 2 * DAY]


def random_case(rng, long_stream=False):
    base = rng.choice(BASES)
    n = rng.choice([0, 1, 2, 2, 3, 3, 4, 5, 6, 8])
    grid = [base + k * 1000 for k in range(-4, 9)] + [base + SEC, base + 2 * SEC, base - SEC]
    evs = []
    for i in range(n):
        t = rng.choice(grid)
        d = rng.choice(DUR_POOL)
        if long_stream and rng.random() < 0.5:
            d = rng.choice(LONG_POOL)
        if rng.random() < 0.15:
            d = rng.randrange(0, 10_000)
        if rng.random() < 0.2 and evs:            # adjacent to / nested in an earlier event
            p = rng.choice(evs)
            t = rng.choice([p[0] + floor_ms(p[1]), p[0], p[0] + 1000])
        if d >= DAY - 1 and rng.random() < 0.7:   # a day-long event ending near the grid
            t = rng.choice(grid) - floor_ms(d)
        evs.append([t, d, i + 1])
    edges = sorted({x for t, d, _ in evs for x in (t, t + d)} | {base, base + SEC})
    qs = []
    for _ in range(rng.choice([6, 8, 10])):
        def edge():
            return rng.choice(edges) + rng.choice([0, 0, 1, -1, 500, -500, 999, -999, 1000, -1000, 1001, 2000,
                                                   -2000, 3000, -3000, rng.randrange(-3000, 3001)])
        a, b = edge(), edge()
        k = rng.random()
        if k < 0.2:
            ws, we = min(a, b), None
        elif k < 0.4:
            ws, we = None, max(a, b)
        elif k < 0.5:
            ws, we = a, a                                   # zero-width
        elif k < 0.62:
            ws, we = a, a + rng.choice([1, 10, 499, 999])   # sub-millisecond
        else:
            ws, we = min(a, b), max(a, b)
        lims = rng.sample([-5, 0, 1, 2, n, n + 1], 2)
        qs += window_queries(ws, we, lims, rng)
    qs += window_queries(None, None, [1])
    return {"events": evs, "queries": qs, "stream": "long" if long_stream else "random"}


def round_case(rng, n):
    """The rounding alone, through memory: aware datetimes with arbitrary (also sub-millisecond)
    utcoffsets."""
    qs = []
    offs_us = [0, 3600 * SEC, -5 * 3600 * SEC - 1800 * SEC, 1172 * SEC, 1, 999, 1500, -37, 500_000, -999_999]
    for _ in range(n):
        base = rng.choice(BASES)
        utc = base + rng.choice([0, 1, 999, 1000, 998_999, 999_000, 999_001, 999_999, rng.randrange(0, 2 * SEC)])
        qs.append(["round", utc, rng.choice(offs_us)])
    return {"events": [], "queries": qs, "stream": "round"}


# ---------------------------------------------------------------------------
# the implementation


def _ev_canon(e):
    return [e.id, us_of_dt(e.timestamp), us_of_td(e.duration), sh.label_of_data(e.data)]


def _parse_ms_text(s):
    """'YYYY-MM-DD HH:MM:SS.mmm+00:00' -> microseconds since the epoch."""
    from datetime import datetime
    return us_of_dt(datetime.strptime(s[:23], "%Y-%m-%d %H:%M:%S.%f").replace(tzinfo=timezone.utc))


def run_impl_case(case, backend, tmpdir, n):
    """-> {"stored": [[id, ts, dur, label] ...] (unwindowed read, ascending id), "answers": [...],
           "table": [[ts, dur, end_ms] ...] (peewee)}"""
    from aw_core.models import Event
    from aw_datastore import Datastore
    st = sh.open_storage(backend, tmpdir, n)
    try:
        ds = Datastore(lambda testing: st, testing=True)
        ds.create_bucket("b", "t", "c", "h", created=dt(BASE))
        bucket = ds["b"]
        for t, d, x in case["events"]:
            st.insert_one("b", Event(timestamp=dt(t), duration=timedelta(microseconds=d), data=sh.data_of(x)))
        seen = {}
        orig = st.get_events

        def spy(bucket_id, limit, starttime=None, endtime=None):
            seen["edges"] = [None if starttime is None else us_of_dt(starttime),
                             None if endtime is None else us_of_dt(endtime)]
            return orig(bucket_id, limit, starttime, endtime)
        st.get_events = spy
        stored = sorted(_ev_canon(e) for e in bucket.get(-1))
        answers = []
        for q in case["queries"]:
            seen.clear()
            try:
                if q[0] == "get":
                    _, limit, ws, we, o1, o2 = q
                    r = bucket.get(limit, None if ws is None else aware(ws, o1), None if we is None else aware(we, o2))
                    answers.append(["ok", [_ev_canon(e) for e in r], seen.get("edges")])
                elif q[0] == "count":
                    _, ws, we, o1, o2 = q
                    r = bucket.get_eventcount(None if ws is None else aware(ws, o1),
                                              None if we is None else aware(we, o2))
                    answers.append(["ok", int(r)])
                else:
                    _, utc, off = q
                    d = dt(utc).astimezone(timezone(timedelta(microseconds=off)))
                    bucket.get(1, d, d)
                    answers.append(["ok", seen.get("edges")])
            except Exception as ex:  # noqa: BLE001
                answers.append(["err", type(ex).__name__])
        table = []
        if backend == "peewee":
            from aw_datastore.storages.peewee import EventModel, dt_plus_duration
            rows = (EventModel.select(EventModel.id, dt_plus_duration(EventModel.timestamp, EventModel.duration))
                    .tuples())
            byid = {w[0]: w for w in stored}
            for i, txt in rows:
                if i in byid:
                    table.append([byid[i][1], byid[i][2], _parse_ms_text(txt)])
        return {"stored": stored, "answers": answers, "table": table}
    finally:
        sh.close_storage(backend, st, tmpdir, n)


_WORK = {}


def _worker(args):
    lo, hi = args
    tmpdir = tempfile.mkdtemp(prefix="awc03-", dir=_WORK["tmp"])
    out = []
    try:
        for n in range(lo, hi):
            case = _WORK["cases"][n]
            r = {}
            for be in sh.BACKENDS:
                if case["stream"] == "round" and be != "memory":
                    continue
                try:
                    r[be] = run_impl_case(case, be, tmpdir, n)
                except Exception as ex:  # noqa: BLE001
                    r[be] = {"crash": f"{type(ex).__name__}: {ex}"}
            out.append(r)
    finally:
        shutil.rmtree(tmpdir, ignore_errors=True)
    return lo, out


def run_impl_batch(cases, procs=None):
    procs = procs or min(12, os.cpu_count() or 2)
    tmp = tempfile.mkdtemp(prefix="awc03-batch-")
    _WORK.update(cases=cases, tmp=tmp)
    n = len(cases)
    step = max(1, min(20, (n + procs * 4 - 1) // (procs * 4)))
    jobs = [(i, min(n, i + step)) for i in range(0, n, step)]
    results = [None] * n
    try:
        if procs == 1 or n <= 2:
            parts = [_worker(j) for j in jobs]
        else:
            ctx = multiprocessing.get_context("fork")
            with ctx.Pool(procs) as pool:
                parts = pool.map(_worker, jobs, chunksize=1)
        for lo, out in parts:
            results[lo:lo + len(out)] = out
    finally:
        shutil.rmtree(tmp, ignore_errors=True)
    return results


# ---------------------------------------------------------------------------
# the property statement, on exact integers, independent of the model


def meets(e, ws, we, m):
    """[ts, ts+dur] reaches into [ws+m, we-m] (each edge optional)."""
    _, t, d, _ = e
    return (ws is None or t + d >= ws + m) and (we is None or t <= we - m)


def oracle_get(backend, stored, q, ans, unlimited, dev):
    """None, or (signature, description) when the implementation's answer violates the statement.
    stored: {id: [id, ts, dur, label]}; unlimited: the same back end's limit=-1 answer for this
    window (list of events) or None."""
    _, limit, ws, we, _, _ = q
    if ans[0] != "ok":
        return ("raised", f"the read raised {ans[1]}")
    got = ans[1]
    ids = [e[0] for e in got]
    if len(set(ids)) != len(ids):
        return ("duplicate", f"an event is returned twice: {ids}")
    for e in got:
        if e[0] not in stored:
            return ("unknown-event", f"returned event {e} is not a stored event")
    ws_r = None if ws is None else floor_ms(ws)
    we_r = None if we is None else floor_ms(we) + 1000
    # order: stored timestamps non-increasing (and the returned ones as well)
    sts = [stored[i][1] for i in ids]
    if any(a < b for a, b in zip(sts, sts[1:])) or any(a[1] < b[1] for a, b in zip(got, got[1:])):
        return ("order", f"not ordered by timestamp descending: {sts}")
    # which events
    for e in got:
        s = stored[e[0]]
        if not meets(s, ws, we, -DELTA):
            return ("outside", f"returned {s} lies outside the window [{ws},{we}] by more than {DELTA} us")
        out_by = max(0 if ws_r is None else ws_r - (s[1] + s[2]), 0 if we_r is None else s[1] - we_r)
        if out_by > 0:
            dev[backend + ":outside-yet-returned"] = max(dev.get(backend + ":outside-yet-returned", 0), out_by)
    # the back end's own resolution: memory compares exact instants, sqlite float parameters within
    # 1 us -- there the statement's 2 ms allowance (meant for the millisecond stores) is no excuse
    sharp = SHARP.get(backend)
    if sharp is not None:
        for e in got:
            s = stored[e[0]]
            if not meets(s, ws_r, we_r, -sharp):
                return ("edge-resolution", f"returned {s} lies outside the rounded window [{ws_r},{we_r}] "
                                           f"(closed intervals, {backend} resolution {sharp} us)")
    if limit == 0:
        if got:
            return ("limit0", "limit 0 returned events")
    elif limit < 0:
        for s in stored.values():
            if s[2] <= DAY and s[0] not in ids:
                if meets(s, ws, we, DELTA):
                    return ("missing", f"stored {s} reaches into [{ws},{we}] by {DELTA} us or more and is not returned")
                if sharp is not None and meets(s, ws, we, sharp):
                    return ("edge-resolution", f"stored {s} reaches into the requested window [{ws},{we}] (closed "
                                               f"intervals, {backend} resolution {sharp} us) and is not returned")
                if meets(s, ws_r, we_r, 0):
                    in_by = min(10 ** 18 if ws_r is None else s[1] + s[2] - ws_r,
                                10 ** 18 if we_r is None else we_r - s[1])
                    dev[backend + ":inside-yet-omitted"] = max(dev.get(backend + ":inside-yet-omitted", 0), in_by)
    else:
        if unlimited is not None:
            uids = [e[0] for e in unlimited]
            if len(got) != min(limit, len(unlimited)):
                return ("limit-length", f"limit {limit}: {len(got)} events, the unlimited read has {len(unlimited)}")
            if not set(ids) <= set(uids):
                return ("limit-foreign", "limited read returns an event the unlimited read does not")
            if got:
                oldest = min(sts)
                for u in unlimited:
                    if u[0] not in ids and stored[u[0]][1] > oldest:
                        return ("limit-not-newest",
                                f"limit {limit} keeps an event of {oldest} and omits the newer {stored[u[0]]}")
    # contents
    for e in got:
        s = stored[e[0]]
        if backend != "peewee":
            if e != s:
                return ("changed", f"returned {e} differs from the stored {s}")
        else:
            if e[2] < 0:
                return (NEG_DUR_SIG, f"returned {e} has a negative duration (stored {s}, window from {ws_r})")
            t2 = s[1] if ws_r is None else max(s[1], ws_r)
            e2 = s[1] + s[2] if we_r is None else min(s[1] + s[2], we_r)
            if e != [s[0], t2, max(0, e2 - t2), s[3]]:
                return ("clip", f"returned {e} is not the stored {s} cut to [{ws_r},{we_r}]")
    return None


def oracle_count(backend, stored, q, ans, unlimited):
    _, ws, we, _, _ = q
    if ans[0] != "ok":
        return ("raised", f"the count raised {ans[1]}")
    n = ans[1]
    dom = [s for s in stored.values() if s[2] <= DAY]
    lo = sum(1 for s in dom if meets(s, ws, we, DELTA))
    hi = sum(1 for s in stored.values() if meets(s, ws, we, -DELTA))
    if not lo <= n <= hi:
        return ("count", f"count {n} for [{ws},{we}] outside [{lo},{hi}] (events certainly / possibly in the window)")
    if backend == "memory" and n != sum(1 for s in stored.values() if meets(s, ws, we, 0)):
        return ("count-exact", f"memory count {n} is not the number of events meeting [{ws},{we}]")
    if unlimited is not None and len(dom) == len(stored) and not lo <= len(unlimited) <= hi:
        return ("count-vs-read", f"read returns {len(unlimited)} events, outside [{lo},{hi}]")
    return None


# ---------------------------------------------------------------------------
# the model side


def sq_param_terms(case):
    """Gallina terms (one per query with an edge) for the float parameters of the sqlite queries."""
    terms = {}
    for q in case["queries"]:
        if q[0] == "get":
            key = ("r", q[2], q[3])
            terms[key] = f"sq_params_read {fc.coq_optz(q[2])} {fc.coq_optz(q[3])}"
        elif q[0] == "count":
            key = ("c", q[1], q[2])
            terms[key] = f"sq_params {fc.coq_optz(q[1])} {fc.coq_optz(q[2])}"
    return terms


def decode_params(w):
    """[0] | [1,0,v] | [1,1,code], twice -> (plo, phi) as option-lists, or None on a float error."""
    out = []
    i = 0
    for _ in range(2):
        if w[i] == 0:
            out.append([])
            i += 1
        elif w[i + 1] == 0:
            out.append([w[i + 2]])
            i += 3
        else:
            return None
    return out


def wire_case(case, backend, params, table):
    qs = []
    for q in case["queries"]:
        if q[0] == "get":
            plo, phi = params.get(("r", q[2], q[3]), ([], [])) if backend == "sqlite" else ([], [])
            qs.append([0, q[1], common.opt(q[2]), common.opt(q[3]), plo, phi])
        elif q[0] == "count":
            plo, phi = params.get(("c", q[1], q[2]), ([], [])) if backend == "sqlite" else ([], [])
            qs.append([1, common.opt(q[1]), common.opt(q[2]), plo, phi])
        else:
            qs.append([2, q[1], q[2]])
    evs = [[[], t, d, x] for t, d, x in case["events"]]
    return common.sx([sh.BACKEND_CODE[backend], evs, qs, table])


def model_answer(q, m):
    """Driver output for one query -> the shape run_impl_case produces."""
    if q[0] == "get":
        res, ws2, we2 = m
        if res[0] != 0:
            return ["err", sh.ERRNAME.get(res[1], "other")]
        return ["ok", [[common.unopt(w[0]), w[1], w[2], w[3]] for w in res[1][1]], [common.unopt(ws2), common.unopt(we2)]]
    if q[0] == "count":
        res = m[0]
        if res[0] != 0:
            return ["err", sh.ERRNAME.get(res[1], "other")]
        return ["ok", res[1][1]]
    return ["ok", [m[0], m[1]]]


# ---------------------------------------------------------------------------


def replay_obj(case, backend, qi, impl=None, model=None):
    return {"backend": backend, "events": case["events"], "query": case["queries"][qi], "impl": impl, "model": model,
            "how": "PYTHONPATH=$VERIF_REPO:/verif /venv/bin/python -m harness.c03_replay <this file | json of {backend, "
                   "events, query}>  (events [ts_us, dur_us, label] inserted one by one into a fresh bucket, then the "
                   "query through Bucket.get / Bucket.get_eventcount; prints the answer and the oracle's verdict)"}


def main(argv=None):
    ck = Check("C03", argv)
    common.setup_impl_env()
    ck.run_witnesses(["w02", "w04", "w18"])
    ck.prove(extra_targets=["Model/WindowFloat.v", "Bridge/BridgeWindow.v"],
             gen_kernels=["Bucket.get", "Bucket.get_eventcount", "MemoryStorage.get_events.filters",
                          "MemoryStorage.get_eventcount", "PeeweeStorage.get_events.trim",
                          "SqliteStorage.get_events.sql", "SqliteStorage.get_eventcount.sql"])
    # the float-dependent statements live in their own file, so that Props/C03.v (the list/Z development) stays
    # free of primitive floats and of the real-number axioms
    ck.prove("Props/C03Float.v")
    have_driver = ck.driver("ExC03")

    quick = ck.tier == "quick"
    cases = boundary_cases()
    if quick:
        cases = cases[::2] + cases[-5:]
    n_random = 260 if quick else 5000
    cases += [random_case(ck.rng) for _ in range(n_random)]
    cases += [random_case(ck.rng, long_stream=True) for _ in range(n_random // 6)]
    cases += [round_case(ck.rng, 60) for _ in range(4 if quick else 100)]
    results = run_impl_batch(cases)

    dev = {}
    max_sql_dev = 0
    sql_dev_at = None
    n_rows = 0

    # --- property oracle on the implementation
    for ci, (case, r) in enumerate(zip(cases, results)):
        for be, run in r.items():
            if "crash" in run:
                ck.disagreement(be, f"harness could not drive the storage: {run['crash']}", {"events": case["events"]})
                continue
            if case["stream"] == "round":
                continue
            stored = {w[0]: w for w in run["stored"]}
            want = sorted([t, d, x] for t, d, x in case["events"])
            if sorted(w[1:] for w in run["stored"]) != want:
                # the unwindowed read is C01/C02's subject; here it only anchors ids
                ck.disagreement(be, "unwindowed read does not return the inserted events (C01/C02 territory)",
                                {"events": case["events"], "read": run["stored"]})
                continue
            unlimited = {}
            for q, a in zip(case["queries"], run["answers"]):
                if q[0] == "get" and q[1] < 0 and a[0] == "ok":
                    unlimited[(q[2], q[3])] = a[1]
            for qi, (q, a) in enumerate(zip(case["queries"], run["answers"])):
                if q[0] == "get":
                    bad = oracle_get(be, stored, q, a, unlimited.get((q[2], q[3])), dev)
                    kept = len(a[1]) if a[0] == "ok" else 0
                    windowed = q[2] is not None or q[3] is not None
                    ck.note_case([be, case["events"], q],
                                 nontrivial=windowed and len(stored) >= 2 and 0 < kept < len(stored))
                    ck.count(f"{be}:get:" + ("open-start" if q[2] is None and q[3] is not None else
                                             "open-end" if q[3] is None and q[2] is not None else
                                             "unwindowed" if q[2] is None else
                                             "zero-width" if q[2] == q[3] else
                                             "sub-ms" if q[3] - q[2] < 1000 else "two-edged"))
                    ck.count("limit:" + ("neg" if q[1] < 0 else "0" if q[1] == 0 else "pos"))
                else:
                    bad = oracle_count(be, stored, q, a, unlimited.get((q[1], q[2])))
                    ck.note_case([be, case["events"], q], nontrivial=False)
                    ck.count(f"{be}:count")
                if bad:
                    sig, desc = bad
                    sig = sig if sig.startswith("C03:") else f"C03:{be}:{sig}"
                    ck.failing_input(sig, f"{be}: {desc}", replay_obj(case, be, qi, impl=a))
            if be == "peewee":
                for t, d, em in run["table"]:
                    n_rows += 1
                    if d <= DAY and abs(em - (t + d)) > max_sql_dev:
                        max_sql_dev = abs(em - (t + d))
                        sql_dev_at = [t, d, em]
        ck.count("stream:" + case["stream"])
        ck.count("bucket-size:%d" % len(case["events"]))
        if len(ck.samples) < 5 and case["stream"] == "random" and len(case["events"]) >= 3:
            ck.sample({"events": case["events"], "query": case["queries"][0],
                       "answers": {be: r[be]["answers"][0] for be in r if "answers" in r[be]}})
    if max_sql_dev > 1000:
        ck.broken.append(f"Section hypothesis sql_end_err violated on the engine: |sql_end_ms - (ts+dur)| = {max_sql_dev} "
                         f"at {sql_dev_at}")

    # --- correspondence with the model
    if have_driver:
        # float parameters of the sqlite queries, evaluated inside Coq
        terms = {}
        for case in cases:
            if case["stream"] != "round":
                terms.update(sq_param_terms(case))
        keys = list(terms)
        params = {}
        float_ok = True
        try:
            outs = fc.run_cases("C03", "From AwVerif Require Import Base.Prelude Model.PyFloat Model.PyFloatWire "
                                       "Model.Window Model.WindowFloat.", [terms[k] for k in keys], tag="sqparams")
            for k, w in zip(keys, outs):
                p = decode_params(w)
                if p is not None:
                    params[k] = p
        except Exception as ex:  # noqa: BLE001
            float_ok = False
            ck.broken.append(f"in-Coq evaluation of the sqlite float parameters failed: {str(ex)[:300]}")
        inexact = sum(1 for k, (a, b) in params.items()
                      for edge, v in ((k[1], a), (k[2], b)) if v and edge is not None and k[0] == "c" and v[0] != edge)
        ck.coverage["sqlite_float_params"] = {"distinct_queries": len(keys), "count_queries_with_inexact_param": inexact}

        wires, index = [], []
        for ci, (case, r) in enumerate(zip(cases, results)):
            for be, run in r.items():
                if "crash" in run or (be == "sqlite" and not float_ok):
                    continue
                wires.append(wire_case(case, be, params, run["table"]))
                index.append((ci, be))
        outs = common.run_driver("C03", wires)
        for (ci, be), mo in zip(index, outs):
            case, run = cases[ci], results[ci][be]
            if mo == [-999] or len(mo) != len(case["queries"]):
                ck.disagreement(be, "driver could not decode the case", {"events": case["events"]})
                continue
            for qi, (q, m, a) in enumerate(zip(case["queries"], mo, run["answers"])):
                if m == [-999]:
                    ck.disagreement(be, "driver could not decode a query", replay_obj(case, be, qi))
                    break
                ma = model_answer(q, m)
                if ma != a:
                    ck.disagreement(be, f"{q}: model and {be} differ", replay_obj(case, be, qi, impl=a, model=ma))
                    break

        # the float expressions of Bucket.get themselves (in Coq) against the forwarded edges
        rq = [(q, a) for case, r in zip(cases, results) if case["stream"] == "round" and "answers" in r.get("memory", {})
              for q, a in zip(case["queries"], r["memory"]["answers"])][:400 if quick else 4000]
        if rq and float_ok:
            try:
                outs = fc.run_cases("C03", "From AwVerif Require Import Base.Prelude Model.PyFloat Model.PyFloatWire "
                                           "Model.Window Model.WindowFloat.",
                                    [f"round_f_case {fc.coq_z(q[1])} {fc.coq_z(q[2])}" for q, _ in rq], tag="roundf")
                for (q, a), w in zip(rq, outs):
                    if a != ["ok", [w[1], w[3]]] or w[0] != 0 or w[2] != 0:
                        ck.disagreement("round", f"float rounding of {q}: Coq {w}, Bucket.get forwarded {a}",
                                        {"query": q, "impl": a, "model": w})
                        break
                ck.count("round:float-in-coq", len(rq))
            except Exception as ex:  # noqa: BLE001
                ck.broken.append(f"in-Coq evaluation of the float rounding failed: {str(ex)[:300]}")

    ck.coverage["edge_deviation_us"] = {
        "what": "largest distance (us) by which a returned event lay outside / an omitted event lay inside the "
                "ROUNDED window [floor_ms ws, floor_ms we + 1000] (0 everywhere = exact at millisecond resolution)",
        "observed": dev}
    ck.coverage["sql_end_hypothesis"] = {
        "statement": "|sql_end_ms ts dur - (ts + dur)| <= 1000 for stored rows with 0 <= dur <= 24 h",
        "rows_measured": n_rows, "largest_deviation_us": max_sql_dev, "at": sql_dev_at}
    ck.assumptions += [
        "Section hypothesis sql_end_err (SQLite's julianday/strftime arithmetic, peewee): measured on the engine for every "
        "stored row of every case, see coverage.sql_end_hypothesis",
        "premise float_param_ok (sqlite float window parameters within 1 us of the instant for 0 <= t < 2^52): discharged "
        "for the code's own expression in Props/C03Float.v (Proofs/CodecWindow.sq_param_within_1us, Flocq); independently "
        "the parameters are evaluated bit-exactly inside Coq (Model/WindowFloat.v) for every query and fed to the model",
        "TEXT comparison of isoformat(' ') against strftime('%f') output is modelled arithmetically "
        "(Window.text_le_iso_ms); compared exactly on every peewee query",
        "window datetimes carry whole-minute utcoffsets (-12h..+14h); sub-millisecond utcoffsets are exercised for the "
        "rounding alone (round_start_tz / round_end_tz)",
        "ties in timestamp: memory keeps the later-inserted first, sqlite the higher id first, peewee the lower id first "
        "(observed; modelled as stable sorts; compared exactly)",
    ]
    return ck.finish(RULE)


if __name__ == "__main__":
    sys.exit(main())
