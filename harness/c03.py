"""C03 — time-window reads return exactly the intersecting events, newest first, limited.

Correspondence of Model/Window.v (Bucket.get's rounding + each back end's window read / count)
with the three real storages through the real `Bucket.get` / `Bucket.get_eventcount`, and the
property statement evaluated on the implementation's own outputs on exact integers.

A case is a SCRIPT (harness/c03_hist.py): writes of the storage interface interleaved with window
queries, over several buckets of several storage instances of one back end that are alive together.
The model runs the same concrete history per instance (the store models' step functions under
Model/Window.v, Extract/ExC03.v); the oracle's idea of what a bucket holds comes from the writes
alone (every written event carries a label of its own), never from a read.

  memory, sqlite : model and implementation compared exactly (ids, order, contents, counts, the
                   rounded edges Bucket.get forwards).  The float query parameters of sqlite.py
                   are evaluated inside Coq (Model/WindowFloat.v, harness/floatcases.py) and handed
                   to the extracted model as the integers SQLite's exact comparison makes of them.
  peewee         : SQLite's strftime/julianday end instant of every stored row comes from the MODEL
                   of the engine's date arithmetic (Model/SqliteDate.v, evaluated inside Coq on the raw
                   TEXT / DECIMAL cells of the row) and is handed to the extracted model as a table;
                   the engine's own answer (the code's dt_plus_duration expression on the row) must be
                   the same TEXT, character for character -- a difference is a broken tie
                   (harness/c03_sqldate.py; also on a boundary corpus written through a real
                   PeeweeStorage).  Props/C03Float.v proves the hypothesis sql_end_ok for that model.
                   The relational statement (must <= got <= may, clipping exact) is the oracle below.
"""
import multiprocessing
import os
import shutil
import sys
import tempfile

from . import common
from . import c03_hist as hist
from . import c03_sqldate as sqd
from . import floatcases as fc
from . import store_hist as sh
from .c03_hist import floor_ms, simple_script, window_queries
from .common import Check
from .evutil import BASE

RULE = ("deterministic boundary corpus (all placements of two intervals incl. zero-length, touching, nested and "
        "overlapping ones on a 1 ms grid that straddles a whole second, every window whose edges are grid points "
        "+/- {0, 1, 500, 999} us, open-ended, zero-width and sub-millisecond windows, limits -1,0,1,2,n) then seeded "
        "random buckets of 0-8 events (durations 0 .. 24 h, a separate out-of-domain stream > 24 h for correspondence "
        "only) with windows whose edges sit within +/-3 ms of event edges at us resolution, tz offsets -12h..+14h, "
        "limits -5,-1,0,1,2,n,n+1; then SCRIPTS (harness/c03_hist.py): write histories interleaved with window reads - "
        "deterministic: one of four events moved to every other place on the time axis (before all, tie with a neighbour, "
        "between neighbours, after all) by every write path (replace, insert / bulk insert of an event carrying the id, "
        "mixed bulk call, delete + re-insert, replace_last), read before and after, then a second move; several storage "
        "instances of one back end alive in the process (peewee: one after the other) holding the same bucket ids created "
        "in different orders / deleted and re-created, reads interleaved between instances and buckets; seeded random "
        "scripts over 1-3 instances x 1-3 buckets (insert, bulk insert / upsert, replace with a new timestamp, "
        "replace_last, delete, re-insert, delete_bucket + create, reads between the writes); the expected bucket "
        "contents come from the writes alone (every written event has a label of its own); every case on memory, sqlite "
        "and peewee through Bucket.get / Bucket.get_eventcount; "
        "non-trivial = a windowed query on a bucket of >= 2 events that keeps some and drops some")

DELTA = 2000
DAY = 24 * 3600 * 1_000_000
SEC = 1_000_000
NEG_DUR_SIG = "C03:peewee-clip-negative-duration"
SHARP = {"memory": 0, "sqlite": 1}      # us; peewee's resolution is the statement's own tolerance


# ---------------------------------------------------------------------------
# cases: scripts, see harness/c03_hist.py.  The generators of this file produce the round-1 shape
#   {"events": [[ts, dur, label] ...], "queries": [q ...], "stream": str}    (-> simple_script)
#   q     = ["get", limit, ws|None, we|None, off_min_s, off_min_e] | ["count", ws, we, off_s, off_e]
#           | ["round", utc, off_us]       (the rounding alone; off_us may be sub-millisecond)


def boundary_cases():
    """Two intervals on a 1 ms grid around a whole second (grid point 2 = BASE + 1 s), every
    placement with lengths 0..3, windows over grid points +/- small offsets."""
    out = []
    g0 = BASE + SEC - 2000
    jit = [0, 1, 500, 999]
    placements = []
    for a in range(0, 4):
        for la in (0, 1, 2):
            for b in range(0, 5):
                for lb in (0, 1, 3):
                    if (a, la) <= (b, lb):
                        placements.append((a, la, b, lb))
    for n, (a, la, b, lb) in enumerate(placements):
        evs = [[g0 + a * 1000, la * 1000, 1], [g0 + b * 1000, lb * 1000, 2]]
        if n % 3 == 0:      # sub-millisecond duration variants (ends off the ms grid)
            evs[0][1] += 400
            evs[1][1] += 600
        qs = []
        edges = sorted({g0 + p * 1000 + j for p in range(-1, 7) for j in jit})
        # one full sweep of single-edge windows per placement, two-edge windows on a rotating subset
        for i, e in enumerate(edges):
            if (i + n) % 3 == 0:
                qs += window_queries(e, None, [1])
            if (i + n) % 3 == 1:
                qs += window_queries(None, e, [1, 2])
            if (i + n) % 3 == 2:
                w = [0, 1, 999, 1000, 2500][(i + n) % 5]
                qs += window_queries(e, e + w, [0, 1, 2])
        qs += window_queries(None, None, [0, 1, 2, 3])
        out.append({"events": evs, "queries": qs, "stream": "boundary"})
    # whole-second and 24 h prefilter boundaries
    for d in (DAY, DAY - 1, DAY - 1000, DAY + 1000, 2 * DAY):
        evs = [[BASE, d, 1], [BASE + 1000, 0, 2], [BASE + DAY, 1500, 3], [BASE - DAY, DAY, 4]]
        qs = []
        for e in (BASE + DAY - 1000, BASE + DAY, BASE + DAY + 1, BASE + DAY + 999, BASE + DAY + 1000,
                  BASE + DAY + 2000, BASE + DAY - 600, BASE, BASE - 1):
            qs += window_queries(e, None, [1, 4]) + window_queries(e, e + 5 * SEC, [2])
        out.append({"events": evs, "queries": qs, "stream": "long" if d > DAY else "boundary"})
    return out


BASES = [BASE, BASE, BASE + SEC - 3000, 4102444790 * SEC, 86400 * SEC, 2147483647 * SEC - 1000,
         951782400 * SEC + 999000, 1234567890 * SEC + 123000]
DUR_POOL = [0, 0, 1, 400, 999, 1000, 1001, 1500, 2000, 3000, 5000, SEC, SEC + 1, 3 * SEC, 3600 * SEC,
            DAY - 1, DAY]
LONG_POOL = [DAY + 1, DAY + 1000, 25 * 3600 * SEC, 2 * DAY]


def random_case(rng, long_stream=False):
    base = rng.choice(BASES)
    n = rng.choice([0, 1, 2, 2, 3, 3, 4, 5, 6, 8])
    grid = [base + k * 1000 for k in range(-4, 9)] + [base + SEC, base + 2 * SEC, base - SEC]
    evs = []
    for i in range(n):
        t = rng.choice(grid)
        d = rng.choice(DUR_POOL)
        if long_stream and rng.random() < 0.5:
            d = rng.choice(LONG_POOL)
        if rng.random() < 0.15:
            d = rng.randrange(0, 10_000)
        if rng.random() < 0.2 and evs:            # adjacent to / nested in an earlier event
            p = rng.choice(evs)
            t = rng.choice([p[0] + floor_ms(p[1]), p[0], p[0] + 1000])
        if d >= DAY - 1 and rng.random() < 0.7:   # a day-long event ending near the grid
            t = rng.choice(grid) - floor_ms(d)
        if t + d < 0:                             # stay inside the domain: no event ENDS before 1970 (sq_Dom;
            d = -t                                # sqlite's open-ended read is `endtime >= 0`), found by seed 0 thorough
        evs.append([t, d, i + 1])
    edges = sorted({x for t, d, _ in evs for x in (t, t + d)} | {base, base + SEC})
    qs = []
    for _ in range(rng.choice([6, 8, 10])):
        def edge():
            return max(0, rng.choice(edges) + rng.choice([0, 0, 1, -1, 500, -500, 999, -999, 1000, -1000, 1001, 2000,
                                                          -2000, 3000, -3000, rng.randrange(-3000, 3001)]))
        a, b = edge(), edge()
        k = rng.random()
        if k < 0.2:
            ws, we = min(a, b), None
        elif k < 0.4:
            ws, we = None, max(a, b)
        elif k < 0.5:
            ws, we = a, a                                   # zero-width
        elif k < 0.62:
            ws, we = a, a + rng.choice([1, 10, 499, 999])   # sub-millisecond
        else:
            ws, we = min(a, b), max(a, b)
        lims = rng.sample([-5, 0, 1, 2, n, n + 1], 2)
        qs += window_queries(ws, we, lims, rng)
    qs += window_queries(None, None, [1])
    return {"events": evs, "queries": qs, "stream": "long" if long_stream else "random"}


def round_case(rng, n):
    """The rounding alone, through memory: aware datetimes with arbitrary (also sub-millisecond)
    utcoffsets.  Expected (model, since 49e3288): floor_ms / floor_ms + 1000 of the UTC instant whatever the offset."""
    qs = []
    offs_us = [0, 3600 * SEC, -5 * 3600 * SEC - 1800 * SEC, 1172 * SEC, 1, 999, 1500, -37, 500_000, -999_999]
    for _ in range(n):
        base = rng.choice(BASES)
        utc = base + rng.choice([0, 1, 999, 1000, 998_999, 999_000, 999_001, 999_999, rng.randrange(0, 2 * SEC)])
        qs.append(["round", utc, rng.choice(offs_us)])
    return {"events": [], "queries": qs, "stream": "round"}


# ---------------------------------------------------------------------------
# the implementation


_WORK = {}


def _worker(args):
    lo, hi = args
    tmpdir = tempfile.mkdtemp(prefix="awc03-", dir=_WORK["tmp"])
    out = []
    try:
        for n in range(lo, hi):
            case = _WORK["cases"][n]
            r = {}
            for be in sh.BACKENDS:
                if case["stream"] == "round" and be != "memory":
                    continue
                try:
                    r[be] = hist.run_impl_script(case, be, tmpdir, n)
                except Exception as ex:  # noqa: BLE001
                    r[be] = {"crash": f"{type(ex).__name__}: {ex}"}
            out.append(r)
    finally:
        shutil.rmtree(tmpdir, ignore_errors=True)
    return lo, out


def run_impl_batch(cases, procs=None):
    procs = procs or min(12, os.cpu_count() or 2)
    tmp = tempfile.mkdtemp(prefix="awc03-batch-")
    _WORK.update(cases=cases, tmp=tmp)
    n = len(cases)
    step = max(1, min(20, (n + procs * 4 - 1) // (procs * 4)))
    jobs = [(i, min(n, i + step)) for i in range(0, n, step)]
    results = [None] * n
    try:
        if procs == 1 or n <= 2:
            parts = [_worker(j) for j in jobs]
        else:
            ctx = multiprocessing.get_context("fork")
            with ctx.Pool(procs) as pool:
                parts = pool.map(_worker, jobs, chunksize=1)
        for lo, out in parts:
            results[lo:lo + len(out)] = out
    finally:
        shutil.rmtree(tmp, ignore_errors=True)
    return results


# ---------------------------------------------------------------------------
# the property statement, on exact integers, independent of the model


def meets(e, ws, we, m):
    """[ts, ts+dur] reaches into [ws+m, we-m] (each edge optional)."""
    _, t, d, _ = e
    return (ws is None or t + d >= ws + m) and (we is None or t <= we - m)


def oracle_get(backend, stored, q, ans, unlimited, dev):
    """None, or (signature, description) when the implementation's answer violates the statement.
    stored: {label: [id | None, ts, dur, label]} = what the bucket holds according to the writes
    (every written event carries a label of its own; id None = not known yet); unlimited: the same
    back end's limit=-1 answer for this window on the same bucket contents (list of events) or None."""
    _, limit, ws, we, _, _ = q
    if ans[0] != "ok":
        return ("raised", f"the read raised {ans[1]}")
    got = ans[1]
    ids = [e[0] for e in got]
    labs = [e[3] for e in got]
    if len(set(ids)) != len(ids) or len(set(labs)) != len(labs):
        return ("duplicate", f"an event is returned twice: ids {ids}, labels {labs}")
    for e in got:
        if e[3] not in stored:
            return ("unknown-event", f"returned event {e} is not an event of this bucket (it holds "
                                     f"{sorted(stored.values(), key=lambda v: v[1])})")
    ws_r = None if ws is None else floor_ms(ws)
    we_r = None if we is None else floor_ms(we) + 1000
    # order: stored timestamps non-increasing (and the returned ones as well)
    sts = [stored[x][1] for x in labs]
    if any(a < b for a, b in zip(sts, sts[1:])) or any(a[1] < b[1] for a, b in zip(got, got[1:])):
        return ("order", f"not ordered by timestamp descending: {sts}")
    # which events
    for e in got:
        s = stored[e[3]]
        if not meets(s, ws, we, -DELTA):
            return ("outside", f"returned {s} lies outside the window [{ws},{we}] by more than {DELTA} us")
        out_by = max(0 if ws_r is None else ws_r - (s[1] + s[2]), 0 if we_r is None else s[1] - we_r)
        if out_by > 0:
            dev[backend + ":outside-yet-returned"] = max(dev.get(backend + ":outside-yet-returned", 0), out_by)
    # the back end's own resolution: memory compares exact instants, sqlite float parameters within
    # 1 us -- there the statement's 2 ms allowance (meant for the millisecond stores) is no excuse
    sharp = SHARP.get(backend)
    if sharp is not None:
        for e in got:
            s = stored[e[3]]
            if not meets(s, ws_r, we_r, -sharp):
                return ("edge-resolution", f"returned {s} lies outside the rounded window [{ws_r},{we_r}] "
                                           f"(closed intervals, {backend} resolution {sharp} us)")
    if limit == 0:
        if got:
            return ("limit0", "limit 0 returned events")
    elif limit < 0:
        for s in stored.values():
            if s[2] <= DAY and s[3] not in labs:
                if meets(s, ws, we, DELTA):
                    return ("missing", f"stored {s} reaches into [{ws},{we}] by {DELTA} us or more and is not returned")
                if sharp is not None and meets(s, ws, we, sharp):
                    return ("edge-resolution", f"stored {s} reaches into the requested window [{ws},{we}] (closed "
                                               f"intervals, {backend} resolution {sharp} us) and is not returned")
                if meets(s, ws_r, we_r, 0):
                    in_by = min(10 ** 18 if ws_r is None else s[1] + s[2] - ws_r,
                                10 ** 18 if we_r is None else we_r - s[1])
                    dev[backend + ":inside-yet-omitted"] = max(dev.get(backend + ":inside-yet-omitted", 0), in_by)
    else:
        # independent of any other read: among the stored events that certainly reach into the window
        # the limit must keep the newest ones
        must = sorted((s[1] for s in stored.values() if s[2] <= DAY and meets(s, ws, we, DELTA)), reverse=True)
        if len(got) < min(limit, len(must)):
            return ("limit-length", f"limit {limit}: {len(got)} events, {len(must)} stored events reach into "
                                    f"[{ws},{we}] by {DELTA} us or more")
        if len(got) > limit:
            return ("limit-length", f"limit {limit}: {len(got)} events")
        if got and len(got) == limit:
            oldest = min(sts)
            for s in stored.values():
                if s[2] <= DAY and s[3] not in labs and s[1] > oldest and meets(s, ws, we, DELTA):
                    return ("limit-not-newest", f"limit {limit} keeps an event of {oldest} and omits the newer {s}")
        if unlimited is not None:
            ulabs = [e[3] for e in unlimited]
            if len(got) != min(limit, len(unlimited)):
                return ("limit-length", f"limit {limit}: {len(got)} events, the unlimited read has {len(unlimited)}")
            if not set(labs) <= set(ulabs):
                return ("limit-foreign", "limited read returns an event the unlimited read does not")
            if got:
                oldest = min(sts)
                for u in unlimited:
                    if u[3] not in labs and u[3] in stored and stored[u[3]][1] > oldest:
                        return ("limit-not-newest",
                                f"limit {limit} keeps an event of {oldest} and omits the newer {stored[u[3]]}")
    # contents
    for e in got:
        s = stored[e[3]]
        want_id = e[0] if s[0] is None else s[0]
        if backend != "peewee":
            if e != [want_id] + s[1:]:
                return ("changed", f"returned {e} differs from the stored {s}")
        else:
            if e[2] < 0:
                return (NEG_DUR_SIG, f"returned {e} has a negative duration (stored {s}, window from {ws_r})")
            t2 = s[1] if ws_r is None else max(s[1], ws_r)
            e2 = s[1] + s[2] if we_r is None else min(s[1] + s[2], we_r)
            if e != [want_id, t2, max(0, e2 - t2), s[3]]:
                return ("clip", f"returned {e} is not the stored {s} cut to [{ws_r},{we_r}]")
    return None


def oracle_count(backend, stored, q, ans, unlimited):
    _, ws, we, _, _ = q
    if ans[0] != "ok":
        return ("raised", f"the count raised {ans[1]}")
    n = ans[1]
    dom = [s for s in stored.values() if s[2] <= DAY]
    lo = sum(1 for s in dom if meets(s, ws, we, DELTA))
    hi = sum(1 for s in stored.values() if meets(s, ws, we, -DELTA))
    if not lo <= n <= hi:
        return ("count", f"count {n} for [{ws},{we}] outside [{lo},{hi}] (events certainly / possibly in the window)")
    if backend == "memory" and n != sum(1 for s in stored.values() if meets(s, ws, we, 0)):
        return ("count-exact", f"memory count {n} is not the number of events meeting [{ws},{we}]")
    if unlimited is not None and len(dom) == len(stored) and not lo <= len(unlimited) <= hi:
        return ("count-vs-read", f"read returns {len(unlimited)} events, outside [{lo},{hi}]")
    return None


# ---------------------------------------------------------------------------
# the model side


def sq_param_terms(case):
    """Gallina terms (one per query with an edge) for the float parameters of the sqlite queries."""
    terms = {}
    for step in case["script"]:
        if step[0] != "q":
            continue
        q = step[3]
        if q[0] == "get":
            key = ("r", q[2], q[3])
            terms[key] = f"sq_params_read {fc.coq_optz(q[2])} {fc.coq_optz(q[3])}"
        elif q[0] == "count":
            key = ("c", q[1], q[2])
            terms[key] = f"sq_params {fc.coq_optz(q[1])} {fc.coq_optz(q[2])}"
    return terms


def decode_params(w):
    """[0] | [1,0,v] | [1,1,code], twice -> (plo, phi) as option-lists, or None on a float error."""
    out = []
    i = 0
    for _ in range(2):
        if w[i] == 0:
            out.append([])
            i += 1
        elif w[i + 1] == 0:
            out.append([w[i + 2]])
            i += 3
        else:
            return None
    return out


def wire_query(q, backend, params):
    if q[0] == "get":
        plo, phi = params.get(("r", q[2], q[3]), ([], [])) if backend == "sqlite" else ([], [])
        return [0, q[1], common.opt(q[2]), common.opt(q[3]), plo, phi]
    if q[0] == "count":
        plo, phi = params.get(("c", q[1], q[2]), ([], [])) if backend == "sqlite" else ([], [])
        return [1, common.opt(q[1]), common.opt(q[2]), plo, phi]
    return [2, q[1], q[2]]


def wire_store(store, backend, params):
    """One storage instance of a run (its concrete steps: wire ops with the ids the store handed out,
    queries) -> the driver's case."""
    steps = [[0, st[1]] if st[0] == 0 else [1, st[1], wire_query(st[2], backend, params)] for st in store["steps"]]
    return common.sx([sh.BACKEND_CODE[backend], steps, store["table"]])


def model_answer(q, m):
    """Driver output for one query -> the shape run_impl_case produces."""
    if q[0] == "get":
        res, ws2, we2 = m
        if res[0] != 0:
            return ["err", sh.ERRNAME.get(res[1], "other")]
        return ["ok", [[common.unopt(w[0]), w[1], w[2], w[3]] for w in res[1][1]], [common.unopt(ws2), common.unopt(we2)]]
    if q[0] == "count":
        res = m[0]
        if res[0] != 0:
            return ["err", sh.ERRNAME.get(res[1], "other")]
        return ["ok", res[1][1]]
    return ["ok", [m[0], m[1]]]


# ---------------------------------------------------------------------------


def replay_obj(case, backend, at, impl=None, model=None, stored=None):
    return {"backend": backend, "nstores": case["nstores"], "script": case["script"][:at + 1], "step": at,
            "query": case["script"][at][1:], "stored": stored, "impl": impl, "model": model,
            "how": "PYTHONPATH=$VERIF_REPO:/verif /venv/bin/python -m harness.c03_replay <this file | json of {backend, "
                   "nstores, script}>  (script steps [\"w\", store, op] / [\"q\", store, bucket, query], see "
                   "harness/c03_hist.py: run on `nstores` fresh storage instances of the back end alive together, the "
                   "last step is the query through Bucket.get / Bucket.get_eventcount; prints the answer, what the "
                   "bucket holds according to the writes, and the oracle's verdict)"}


def main(argv=None):
    ck = Check("C03", argv)
    common.setup_impl_env()
    ck.run_witnesses(["w02", "w04", "w18", "w23"])
    ck.prove(extra_targets=["Model/WindowFloat.v", "Model/SqliteDate.v", "Bridge/BridgeWindow.v"],
             gen_kernels=["Bucket.get", "Bucket.get_eventcount", "MemoryStorage.get_events.filters",
                          "MemoryStorage.get_eventcount", "PeeweeStorage.get_events.trim",
                          "SqliteStorage.get_events.sql", "SqliteStorage.get_eventcount.sql"])
    # the float-dependent statements live in their own file, so that Props/C03.v (the list/Z development) stays
    # free of primitive floats and of the real-number axioms
    ck.prove("Props/C03Float.v")
    # SQLite's date arithmetic at the text level (parse of the stored TEXT, calendar, strftime): Flocq plus a kernel
    # evaluation over the days 1970 .. 2100, in a file of its own
    ck.prove("Props/C03SqliteText.v")
    have_driver = ck.driver("ExC03")

    quick = ck.tier == "quick"
    cases = boundary_cases()
    if quick:
        cases = cases[::2] + cases[-5:]
    n_random = 260 if quick else 5000
    cases += [random_case(ck.rng) for _ in range(n_random)]
    cases += [random_case(ck.rng, long_stream=True) for _ in range(n_random // 6)]
    cases += [round_case(ck.rng, 60) for _ in range(4 if quick else 100)]
    cases = [simple_script(c["events"], c["queries"], c["stream"]) for c in cases]
    # scripts: write histories between the reads, several buckets, several storage instances
    hb = hist.history_boundary_cases()
    cases += hb[ck.seed % 3::3] if quick else hb
    cases += hist.multi_boundary_cases()
    n_scripts = 60 if quick else 1000
    cases += [hist.random_script(ck.rng, 1) for _ in range(n_scripts)]
    cases += [hist.random_script(ck.rng, ck.rng.choice([2, 2, 3])) for _ in range(n_scripts // 2)]
    results = run_impl_batch(cases)

    dev = {}
    max_sql_dev = 0
    sql_dev_at = None
    n_rows = 0

    # --- property oracle on the implementation
    for ci, (case, r) in enumerate(zip(cases, results)):
        script = case["script"]
        for be, run in r.items():
            if "crash" in run:
                ck.disagreement(be, f"harness could not drive the storage: {run['crash']}",
                                {"backend": be, "nstores": case["nstores"], "script": script})
                continue
            if case["stream"] == "round":
                continue
            recs = run["recs"]
            for store in run["stores"]:
                if store is not None and store["broken"]:
                    # a well-formed write raised: the account of what the bucket holds ends here (C02 territory)
                    ck.disagreement(be, f"a write of a well-formed history failed: {store['broken']}",
                                    {"backend": be, "nstores": case["nstores"], "script": script})
            unlimited = {}
            for step, rec in zip(script, recs):
                if step[0] == "q" and step[3][0] == "get" and step[3][1] < 0 and rec[1][0] == "ok":
                    unlimited[(step[1], step[2], rec[3], step[3][2], step[3][3])] = rec[1][1]
            for at, (step, rec) in enumerate(zip(script, recs)):
                if step[0] != "q":
                    if rec[1] is not None:
                        ck.count("write:" + sh.OPNAME[rec[1][0]])
                    continue
                _, si, b, q = step
                _, a, snap, epoch, broken = rec[:5]
                if broken or snap is None:
                    continue
                stored = {w[3]: w for w in snap}
                if q[0] == "get":
                    bad = oracle_get(be, stored, q, a, unlimited.get((si, b, epoch, q[2], q[3])), dev)
                    kept = len(a[1]) if a[0] == "ok" else 0
                    windowed = q[2] is not None or q[3] is not None
                    ck.note_case([be, snap, q], nontrivial=windowed and len(stored) >= 2 and 0 < kept < len(stored))
                    ck.count(f"{be}:get:" + ("open-start" if q[2] is None and q[3] is not None else
                                             "open-end" if q[3] is None and q[2] is not None else
                                             "unwindowed" if q[2] is None else
                                             "zero-width" if q[2] == q[3] else
                                             "sub-ms" if q[3] - q[2] < 1000 else "two-edged"))
                    ck.count("limit:" + ("neg" if q[1] < 0 else "0" if q[1] == 0 else "pos"))
                    if rec[5]:
                        ck.count("read-after-rewrite:" + case["stream"])
                else:
                    bad = oracle_count(be, stored, q, a, unlimited.get((si, b, epoch, q[1], q[2])))
                    ck.note_case([be, snap, q], nontrivial=False)
                    ck.count(f"{be}:count")
                if bad:
                    sig, desc = bad
                    sig = sig if sig.startswith("C03:") else f"C03:{be}:{sig}"
                    ck.failing_input(sig, f"{be}: {desc}", replay_obj(case, be, at, impl=a, stored=snap))
            if be == "peewee":
                for store in run["stores"]:
                    for t, d, em in (store["table"] if store else []):
                        n_rows += 1
                        if d <= DAY and abs(em - (t + d)) > max_sql_dev:
                            max_sql_dev = abs(em - (t + d))
                            sql_dev_at = [t, d, em]
        ck.count("stream:" + case["stream"])
        ck.count("instances:%d" % case["nstores"])
        if len(ck.samples) < 5 and case["stream"] in ("random", "history", "multi") and len(script) >= 8 \
                and len(ck.samples) < {"random": 2, "history": 4, "multi": 5}[case["stream"]]:
            at = max(i for i, st in enumerate(script) if st[0] == "q")
            ck.sample({"script": script if len(script) < 40 else script[:12] + ["..."] + script[-6:], "step": at,
                       "answers": {be: r[be]["recs"][at][1] for be in r if "recs" in r[be]}})
    if max_sql_dev > 1000:
        ck.broken.append(f"Section hypothesis sql_end_err violated on the engine: |sql_end_ms - (ts+dur)| = {max_sql_dev} "
                         f"at {sql_dev_at}")

    # --- peewee: SQLite's date arithmetic.  Every stored row of every run and the boundary corpus, as the engine
    #     holds and prints them, against Model/SqliteDate.v evaluated inside Coq; the end-instant table the extracted
    #     model gets is then the MODEL's value, not the measured one
    raws = [row for r in results for store in (r.get("peewee", {}).get("stores") or []) if store
            for row in store.get("raw", [])]
    n_stored = len(raws)
    corpus = sqd.corpus(ck.rng, 600 if quick else 20000)
    try:
        corpus_raw = sqd.corpus_rows(corpus)
    except Exception as ex:  # noqa: BLE001
        corpus_raw = []
        ck.broken.append(f"the boundary corpus of SQLite's date arithmetic could not be written through PeeweeStorage: "
                         f"{type(ex).__name__}: {str(ex)[:300]}")
    sqd_model, sqd_ok = {}, True
    try:
        sqd_model = sqd.model_rows(sorted({(row[2], row[3]) for row in raws + corpus_raw}, key=str))
    except Exception as ex:  # noqa: BLE001
        sqd_ok = False
        ck.broken.append(f"in-Coq evaluation of Model/SqliteDate.v failed: {str(ex)[:300]}")
    max_cell_dev, max_model_dev, model_dev_at, n_cell_inexact, n_sqd_bad, sqd_seen = 0, 0, None, 0, 0, set()
    if sqd_ok:
        for k, row in enumerate(raws + corpus_raw):
            problem, cdev = sqd.compare(row, sqd_model)
            max_cell_dev = max(max_cell_dev, cdev)
            n_cell_inexact += sqd.cell_float(row[3]) != row[1] / 1e6
            if problem and (row[2], row[3]) not in sqd_seen:
                sqd_seen.add((row[2], row[3]))
                n_sqd_bad += 1
                if n_sqd_bad <= 3:
                    ck.disagreement("sqldate", ("stored row" if k < n_stored else "corpus row") + ": " + problem,
                                    {"row": row, "model": sqd_model.get((row[2], row[3])),
                                     "how": "row = [ts_us, dur_us, timestamp TEXT cell, duration cell (int | float.hex()), "
                                            "TEXT the engine gives for dt_plus_duration(timestamp, duration)]; model = "
                                            "[iJD, printed instant us, TEXT] of Model/SqliteDate.v sd_row_case"})
            elif not problem and row[1] <= DAY:
                d = abs(sqd_model[(row[2], row[3])][1] - (row[0] + row[1]))
                if d > max_model_dev:
                    max_model_dev, model_dev_at = d, row
        if max_cell_dev > sqd.Fraction(1, 64):
            ck.broken.append(f"premise cell_near violated: a duration cell is {float(max_cell_dev)} us away from the duration")
        if max_model_dev > 562:
            ck.broken.append(f"theorem C03_sql_end_model_bound contradicted by evaluation: {max_model_dev} us at {model_dev_at}")
        # the table of the extracted model: the model's end instant of every stored row
        for r in results:
            for store in (r.get("peewee", {}).get("stores") or []):
                if store:
                    store["table"] = [[row[0], row[1], sqd_model[(row[2], row[3])][1]] for row in store.get("raw", [])
                                      if sqd_model[(row[2], row[3])][1] is not None]
    ck.count("sqldate:stored-rows", n_stored)
    ck.count("sqldate:corpus-rows", len(corpus_raw))
    ck.coverage["sqlite_date_model"] = {
        "what": "Model/SqliteDate.v evaluated inside Coq on the raw cells of every stored peewee row and of the boundary "
                "corpus, compared with the TEXT the engine gives for the code's dt_plus_duration expression",
        "stored_rows": n_stored, "corpus_rows": len(corpus_raw), "distinct_rows_evaluated": len(sqd_model),
        "differences": n_sqd_bad, "largest_model_deviation_us": max_model_dev, "at": model_dev_at,
        "proved_bound_us": 562, "largest_cell_deviation_us": float(max_cell_dev),
        "rows_whose_cell_is_not_the_written_float": n_cell_inexact}

    # --- correspondence with the model
    if have_driver:
        # float parameters of the sqlite queries, evaluated inside Coq
        terms = {}
        for case in cases:
            if case["stream"] != "round":
                terms.update(sq_param_terms(case))
        keys = list(terms)
        params = {}
        float_ok = True
        try:
            outs = fc.run_cases("C03", "From AwVerif Require Import Base.Prelude Model.PyFloat Model.PyFloatWire "
                                       "Model.Window Model.WindowFloat.", [terms[k] for k in keys], tag="sqparams")
            for k, w in zip(keys, outs):
                p = decode_params(w)
                if p is not None:
                    params[k] = p
        except Exception as ex:  # noqa: BLE001
            float_ok = False
            ck.broken.append(f"in-Coq evaluation of the sqlite float parameters failed: {str(ex)[:300]}")
        inexact = sum(1 for k, (a, b) in params.items()
                      for edge, v in ((k[1], a), (k[2], b)) if v and edge is not None and k[0] == "c" and v[0] != edge)
        ck.coverage["sqlite_float_params"] = {"distinct_queries": len(keys), "count_queries_with_inexact_param": inexact}

        wires, index = [], []
        for ci, (case, r) in enumerate(zip(cases, results)):
            for be, run in r.items():
                if "crash" in run or (be == "sqlite" and not float_ok):
                    continue
                for si, store in enumerate(run["stores"]):
                    if store is not None:
                        wires.append(wire_store(store, be, params))
                        index.append((ci, be, si))
        outs = common.run_driver("C03", wires)
        for (ci, be, si), mo in zip(index, outs):
            case, run = cases[ci], results[ci][be]
            store = run["stores"][si]
            if mo == [-999] or len(mo) != len(store["steps"]):
                ck.disagreement(be, "driver could not decode the case",
                                {"backend": be, "nstores": case["nstores"], "script": case["script"]})
                continue
            for st, at, m in zip(store["steps"], store["where"], mo):
                rec = run["recs"][at]
                if m == [-999]:
                    ck.disagreement(be, "driver could not decode a step (peewee: a stored row without a measured end "
                                        "instant)", replay_obj(case, be, at))
                    break
                if st[0] == 0:
                    if m != rec[2]:
                        ck.disagreement(be, f"{sh.describe(st[1])}: model {m} and {be} {rec[2]} differ",
                                        replay_obj(case, be, at, impl=rec[2], model=m))
                        break
                    continue
                ma = model_answer(st[2], m)
                if ma != rec[1]:
                    ck.disagreement(be, f"{st[2]} on bucket {st[1]} after {rec[3]} writes: model and {be} differ",
                                    replay_obj(case, be, at, impl=rec[1], model=ma, stored=rec[2]))
                    break

        # the float expressions of Bucket.get themselves (in Coq) against the forwarded edges
        rq = [(step[3], rec[1]) for case, r in zip(cases, results)
              if case["stream"] == "round" and "recs" in r.get("memory", {})
              for step, rec in zip(case["script"], r["memory"]["recs"]) if step[0] == "q"][:400 if quick else 4000]
        if rq and float_ok:
            try:
                outs = fc.run_cases("C03", "From AwVerif Require Import Base.Prelude Model.PyFloat Model.PyFloatWire "
                                           "Model.Window Model.WindowFloat.",
                                    [f"round_f_case {fc.coq_z(q[1])} {fc.coq_z(q[2])}" for q, _ in rq], tag="roundf")
                for (q, a), w in zip(rq, outs):
                    if a != ["ok", [w[1], w[3]]] or w[0] != 0 or w[2] != 0:
                        ck.disagreement("round", f"float rounding of {q}: Coq {w}, Bucket.get forwarded {a}",
                                        {"query": q, "impl": a, "model": w})
                        break
                ck.count("round:float-in-coq", len(rq))
            except Exception as ex:  # noqa: BLE001
                ck.broken.append(f"in-Coq evaluation of the float rounding failed: {str(ex)[:300]}")

    ck.coverage["edge_deviation_us"] = {
        "what": "largest distance (us) by which a returned event lay outside / an omitted event lay inside the "
                "ROUNDED window [floor_ms ws, floor_ms we + 1000] (0 everywhere = exact at millisecond resolution)",
        "observed": dev}
    ck.coverage["sql_end_hypothesis"] = {
        "statement": "|sql_end_ms ts dur - (ts + dur)| <= 1000 for stored rows with 0 <= dur <= 24 h",
        "rows_measured": n_rows, "largest_deviation_us": max_sql_dev, "at": sql_dev_at}
    ck.assumptions += [
        "premise sql_end_ok (SQLite's julianday/strftime arithmetic, peewee): proved for the engine MODEL "
        "(Model/SqliteDate.v, Props/C03Float.v: C03_sql_end_ok, 562 us); the engine itself is not verified: the model is "
        "compared with its TEXT output bit for bit on every stored row and on a boundary corpus "
        "(coverage.sqlite_date_model); printf's %06.3f is modelled by its outcome (round half up to 3 decimals), "
        "the text -> iJD and iJD -> text calendar steps enter the theorem as the exact integer arithmetic they implement "
        "(compared on every row)",
        "premise cells_ok (the duration cell is a double within 1/64 us of the duration): proved for the float the code "
        "writes (ex_cells_ok), checked on every raw row (coverage.sqlite_date_model.largest_cell_deviation_us)",
        "premise float_param_ok (sqlite float window parameters within 1 us of the instant for 0 <= t < 2^52): discharged "
        "for the code's own expression in Props/C03Float.v (Proofs/CodecWindow.sq_param_within_1us, Flocq); independently "
        "the parameters are evaluated bit-exactly inside Coq (Model/WindowFloat.v) for every query and fed to the model",
        "TEXT comparison of isoformat(' ') against strftime('%f') output is modelled arithmetically "
        "(Window.text_le_iso_ms); compared exactly on every peewee query",
        "window datetimes of the main streams carry whole-minute utcoffsets (-12h..+14h); utcoffsets that are not whole "
        "milliseconds are exercised for the rounding alone (bucket_round_start_tz / bucket_round_end_tz: since 49e3288 "
        "Bucket.get converts an aware edge to UTC first, the rounded edge is floor_ms / floor_ms + 1000 of the instant for "
        "every offset) and, composed with the reads of all three back ends, by the zoned-window stream "
        "(harness/c03_zoned.py: zones with folds and gaps, fixed offsets of +19:32.0005 and -0.000037 s)",
        "ties in timestamp: memory keeps the later-inserted first, sqlite the higher id first, peewee the lower id first "
        "(observed; modelled as stable sorts; compared exactly)",
    ]
    # windows are instants: the zone they are written in must not matter (harness/c03_zoned.py; the former known finding
    # C03:window-end-in-fold, an end edge with fold=1, is repaired by 49e3288 - witness w23 - and every difference is
    # a failing input)
    from . import c03_zoned
    try:
        c03_zoned.zoned_check(ck)
    except Exception as ex:  # noqa: BLE001 -- a stream that cannot run is a broken tie, not a crash
        ck.disagreement("zoned-windows", f"the zoned-window stream could not run: {type(ex).__name__}: {ex}", {"kind": "zoned-window"})
    # round 6: a second thread beside a read (harness/store_sched.py, harness/twothreads.py): thread A - a read of the memory
    # store, windowed or not, or a single insert - is suspended inside an item lookup of an Event (the sort key) or inside
    # copy.deepcopy while thread B reads / inserts / deletes; a read beside nothing but reads returns what it returns
    # afterwards, every bucket reads the same while the read is in progress and after it, every returned write is there
    try:
        from . import store_sched as ss
        scns = ss.pick(ck.rng, ss.thread_scenarios(backends=("memory",)), 10 ** 9)
        ss.check(ck, "C03", ss.C03_KINDS, scns, "threads")
    except Exception as ex:  # noqa: BLE001
        ck.disagreement("threads", f"the two-thread stream could not run: {type(ex).__name__}: {ex}", {"kind": "two-threads"})
    return ck.finish(RULE)


if __name__ == "__main__":
    sys.exit(main())
