"""C07 — heartbeat ingestion through the store equals heartbeat_reduce of the stream.

The standard client loop (aw-server's heartbeat endpoint; not part of aw-core) is implemented
here over the real Datastore / Bucket API:

    last_events = bucket.get(limit=1)
    merged = heartbeat_merge(last_events[0], heartbeat, pulsetime)   (when there is a newest event)
    bucket.replace_last(merged)   or   bucket.insert(heartbeat)

and run on the three real back ends.  Checked for every generated stream:
 (a) property oracle: bucket.get(-1) afterwards (ids aside, oldest first) == the real
     heartbeat_reduce on the same stream; every heartbeat leaves every event of the bucket
     except the newest one exactly as it was (same id, same fields), removes none, and leaves
     every other bucket untouched;
 (b) correspondence: the extracted model (Model/Ingest.v over Model/{Mem,Sqlite,Peewee}Store.v)
     run on the same setup + stream gives the same result and the same dump of every bucket
     after every heartbeat (exact ids, error classes).
Out-of-domain streams (equal / decreasing timestamps, negative durations, heartbeats carrying
an id) are run for correspondence only."""
import itertools
import multiprocessing
import os
import shutil
import sys
import tempfile

from . import common
from . import store_hist as sh
from . import tieb_stores
from .common import Check, sx
from .evutil import BASE, pulse_us

RULE = ("deterministic boundary corpus (all 3-heartbeat streams on a half-second grid: gaps 1-3 units, durations "
        "0-2 units, data patterns AAA/AAB/ABA/ABB, pulsetimes 0, 0.5, 1, 2.5 s, so every gap below/at/above the "
        "pulsetime and every end-instant tie with the previous event occurs; a second bucket pre-populated with the "
        "same start/end instants plus a later event) then seeded random streams of 0-14 heartbeats (units 1 ms / "
        "0.5 s / 1 s, microsecond duration offsets, 1-3 data values, fractional pulsetimes), then out-of-domain "
        "streams (equal/decreasing timestamps, negative durations, heartbeats carrying ids) for correspondence "
        "only; every case runs on memory, sqlite (temp file) and peewee (temp file) through Datastore/Bucket; "
        "non-trivial = an in-domain run in which at least one heartbeat was merged into a bucket already holding "
        "two or more events or inserted after a refused merge")

PULSES = [0, 0.5, 1, 2.5, 2, 5, 0.001, 0.0000005, 1e-6, 3.0000015, 60]
META = [1, 1, 1, 0, None, 0]
TARGET, OTHER, THIRD = 1, 2, 3
UNIV = [TARGET, OTHER, THIRD]
UNIT = 500_000


# ---------------------------------------------------------------------------
# the loop under test (over the real Bucket API)


def heartbeat_step(bucket, heartbeat, pulsetime, heartbeat_merge):
    """One iteration of the standard loop.  Returns (branch, storage op code, returned value)."""
    last_events = bucket.get(limit=1)
    if len(last_events) > 0:
        merged = heartbeat_merge(last_events[0], heartbeat, pulsetime)
        if merged is not None:
            return "merge", sh.OPCODE["replace_last"], bucket.replace_last(merged)
        branch = "refused"
    else:
        branch = "first"
    return branch, sh.OPCODE["insert"], bucket.insert(heartbeat)


def run_case(backend, case, tmpdir, n):
    """-> {"steps": [[res, view...] per heartbeat], "branches": [...], "before": [views before each heartbeat],
           "final": events of the target bucket as bucket.get(-1) returns them, "reduce": the real
           heartbeat_reduce of the stream}"""
    from aw_datastore import Datastore
    from aw_transform.heartbeats import heartbeat_merge, heartbeat_reduce
    st = sh.open_storage(backend, tmpdir, n)
    try:
        ds = Datastore(lambda testing: st, testing=True)
        for op in case["setup"]:
            sh.apply_op(st, op)
        bucket = ds[sh.s_of(case["b"])]
        steps, branches, befores = [], [], []
        views = sh.dump(st, UNIV)
        for w in case["stream"]:
            before = views
            branch = "raised"
            try:
                branch, code, r = heartbeat_step(bucket, sh.mk_ev(w), case["p"], heartbeat_merge)
                res = [0, sh.canon_out(code, r)]
            except Exception as ex:  # noqa: BLE001 -- the error class is the observation
                res = [1, sh.ERR.get(type(ex).__name__, 10)]
            befores.append(before)
            branches.append(branch)
            views = sh.dump(st, UNIV)
            steps.append([res] + views)
            if res[0] != 0:
                break
        final = [sh.ev_w(e) for e in bucket.get(-1)]
        reduced = [sh.ev_w(e) for e in heartbeat_reduce([sh.mk_ev(w) for w in case["stream"]], case["p"])]
        return {"steps": steps, "branches": branches, "before": befores, "final": final, "reduce": reduced}
    finally:
        sh.close_storage(backend, st, tmpdir, n)


_WORK = {}


def _worker(args):
    lo, hi = args
    tmpdir = tempfile.mkdtemp(prefix="awc07-", dir=_WORK["tmp"])
    out = []
    try:
        for n in range(lo, hi):
            out.append({be: run_case(be, _WORK["cases"][n], tmpdir, n) for be in sh.BACKENDS})
    finally:
        shutil.rmtree(tmpdir, ignore_errors=True)
    return lo, out


def run_impl_batch(cases, procs=None):
    procs = procs or min(12, os.cpu_count() or 2)
    tmp = tempfile.mkdtemp(prefix="awc07-batch-")
    _WORK.update(cases=cases, tmp=tmp)
    n = len(cases)
    step = max(1, min(50, (n + procs * 4 - 1) // (procs * 4)))
    jobs = [(i, min(n, i + step)) for i in range(0, n, step)]
    results = [None] * n
    try:
        if procs == 1 or n <= 2:
            parts = [_worker(j) for j in jobs]
        else:
            ctx = multiprocessing.get_context("fork")
            with ctx.Pool(procs) as pool:
                parts = pool.map(_worker, jobs, chunksize=1)
        for lo, out in parts:
            results[lo:lo + len(out)] = out
    finally:
        shutil.rmtree(tmp, ignore_errors=True)
    return results


# ---------------------------------------------------------------------------
# generators


def setup_for(stream, rng=None, populate=True):
    """Buckets 1 (target, empty), 2 and 3; bucket 2 holds the same start/end instants as the stream
    (one event per heartbeat, other data), an event later than every heartbeat and one ending at the
    stream's maximal end instant; bucket 3 holds one event.  All through insert_one / insert_many."""
    ops = [[0, OTHER, [1, 1, 1, 0, sh.opt(None), 0]], [0, TARGET, [2, 1, 1, 1, sh.opt(None), 0]],
           [0, THIRD, [1, 2, 1, 2, sh.opt(4), 1]]]
    if not populate:
        return ops
    ts = [w[1] for w in stream] or [BASE]
    ends = [w[1] + max(w[2], 0) for w in stream] or [BASE]
    same = [[[], w[1], max(w[2], 0), 7] for w in stream]
    for w in same[:2]:
        ops.append([5, OTHER, w])
    if same[2:]:
        ops.append([6, OTHER, same[2:]])
    ops.append([5, OTHER, [[], max(ts) + 20 * UNIT, 0, 8]])
    ops.append([5, THIRD, [[], min(ts), max(ends) - min(ts), stream[0][3] if stream else 1]])
    ops.append([5, OTHER, [[], max(ts) + 10 * UNIT, max(0, max(ends) - max(ts) - 10 * UNIT), 9]])
    if rng is not None and rng.random() < 0.3:
        # more traffic in the other buckets: a bulk insert and a rewrite of bucket 3's newest event
        ops.append([6, THIRD, [[[], max(ts) + 30 * UNIT, UNIT, 5], [[], min(ts) - UNIT, UNIT, 6]]])
        ops.append([8, THIRD, [[], max(ts) + 31 * UNIT, 0, 5]])
    return ops


def boundary_cases():
    out = []
    for p in (0, 0.5, 1, 2.5):
        for g1, g2 in itertools.product((1, 2, 3), repeat=2):
            for d0, d1, d2 in itertools.product((0, 1, 2), repeat=3):
                for pat in ((1, 1, 1), (1, 1, 2), (1, 2, 1), (1, 2, 2)):
                    t = [0, g1, g1 + g2]
                    stream = [[[], BASE + t[i] * UNIT, d * UNIT, pat[i]] for i, d in enumerate((d0, d1, d2))]
                    out.append({"kind": "grid", "p": p, "b": TARGET, "stream": stream, "setup": setup_for(stream),
                                "domain": True})
    # the witness pattern of the repaired sqlite defect, as a stream: [0,10]A, zero-length B at 10 (its end
    # ties with A's), then B heartbeats that must extend the B event, not A
    for p in (0, 1, 5):
        stream = [[[], BASE, 10 * UNIT, 1], [[], BASE + 10 * UNIT, 0, 2], [[], BASE + 11 * UNIT, UNIT, 2],
                  [[], BASE + 12 * UNIT, 0, 2], [[], BASE + 30 * UNIT, 0, 1]]
        out.append({"kind": "tie", "p": p, "b": TARGET, "stream": stream, "setup": setup_for(stream), "domain": True})
        out.append({"kind": "tie", "p": p, "b": TARGET, "stream": stream, "setup": setup_for(stream, populate=False),
                    "domain": True})
    out.append({"kind": "empty", "p": 1, "b": TARGET, "stream": [], "setup": setup_for([]), "domain": True})
    return out


def random_stream(rng):
    n = rng.choice([0, 1, 2, 3, 4, 5, 6, 8, 10, 14])
    unit = rng.choice([1000, UNIT, 1_000_000])
    p = rng.choice(PULSES)
    P = pulse_us(p)
    pool = rng.sample(range(1, 6), rng.choice([1, 1, 2, 2, 3]))
    t = BASE + rng.randrange(0, 5) * unit
    stream = []
    prev_end = t
    for i in range(n):
        if i > 0:
            k = rng.random()
            if k < 0.25 and prev_end + P - t >= 1000 and (prev_end + P) % 1000 == 0:
                t = prev_end + P                     # exactly at the pulsetime edge
            elif k < 0.4 and prev_end + P + 1000 > t:
                t = ((prev_end + P) // 1000 + 1) * 1000    # just above it
            elif k < 0.5 and prev_end > t and prev_end % 1000 == 0:
                t = prev_end                          # starts where the previous one ends
            else:
                t += rng.choice([1, 1, 2, 3, 5, 9]) * unit
        d = rng.choice([0, 0, 1, 1, 2, 4, 7]) * unit + rng.choice([0, 0, 0, 1, 333, 250_000])
        if rng.random() < 0.15 and stream:
            d = max(0, prev_end - t)                  # end instant ties with the previous event
        stream.append([[], t, d, rng.choice(pool)])
        prev_end = max(prev_end, t + d) if rng.random() < 0.8 else t + d
    return p, stream


def random_cases(rng, n):
    out = []
    for _ in range(n):
        p, stream = random_stream(rng)
        out.append({"kind": "random", "p": p, "b": TARGET, "stream": stream,
                    "setup": setup_for(stream, rng, populate=rng.random() < 0.85), "domain": True})
    return out


def malformed_cases(rng, n):
    """Outside the quantifier: timestamps not strictly increasing, negative durations, heartbeats that
    carry an id.  Correspondence only."""
    out = []
    fixed = [
        [[[], BASE + 2 * UNIT, UNIT, 1], [[], BASE, 4 * UNIT, 1], [[], BASE + UNIT, 0, 1], [[], BASE + 2 * UNIT, 3 * UNIT, 1]],
        [[[], BASE, UNIT, 1], [[], BASE, UNIT, 2], [[], BASE, 2 * UNIT, 1], [[], BASE, 0, 2]],
        [[[], BASE, -UNIT, 1], [[], BASE + UNIT, UNIT, 1], [[], BASE + UNIT, -1, 1], [[], BASE + 2 * UNIT, 0, 1]],
        [[[], BASE, UNIT, 1], [[0], BASE + UNIT, UNIT, 1], [[1], BASE + 9 * UNIT, UNIT, 2], [[], BASE + 9 * UNIT, 0, 2]],
        [[[], BASE, UNIT, 1], [[99], BASE + 9 * UNIT, UNIT, 2], [[], BASE + 10 * UNIT, 0, 2]],
    ]
    for stream in fixed:
        for p in (0, 1):
            out.append({"kind": "malformed", "p": p, "b": TARGET, "stream": stream, "setup": setup_for(stream),
                        "domain": False})
    for _ in range(n):
        p, stream = random_stream(rng)
        if len(stream) < 2:
            continue
        for _ in range(rng.choice([1, 1, 2, 3])):
            i = rng.randrange(0, len(stream))
            k = rng.random()
            if k < 0.5:
                j = rng.randrange(0, len(stream))
                stream[i][1] = stream[j][1] - rng.choice([0, 0, 1000, 1_000_000])
            elif k < 0.75:
                stream[i][2] = -rng.choice([1, 1000, UNIT])
            else:
                stream[i][0] = [rng.randrange(0, 8)]
        out.append({"kind": "malformed", "p": p, "b": TARGET, "stream": stream,
                    "setup": setup_for(stream, rng, populate=rng.random() < 0.7), "domain": in_domain(stream)})
    return out


def in_domain(stream):
    return (all(a[1] < b[1] for a, b in zip(stream, stream[1:])) and all(w[2] >= 0 for w in stream)
            and all(w[0] == [] for w in stream))


# ---------------------------------------------------------------------------
# the property statement on the implementation's own observations


def contents(view):
    return {} if view == [] else {w[0][0]: tuple(w[1:]) for w in view[0][1]}


def oracle(case, run, backend):
    """None, or (signature suffix, description)."""
    stream = case["stream"]
    ti = UNIV.index(case["b"])
    for k, (before, step, branch) in enumerate(zip(run["before"], run["steps"], run["branches"])):
        res, after = step[0], step[1:]
        if res[0] != 0:
            return "raised", f"heartbeat {k} {stream[k]} raised {sh.ERRNAME.get(res[1], res[1])} on {backend}"
        for b, vb, va in zip(UNIV, before, after):
            if b != case["b"] and vb != va:
                return "other-bucket", f"heartbeat {k} changed bucket {b} on {backend}: {vb} -> {va}"
        if before[ti] == [] or after[ti] == [] or before[ti][0][0] != after[ti][0][0]:
            return "metadata", f"heartbeat {k} changed the target bucket's metadata on {backend}"
        cb, ca = contents(before[ti]), contents(after[ti])
        if len(ca) != len(after[ti][0][1]):
            return "duplicate-id", f"an id names two events after heartbeat {k} on {backend}: {after[ti][0][1]}"
        lost = sorted(set(cb) - set(ca))
        if lost:
            return "lost", f"heartbeat {k} {stream[k]} removed event(s) {lost} on {backend}"
        changed = sorted(i for i in cb if ca[i] != cb[i])
        new = sorted(set(ca) - set(cb))
        newest = max(cb.values())[0] if cb else None        # maximal start instant before the heartbeat
        if any(cb[i][0] != newest for i in changed):
            return "earlier-altered", (f"heartbeat {k} {stream[k]} altered an event that was not the newest on {backend}: "
                                       f"{[(i, cb[i], ca[i]) for i in changed]}")
        if len(changed) + len(new) > 1:
            return "step-shape", (f"heartbeat {k} {stream[k]} changed {len(changed)} and added {len(new)} events on "
                                  f"{backend} (expected at most one of the two)")
    got = [w[1:] for w in reversed(run["final"])]
    want = [w[1:] for w in run["reduce"]]
    if got != want:
        return "reduce", (f"bucket after the loop on {backend} (oldest first, ids aside) {got} != heartbeat_reduce "
                          f"of the stream {want}")
    return None


# ---------------------------------------------------------------------------


def rel(stream):
    return [[w[0], w[1] - BASE, w[2], w[3]] for w in stream]


def pre1970_probe(ck):
    """Domain probe (recorded, not a verdict): a stream before 1970.  The sqlite back end's unwindowed read
    filters `endtime >= 0`, so such events are stored but never read back; the theorem for sqlite carries
    the hypothesis 0 <= end and Props/C07.v proves that the model needs it."""
    t0 = -3600 * 1_000_000
    stream = [[[], t0 + i * 1_000_000, 1_000_000, 1] for i in range(3)]
    case = {"kind": "pre1970", "p": 5, "b": TARGET, "stream": stream, "setup": setup_for(stream, populate=False),
            "domain": True}
    res = run_impl_batch([case], procs=1)[0]
    ck.coverage["domain_probe_pre1970"] = {
        be: {"events_read_back": len(res[be]["final"]), "reduce": len(res[be]["reduce"])} for be in sh.BACKENDS}
    return case, res


def main(argv=None):
    ck = Check("C07", argv)
    common.setup_impl_env()
    ck.run_witnesses(["w05"])
    ck.prove(extra_targets=tieb_stores.STORES_DS[0], gen_kernels=tieb_stores.STORES_DS[1])   # ties A + B
    have_driver = ck.driver()

    n_rand, n_bad = (700, 250) if ck.tier == "quick" else (24000, 8000)
    cases = boundary_cases()
    if ck.tier == "quick":
        # the full grid (3888 streams) runs in the thorough tier; quick keeps every p and data pattern and a
        # seeded third of the (gap, duration) placements, plus all the tie cases
        grid = [c for c in cases if c["kind"] == "grid"]
        keep = set(ck.rng.sample(range(len(grid)), len(grid) // 3))
        cases = [c for i, c in enumerate(grid) if i in keep] + [c for c in cases if c["kind"] != "grid"]
    cases += random_cases(ck.rng, n_rand) + malformed_cases(ck.rng, n_bad)
    import time
    t_impl = time.time()
    results = run_impl_batch(cases)
    ck.coverage["timing_s"] = {"implementation_runs": round(time.time() - t_impl, 1)}

    runs = []
    for case, res in zip(cases, results):
        P = pulse_us(case["p"])
        dom = case["domain"] and in_domain(case["stream"])
        ck.count(case["kind"])
        ck.count("len=%d" % len(case["stream"]))
        ck.count("pulsetime_us=%d" % P)
        ends_nd = all(a[1] + a[2] <= b[1] + b[2] for a, b in zip(case["stream"], case["stream"][1:]))
        if dom:
            ck.count("in-domain, ends non-decreasing" if ends_nd else "in-domain, some end decreases")
            if any(a[1] + a[2] == b[1] + b[2] for a, b in zip(case["stream"], case["stream"][1:])):
                ck.count("in-domain, an end instant ties with the previous heartbeat's")
        for be in sh.BACKENDS:
            run = res[be]
            for br in run["branches"]:
                ck.count(f"{be}:{br}")
            sizes = [len(contents(v[UNIV.index(case["b"])])) for v in run["before"]]
            nontriv = dom and any((br == "merge" and s >= 2) or br == "refused" for br, s in zip(run["branches"], sizes))
            ck.note_case([be, P, rel(case["stream"]), len(case["setup"])], nontrivial=nontriv)
            if dom:
                bad = oracle(case, run, be)
                if bad:
                    ck.failing_input(f"C07:{be}:{bad[0]}", bad[1],
                                     {"backend": be, "pulsetime_s": case["p"], "bucket": sh.s_of(case["b"]),
                                      "setup_ops": [sh.describe(o) for o in case["setup"]],
                                      "stream_wire(id?,ts_us,dur_us,data_label)": case["stream"],
                                      "stream_rel_BASE": rel(case["stream"]),
                                      "observed_final(newest first)": run["final"], "heartbeat_reduce": run["reduce"],
                                      "how": "harness/c07.py heartbeat_step over Datastore/Bucket; sh.mk_ev builds the events"})
            runs.append((case, be, run))
        if len(ck.samples) < 4 and dom and len(case["stream"]) >= 4 and "merge" in res["sqlite"]["branches"]:
            ck.sample({"pulsetime_s": case["p"], "stream_us_rel": rel(case["stream"]),
                       "branches": res["sqlite"]["branches"], "sqlite_final_newest_first": res["sqlite"]["final"]})

    if have_driver:
        wire = [sx([sh.BACKEND_CODE[be], UNIV, case["setup"], case["b"], pulse_us(case["p"]), case["stream"]])
                for case, be, _ in runs]
        t_model = time.time()
        outs = common.run_driver("C07", wire)
        ck.coverage["timing_s"]["model_runs"] = round(time.time() - t_model, 1)
        for (case, be, run), w, mo in zip(runs, wire, outs):
            if mo == [-999]:
                ck.disagreement("ingest", "driver could not decode a case", {"case": w})
                continue
            msteps, mfinal, mreduce = mo
            msteps = [sh.canon_step(s) for s in msteps]
            mfinal = sh.canon_step(mfinal)
            if msteps != run["steps"]:
                k = next((i for i, (a, b) in enumerate(zip(msteps, run["steps"])) if a != b), min(len(msteps), len(run["steps"])))
                ck.disagreement("ingest", f"{be}: model and implementation differ at heartbeat {k} of {rel(case['stream'])} "
                                          f"(p={case['p']}): model {msteps[k] if k < len(msteps) else None} impl "
                                          f"{run['steps'][k] if k < len(run['steps']) else None}",
                                {"backend": be, "case": w, "model_steps": msteps, "impl_steps": run["steps"]})
                continue
            last_views = msteps[-1][1:] if msteps else None
            if last_views is not None and mfinal[1:] != last_views:
                ck.disagreement("ingest_stream", f"{be}: ingest_stream differs from iterated ingest_step", {"case": w})
            if case["domain"] and in_domain(case["stream"]):
                # the theorem's statement evaluated on the model's own output (sanity of the statement)
                tv = mfinal[1 + UNIV.index(case["b"])]
                got = [e[1:] for e in tv[0][1]]        # sorted by id = storage order for every back end here
                if got != [e[1:] for e in mreduce]:
                    ck.disagreement("statement", f"{be}: model ingest {got} != model heartbeat_reduce {mreduce}", {"case": w})

    pre1970_probe(ck)
    ck.assumptions += [
        "the loop is the standard client loop written in harness/c07.py over Datastore/Bucket (it is not in aw-core)",
        "pulsetime enters the model as the integer microseconds Python's timedelta(seconds=p) yields",
        "event data {'x': n} <-> label n; instants exact integer microseconds on both sides",
        "in-domain streams lie in 1970..2100 (DESIGN 2.2); the sqlite theorem carries 0 <= end explicitly",
    ]
    return ck.finish(RULE)


if __name__ == "__main__":
    sys.exit(main())
