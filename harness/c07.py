"""C07 — heartbeat ingestion through the store equals heartbeat_reduce of the stream.

The standard client loop (aw-server's heartbeat endpoint; not part of aw-core) is implemented
here over the real Datastore / Bucket API:

    last_events = bucket.get(limit=1)
    merged = heartbeat_merge(last_events[0], heartbeat, pulsetime)   (when there is a newest event)
    bucket.replace_last(merged)   or   bucket.insert(heartbeat)

and run on the three real back ends.  Checked for every generated stream:
 (a) property oracle: bucket.get(-1) afterwards (ids aside, oldest first) == the real
     heartbeat_reduce on the same stream; every heartbeat leaves every event of the bucket
     except the newest one exactly as it was (same id, same fields), removes none, and leaves
     every other bucket untouched;
 (b) correspondence: the extracted model (Model/Ingest.v over Model/{Mem,Sqlite,Peewee}Store.v)
     run on the same setup + stream gives the same result and the same dump of every bucket
     after every heartbeat (exact ids, error classes).
Out-of-domain streams (equal / decreasing timestamps, negative durations, heartbeats carrying
an id) are run for correspondence only."""
import itertools
import json
import multiprocessing
import os
import shutil
import sys
import tempfile

from . import common
from . import c07_life
from . import store_hist as sh
from . import tieb_stores
from .common import Check, sx
from .evutil import BASE, pulse_us

RULE = ("deterministic boundary corpus (all 3-heartbeat streams on a half-second grid: gaps 1-3 units, durations "
        "0-2 units, data patterns AAA/AAB/ABA/ABB, pulsetimes 0, 0.5, 1, 2.5 s, so every gap below/at/above the "
        "pulsetime and every end-instant tie with the previous event occurs; a second bucket pre-populated with the "
        "same start/end instants plus a later event) then seeded random streams of 0-14 heartbeats (units 1 ms / "
        "0.5 s / 1 s, microsecond duration offsets, 1-3 data values, fractional pulsetimes), then out-of-domain "
        "streams (equal/decreasing timestamps, negative durations, heartbeats carrying ids) for correspondence "
        "only; multi-day durations; every case runs on memory, sqlite (temp file) and peewee (temp file) through "
        "Datastore/Bucket; LIFECYCLES (harness/c07_life.py): 28 hand-written + 160 (thorough 6000) seeded cases of 2-7 "
        "phases on ONE storage object or on two alive at once (same ids, different creation order), each phase = store "
        "operations (fed bucket deleted and created again, other buckets deleted / created / written, issued on the "
        "storage or through Datastore.create_bucket/delete_bucket) then a heartbeat stream; expected = heartbeat_reduce "
        "of what was fed since the bucket was created; streams of 10 001+ heartbeats (merging; and never merging next "
        "to a 10 001-event insert_many, on sqlite); findings re-run and shrunk alone in a fresh process; "
        "non-trivial = an in-domain run in which at least one heartbeat was merged into a bucket already holding "
        "two or more events or inserted after a refused merge; for a lifecycle: a merge after the fed bucket was "
        "re-created, or two storage objects; ENGINE FAULTS the caller survives (harness/c07_fault.py, sqlite and peewee; 253 written-out "
        "+ 90 (thorough 4000) seeded lifecycles): one engine call of a round of the loop - the COMMIT of the limit-1 read, the "
        "INSERT / UPDATE, the COMMIT after it when every write commits - or of a bucket operation (each statement of delete_bucket / "
        "create_bucket, their COMMIT) fails once or twice, raised before the engine / refused by the engine's authorizer / SQLITE_BUSY "
        "under a real reader lock in rollback-journal mode, at every heartbeat position; the caller repeats the round (same or fresh "
        "Event object), skips the heartbeat, or deletes and creates the bucket again; no dump (no COMMIT) between the rounds, an "
        "acknowledged write to another bucket pending when the stream starts; expected = heartbeat_reduce of the heartbeats whose round "
        "finally returned normally, other buckets = before + what the caller wrote; PRE-FILLED buckets (all back ends; 36 + 60 "
        "(thorough 2500)): filled by insert_many newest first / in shuffled order / by single inserts in shuffled order (ids run "
        "against time), then continued by the loop; MIGRATED buckets (16 + 24 (thorough 600)): a stream fed into a legacy peewee store "
        "at its default path, SqliteStorage(testing=True) constructed in that data directory (the library's own migration), the "
        "stream continued there; non-trivial = a fault fired and the caller went on / a merge on a pre-filled or migrated bucket")

PULSES = [0, 0.5, 1, 2.5, 2, 5, 0.001, 0.0000005, 1e-6, 3.0000015, 60]
META = [1, 1, 1, 0, None, 0]
TARGET, OTHER, THIRD = 1, 2, 3
UNIV = [TARGET, OTHER, THIRD]
UNIT = 500_000


# ---------------------------------------------------------------------------
# the loop under test (over the real Bucket API)


def heartbeat_step(bucket, heartbeat, pulsetime, heartbeat_merge):
    """One iteration of the standard loop.  Returns (branch, storage op code, returned value)."""
    last_events = bucket.get(limit=1)
    if len(last_events) > 0:
        merged = heartbeat_merge(last_events[0], heartbeat, pulsetime)
        if merged is not None:
            return "merge", sh.OPCODE["replace_last"], bucket.replace_last(merged)
        branch = "refused"
    else:
        branch = "first"
    return branch, sh.OPCODE["insert"], bucket.insert(heartbeat)


def run_case(backend, case, tmpdir, n):
    """-> {"steps": [[res, view...] per heartbeat], "branches": [...], "before": [views before each heartbeat],
           "final": events of the target bucket as bucket.get(-1) returns them, "reduce": the real
           heartbeat_reduce of the stream}"""
    from aw_datastore import Datastore
    from aw_transform.heartbeats import heartbeat_merge, heartbeat_reduce
    st = sh.open_storage(backend, tmpdir, n)
    try:
        ds = Datastore(lambda testing: st, testing=True)
        for op in case["setup"]:
            sh.apply_op(st, op)
        bucket = ds[sh.s_of(case["b"])]
        steps, branches, befores = [], [], []
        views = sh.dump(st, UNIV)
        for w in case["stream"]:
            before = views
            branch = "raised"
            try:
                branch, code, r = heartbeat_step(bucket, sh.mk_ev(w), case["p"], heartbeat_merge)
                res = [0, sh.canon_out(code, r)]
            except Exception as ex:  # noqa: BLE001 -- the error class is the observation
                res = [1, sh.ERR.get(type(ex).__name__, 10)]
            befores.append(before)
            branches.append(branch)
            views = sh.dump(st, UNIV)
            steps.append([res] + views)
            if res[0] != 0:
                break
        try:
            final = [sh.ev_w(e) for e in bucket.get(-1)]
        except Exception as ex:  # noqa: BLE001 -- e.g. a Bucket object bound to another Datastore's closed storage
            final = {"raised": type(ex).__name__}
        reduced = [sh.ev_w(e) for e in heartbeat_reduce([sh.mk_ev(w) for w in case["stream"]], case["p"])]
        return {"steps": steps, "branches": branches, "before": befores, "final": final, "reduce": reduced}
    finally:
        sh.close_storage(backend, st, tmpdir, n)


_WORK = {}


def _worker(args):
    lo, hi = args
    tmpdir = tempfile.mkdtemp(prefix="awc07-", dir=_WORK["tmp"])
    out = []
    try:
        for n in range(lo, hi):
            case = _WORK["cases"][n]
            if case["kind"].startswith("lifecycle"):
                out.append({be: c07_life.run_lifecycle(be, case, tmpdir, n) for be in case.get("only", sh.BACKENDS)})
            else:
                out.append({be: run_case(be, case, tmpdir, n) for be in sh.BACKENDS})
    finally:
        shutil.rmtree(tmpdir, ignore_errors=True)
    return lo, out


def run_impl_batch(cases, procs=None):
    procs = procs or min(12, os.cpu_count() or 2)
    tmp = tempfile.mkdtemp(prefix="awc07-batch-")
    _WORK.update(cases=cases, tmp=tmp)
    n = len(cases)
    step = max(1, min(50, (n + procs * 4 - 1) // (procs * 4)))
    n_big = next((i for i, c in enumerate(cases) if c["kind"] != "lifecycle-large"), n)   # the long ones lead, one job each
    jobs = [(i, i + 1) for i in range(n_big)] + [(i, min(n, i + step)) for i in range(n_big, n, step)]
    results = [None] * n
    try:
        if procs == 1 or n <= 2:
            parts = [_worker(j) for j in jobs]
        else:
            ctx = multiprocessing.get_context("fork")
            with ctx.Pool(procs) as pool:
                parts = pool.map(_worker, jobs, chunksize=1)
        for lo, out in parts:
            results[lo:lo + len(out)] = out
    finally:
        shutil.rmtree(tmp, ignore_errors=True)
    return results


# ---------------------------------------------------------------------------
# generators


def setup_for(stream, rng=None, populate=True):
    """Buckets 1 (target, empty), 2 and 3; bucket 2 holds the same start/end instants as the stream
    (one event per heartbeat, other data), an event later than every heartbeat and one ending at the
    stream's maximal end instant; bucket 3 holds one event.  All through insert_one / insert_many."""
    ops = [[0, OTHER, [1, 1, 1, 0, sh.opt(None), 0]], [0, TARGET, [2, 1, 1, 1, sh.opt(None), 0]],
           [0, THIRD, [1, 2, 1, 2, sh.opt(4), 1]]]
    if not populate:
        return ops
    ts = [w[1] for w in stream] or [BASE]
    ends = [w[1] + max(w[2], 0) for w in stream] or [BASE]
    same = [[[], w[1], max(w[2], 0), 7] for w in stream]
    for w in same[:2]:
        ops.append([5, OTHER, w])
    if same[2:]:
        ops.append([6, OTHER, same[2:]])
    ops.append([5, OTHER, [[], max(ts) + 20 * UNIT, 0, 8]])
    ops.append([5, THIRD, [[], min(ts), max(ends) - min(ts), stream[0][3] if stream else 1]])
    ops.append([5, OTHER, [[], max(ts) + 10 * UNIT, max(0, max(ends) - max(ts) - 10 * UNIT), 9]])
    if rng is not None and rng.random() < 0.3:
        # more traffic in the other buckets: a bulk insert and a rewrite of bucket 3's newest event
        ops.append([6, THIRD, [[[], max(ts) + 30 * UNIT, UNIT, 5], [[], min(ts) - UNIT, UNIT, 6]]])
        ops.append([8, THIRD, [[], max(ts) + 31 * UNIT, 0, 5]])
    return ops


def boundary_cases():
    out = []
    for p in (0, 0.5, 1, 2.5):
        for g1, g2 in itertools.product((1, 2, 3), repeat=2):
            for d0, d1, d2 in itertools.product((0, 1, 2), repeat=3):
                for pat in ((1, 1, 1), (1, 1, 2), (1, 2, 1), (1, 2, 2)):
                    t = [0, g1, g1 + g2]
                    stream = [[[], BASE + t[i] * UNIT, d * UNIT, pat[i]] for i, d in enumerate((d0, d1, d2))]
                    out.append({"kind": "grid", "p": p, "b": TARGET, "stream": stream, "setup": setup_for(stream),
                                "domain": True})
    # the witness pattern of the repaired sqlite defect, as a stream: [0,10]A, zero-length B at 10 (its end
    # ties with A's), then B heartbeats that must extend the B event, not A
    for p in (0, 1, 5):
        stream = [[[], BASE, 10 * UNIT, 1], [[], BASE + 10 * UNIT, 0, 2], [[], BASE + 11 * UNIT, UNIT, 2],
                  [[], BASE + 12 * UNIT, 0, 2], [[], BASE + 30 * UNIT, 0, 1]]
        out.append({"kind": "tie", "p": p, "b": TARGET, "stream": stream, "setup": setup_for(stream), "domain": True})
        out.append({"kind": "tie", "p": p, "b": TARGET, "stream": stream, "setup": setup_for(stream, populate=False),
                    "domain": True})
    out.append({"kind": "empty", "p": 1, "b": TARGET, "stream": [], "setup": setup_for([]), "domain": True})
    # events that last days: a heartbeat carrying a duration beyond one day, and merges across days under a long pulsetime
    DAY = 86_400_000_000
    for p in (0, 3 * 86400):
        stream = [[[], BASE, DAY + 1_500_000, 1], [[], BASE + 2 * DAY, 0, 1], [[], BASE + 4 * DAY + 250_000, 3 * DAY, 1],
                  [[], BASE + 9 * DAY, 0, 2], [[], BASE + 11 * DAY, 35 * DAY + 1000, 2]]
        out.append({"kind": "days", "p": p, "b": TARGET, "stream": stream, "setup": setup_for(stream), "domain": True})
    return out


def random_stream(rng):
    n = rng.choice([0, 1, 2, 3, 4, 5, 6, 8, 10, 14])
    unit = rng.choice([1000, UNIT, 1_000_000])
    p = rng.choice(PULSES)
    P = pulse_us(p)
    pool = rng.sample(range(1, 6), rng.choice([1, 1, 2, 2, 3]))
    t = BASE + rng.randrange(0, 5) * unit
    stream = []
    prev_end = t
    for i in range(n):
        if i > 0:
            k = rng.random()
            if k < 0.25 and prev_end + P - t >= 1000 and (prev_end + P) % 1000 == 0:
                t = prev_end + P                     # exactly at the pulsetime edge
            elif k < 0.4 and prev_end + P + 1000 > t:
                t = ((prev_end + P) // 1000 + 1) * 1000    # just above it
            elif k < 0.5 and prev_end > t and prev_end % 1000 == 0:
                t = prev_end                          # starts where the previous one ends
            else:
                t += rng.choice([1, 1, 2, 3, 5, 9]) * unit
        d = rng.choice([0, 0, 1, 1, 2, 4, 7]) * unit + rng.choice([0, 0, 0, 1, 333, 250_000])
        if rng.random() < 0.15 and stream:
            d = max(0, prev_end - t)                  # end instant ties with the previous event
        stream.append([[], t, d, rng.choice(pool)])
        prev_end = max(prev_end, t + d) if rng.random() < 0.8 else t + d
    return p, stream


def random_cases(rng, n):
    out = []
    for _ in range(n):
        p, stream = random_stream(rng)
        out.append({"kind": "random", "p": p, "b": TARGET, "stream": stream,
                    "setup": setup_for(stream, rng, populate=rng.random() < 0.85), "domain": True})
    return out


def malformed_cases(rng, n):
    """Outside the quantifier: timestamps not strictly increasing, negative durations, heartbeats that
    carry an id.  Correspondence only."""
    out = []
    fixed = [
        [[[], BASE + 2 * UNIT, UNIT, 1], [[], BASE, 4 * UNIT, 1], [[], BASE + UNIT, 0, 1], [[], BASE + 2 * UNIT, 3 * UNIT, 1]],
        [[[], BASE, UNIT, 1], [[], BASE, UNIT, 2], [[], BASE, 2 * UNIT, 1], [[], BASE, 0, 2]],
        [[[], BASE, -UNIT, 1], [[], BASE + UNIT, UNIT, 1], [[], BASE + UNIT, -1, 1], [[], BASE + 2 * UNIT, 0, 1]],
        [[[], BASE, UNIT, 1], [[0], BASE + UNIT, UNIT, 1], [[1], BASE + 9 * UNIT, UNIT, 2], [[], BASE + 9 * UNIT, 0, 2]],
        [[[], BASE, UNIT, 1], [[99], BASE + 9 * UNIT, UNIT, 2], [[], BASE + 10 * UNIT, 0, 2]],
    ]
    for stream in fixed:
        for p in (0, 1):
            out.append({"kind": "malformed", "p": p, "b": TARGET, "stream": stream, "setup": setup_for(stream),
                        "domain": False})
    for _ in range(n):
        p, stream = random_stream(rng)
        if len(stream) < 2:
            continue
        for _ in range(rng.choice([1, 1, 2, 3])):
            i = rng.randrange(0, len(stream))
            k = rng.random()
            if k < 0.5:
                j = rng.randrange(0, len(stream))
                stream[i][1] = stream[j][1] - rng.choice([0, 0, 1000, 1_000_000])
            elif k < 0.75:
                stream[i][2] = -rng.choice([1, 1000, UNIT])
            else:
                stream[i][0] = [rng.randrange(0, 8)]
        out.append({"kind": "malformed", "p": p, "b": TARGET, "stream": stream,
                    "setup": setup_for(stream, rng, populate=rng.random() < 0.7), "domain": in_domain(stream)})
    return out


def in_domain(stream):
    return (all(a[1] < b[1] for a, b in zip(stream, stream[1:])) and all(w[2] >= 0 for w in stream)
            and all(w[0] == [] for w in stream))


# ---------------------------------------------------------------------------
# the property statement on the implementation's own observations


def contents(view):
    return {} if view == [] else {w[0][0]: tuple(w[1:]) for w in view[0][1]}


def oracle(case, run, backend, UNIV=UNIV):
    """None, or (signature suffix, description)."""
    stream = case["stream"]
    ti = UNIV.index(case["b"])
    for k, (before, step, branch) in enumerate(zip(run["before"], run["steps"], run["branches"])):
        res, after = step[0], step[1:]
        if res[0] != 0:
            return "raised", f"heartbeat {k} {stream[k]} raised {sh.ERRNAME.get(res[1], res[1])} on {backend}"
        for b, vb, va in zip(UNIV, before, after):
            if b != case["b"] and vb != va:
                return "other-bucket", f"heartbeat {k} changed bucket {b} on {backend}: {vb} -> {va}"
        if before[ti] == [] or after[ti] == [] or before[ti][0][0] != after[ti][0][0]:
            return "metadata", f"heartbeat {k} changed the target bucket's metadata on {backend}"
        cb, ca = contents(before[ti]), contents(after[ti])
        if len(ca) != len(after[ti][0][1]):
            return "duplicate-id", f"an id names two events after heartbeat {k} on {backend}: {after[ti][0][1]}"
        lost = sorted(set(cb) - set(ca))
        if lost:
            return "lost", f"heartbeat {k} {stream[k]} removed event(s) {lost} on {backend}"
        changed = sorted(i for i in cb if ca[i] != cb[i])
        new = sorted(set(ca) - set(cb))
        newest = max(cb.values())[0] if cb else None        # maximal start instant before the heartbeat
        if any(cb[i][0] != newest for i in changed):
            return "earlier-altered", (f"heartbeat {k} {stream[k]} altered an event that was not the newest on {backend}: "
                                       f"{[(i, cb[i], ca[i]) for i in changed]}")
        if len(changed) + len(new) > 1:
            return "step-shape", (f"heartbeat {k} {stream[k]} changed {len(changed)} and added {len(new)} events on "
                                  f"{backend} (expected at most one of the two)")
        read = run["reads"][k] if k < len(run.get("reads") or []) else None
        if read is not None and read[0] and any(i != read[0][0] for i in changed):
            return "earlier-altered", (f"heartbeat {k} {stream[k]}: the limit-1 read returned event {read}, replace_last rewrote "
                                       f"{[(i, cb[i], ca[i]) for i in changed]} on {backend}")
    if isinstance(run["final"], dict):
        return "raised", f"reading the bucket back after the loop (Bucket.get(-1)) raised {run['final']['raised']} on {backend}"
    if run["reduce"] is None:
        return None
    got = [w[1:] for w in reversed(run["final"])]
    want = [w[1:] for w in run["reduce"]]
    if got != want:
        return "reduce", (f"bucket after the loop on {backend} (oldest first, ids aside) {got} != {run.get('reduce_of', 'heartbeat_reduce of the stream')} {want}")
    return None


def expectations(f, p, reduce_of):
    """what the fed bucket must hold (oldest first, with ids []): [(description, events), ...] - more than one only when a
    skipped heartbeat's write statement had run before its COMMIT raised (either outcome of a call that raised)"""
    if f is None or len(f["maybe"]) > 3:
        return None
    pre = sorted(f["prefill"], key=lambda w: w[1])
    out = []
    for mask in range(1 << len(f["maybe"])):
        extra = [w for k, w in enumerate(f["maybe"]) if mask >> k & 1]
        stream = sorted(f["stream"] + extra, key=lambda w: w[1])
        if not in_domain(stream):
            continue
        if not pre:
            what, evs = "heartbeat_reduce of what was fed since the bucket was created", reduce_of(stream, p)
        else:
            what = ("the events the bucket was filled with, the newest of them continued by the stream (prefill[:-1] ++ "
                    "heartbeat_reduce([newest] ++ stream))")
            evs = [[[]] + w[1:] for w in pre[:-1]] + reduce_of([pre[-1]] + stream, p)
        out.append((what + (f" with the skipped heartbeat(s) {extra}" if extra else ""), evs))
    return out or None


def oracle_lifecycle(case, res, backend, reduce_of):
    """The property statement on every phase of a lifecycle case -> None or (signature suffix, description, phase)."""
    univ = case["univ"]
    fed = c07_life.fed_and_history(case, res)
    for k, (ph, rec, f) in enumerate(zip(case["phases"], res["phases"], fed)):
        be = rec["backend"]
        where = f"{be} (phase {k} of the lifecycle, storage object {rec['st']})"
        expected = expectations(f, ph["p"], reduce_of)
        if rec["other_store_changed"]:
            return "other-store", f"feeding a bucket of storage object {rec['st']} changed the buckets of storage object(s) " \
                                  f"{rec['other_store_changed']} ({where})", k
        if "migrated_views" in rec and k > 0:
            # the store was constructed on a legacy database: the buckets hold what the legacy store held (ids aside)
            legacy = res["phases"][k - 1]["last"]
            strip = lambda views: [[] if v == [] else [v[0][0], sorted(w[1:] for w in v[0][1])] for v in views]   # noqa: E731
            if strip(legacy) != strip(rec["migrated_views"]):
                return "migration", f"the store constructed on the legacy database does not hold what the legacy store held: " \
                                    f"{strip(legacy)} -> {strip(rec['migrated_views'])} ({where})", k
        if ph["dense"]:
            run = {"before": rec["before"], "steps": rec["steps"], "branches": rec["branches"], "final": rec["final"],
                   "reads": rec.get("reads"), "reduce": expected[0][1] if expected else None,
                   "reduce_of": expected[0][0] if expected else None}
            bad = oracle({"stream": ph["stream"], "b": ph["b"]}, run, where, univ)
            if bad:
                return bad[0], bad[1], k
            continue
        survived = ""
        if "outcomes" in rec:
            n_f = sum(1 for t in rec["tries"] if t)
            survived = (f"; the engine failed in {n_f} round(s) (heartbeats {[i for i, t in enumerate(rec['tries']) if t]}: "
                        f"{[t for t in rec['tries'] if t]}), the caller went on: {[o for o, t in zip(rec['outcomes'], rec['tries']) if t]}")
        for i, st in enumerate(rec["steps"]):
            if st[0][0] == 1:
                return "raised", f"heartbeat {i} {ph['stream'][i]} raised {sh.ERRNAME.get(st[0][1], st[0][1])} on {where}{survived}", k
        inserted = {}
        q = c07_life.quiet_tail(ph)
        if q is not None:
            for op in ph["ops"][q:]:
                inserted.setdefault(op[1], []).append(op[2][1:])
        for b, vb, va in zip(univ, rec["first"], rec["last"]):
            if b == ph["b"]:
                continue
            if b in inserted and vb != [] and va != []:
                same = vb[0][0] == va[0][0] and sorted(w[1:] for w in va[0][1]) == sorted([w[1:] for w in vb[0][1]] + inserted[b])
            else:
                same = vb == va
            if not same:
                return "other-bucket", (f"bucket {b} after the stream into bucket {ph['b']} does not hold what it held before plus what "
                                        f"the caller wrote into it ({inserted.get(b, [])}): {vb} -> {va} on {where}{survived}"), k
        if isinstance(rec["final"], dict):
            return "raised", f"reading the bucket back after the loop (Bucket.get(-1)) raised {rec['final']['raised']} on {where}{survived}", k
        if expected is not None:
            got = [w[1:] for w in reversed(rec["final"])]
            wants = [[w[1:] for w in evs] for _, evs in expected]
            if got not in wants:
                want = wants[0]
                d = next((i for i, (x, y) in enumerate(zip(got, want)) if x != y), min(len(got), len(want)))
                return "reduce", (f"bucket after the loop on {where}: {len(got)} events, {expected[0][0]}: {len(want)}; first "
                                  f"difference at position {d}: {got[d:d + 2]} vs {want[d:d + 2]}{survived}"), k
    return None


def lifecycle_model_cases(case, res):
    """[(phase index, wire case, record)]: the model of the phase's back end on everything done to that storage
    object so far; sparse phases go in as the concrete operations the loop performed (no per-heartbeat dumps).  With engine
    faults: the calls that TOOK EFFECT - every call that returned normally, and a call whose statements had all run when its
    closing COMMIT raised (the engine keeps the transaction open) -; after a half-applied call (a later statement of a
    bucket operation raised) the store is not compared any more: the store models have no step for it.  A store constructed
    on a legacy database starts with the calls the migration made"""
    hist = {}
    void = set()
    out = []
    for k, (ph, rec) in enumerate(zip(case["phases"], res["phases"])):
        h = hist.setdefault(ph["st"], [])
        h += rec.get("migration_ops", [])
        h += rec.get("ops_effective", ph["ops"])
        if rec.get("model_void"):
            void.add(ph["st"])
        code = sh.BACKEND_CODE[rec["backend"]]
        if ph["dense"]:
            if ph["st"] not in void:
                out.append((k, sx([code, case["univ"], h, ph["b"], pulse_us(ph["p"]), ph["stream"]]), rec))
            h += rec["performed"]
        else:
            h += rec["performed"]
            if ph["st"] not in void and not any(q["st"] == ph["st"] and q["dense"] for q in case["phases"][k + 1:]):   # else: part of that phase's history
                out.append((k, sx([code, case["univ"], h, ph["b"], pulse_us(ph["p"]), []]), rec))
        hist[ph["st"]] = list(h)
    return out


def shrink_lifecycle(case, backend, fails):
    """drop phases, then heartbeats and operations of the remaining phases, while `fails(case)` holds"""
    phases = common.shrink_list(case["phases"], lambda ps: bool(ps) and fails(dict(case, phases=ps)), max_steps=40)
    for k in range(len(phases)):
        for key in ("stream", "ops"):
            if len(phases[k][key]) > 1 and len(phases[k][key]) <= 64:
                def with_(lst, _k=k, _key=key):
                    return dict(case, phases=phases[:_k] + [dict(phases[_k], **{_key: lst})] + phases[_k + 1:])
                small = common.shrink_list(phases[k][key], lambda lst: fails(with_(lst)), max_steps=40)
                phases = phases[:k] + [dict(phases[k], **{key: small})] + phases[k + 1:]
    return dict(case, phases=phases)


# ---------------------------------------------------------------------------


def rel(stream):
    return [[w[0], w[1] - BASE, w[2], w[3]] for w in stream]


def pre1970_probe(ck):
    """Domain probe (recorded, not a verdict): a stream before 1970.  The sqlite back end's unwindowed read
    filters `endtime >= 0`, so such events are stored but never read back; the theorem for sqlite carries
    the hypothesis 0 <= end and Props/C07.v proves that the model needs it."""
    t0 = -3600 * 1_000_000
    stream = [[[], t0 + i * 1_000_000, 1_000_000, 1] for i in range(3)]
    case = {"kind": "pre1970", "p": 5, "b": TARGET, "stream": stream, "setup": setup_for(stream, populate=False),
            "domain": True}
    res = run_impl_batch([case], procs=1)[0]
    ck.coverage["domain_probe_pre1970"] = {
        be: {"events_read_back": len(res[be]["final"]), "reduce": len(res[be]["reduce"])} for be in sh.BACKENDS}
    return case, res


def fault_probes(ck):
    """Recorded, not a verdict: what the tree does at the two fault positions where a call that RAISED leaves something
    behind (notes/agents/C07.md, Round 5 findings).  (a) sqlite, every write commits: the COMMIT after a heartbeat's INSERT
    raises, the caller skips the heartbeat - the INSERT stays in the open transaction and the next COMMIT keeps it (the
    oracle admits either outcome for such a heartbeat).  (b) the second statement of delete_bucket (the bucket's own row)
    raises - the bucket's events are gone, the bucket is still listed (sqlite: committed by the next call)."""
    s = c07_life.hb_stream(0, [1, 2, 3], gap=2, dur=1)
    a = c07_life.fault_case(["sqlite"], [c07_life.fault_phase(0, c07_life.start_ops(), c07_life.T, 1, s,
                                                              [c07_life.hb_fault(s[1], "commit", 1, "wrap", "skip")])], lazy=False)
    d = c07_life.delete(c07_life.T)
    b = c07_life.fault_case(c07_life.FAULT_BACKENDS, [
        c07_life.phase(0, c07_life.start_ops(), c07_life.T, 1, s),
        c07_life.fault_phase(0, [d], c07_life.T, 1, [], [c07_life.op_fault(d, "execute", 1, "wrap", "next")])])
    ra, rb = run_impl_batch([a, b], procs=1)
    rec = ra["sqlite"]["phases"][0]
    out = {"a_sqlite_eager_commit_after_insert_raises_caller_skips": {
        "round_outcomes": rec["outcomes"], "labels_in_the_bucket_afterwards": [w[3] for w in reversed(rec["final"])] if isinstance(rec["final"], list) else rec["final"]}}
    for be in c07_life.FAULT_BACKENDS:
        before, after = rb[be]["phases"][0]["last"][0], rb[be]["phases"][1]["last"][0]
        out.setdefault("b_second_statement_of_delete_bucket_raises", {})[be] = {
            "delete_bucket_result": rb[be]["phases"][1]["op_results"], "bucket_still_listed": after != [],
            "events_before": len(before[0][1]) if before else None, "events_after": len(after[0][1]) if after else None}
    ck.coverage["fault_probes_calls_that_raised_and_left_something_behind"] = out


def main(argv=None):
    ck = Check("C07", argv)
    common.setup_impl_env()
    # every storage object asks aw_core.dirs for the data directory, which creates it without exist_ok: workers that
    # start at the same moment race (FileExistsError); it exists before they start
    os.makedirs(os.path.join(os.environ["XDG_DATA_HOME"], "activitywatch", "aw-server"), exist_ok=True)
    ck.run_witnesses(["w05"])
    # pristine snapshot of this process (harness/freshproc.py): lifecycle findings are re-run and shrunk there, on their own
    from .freshproc import Fresh
    import aw_datastore.storages  # noqa: F401 -- imported (not called) before the snapshot, so that the forks need not
    import aw_transform.heartbeats  # noqa: F401
    fresh_tmp = tempfile.mkdtemp(prefix="awc07-fresh-")
    fresh_n = itertools.count()

    def fresh_handler(req):
        case, be = req
        d = tempfile.mkdtemp(prefix="r", dir=fresh_tmp)
        try:
            return c07_life.run_lifecycle(be, case, d, 0)
        finally:
            shutil.rmtree(d, ignore_errors=True)
    fresh = Fresh(fresh_handler)
    ck.prove(extra_targets=tieb_stores.STORES_DS[0], gen_kernels=tieb_stores.STORES_DS[1])   # ties A + B
    have_driver = ck.driver()

    n_rand, n_bad = (700, 250) if ck.tier == "quick" else (24000, 8000)
    cases = boundary_cases()
    if ck.tier == "quick":
        # the full grid (3888 streams) runs in the thorough tier; quick keeps every p and data pattern and a
        # seeded third of the (gap, duration) placements, plus all the tie cases
        grid = [c for c in cases if c["kind"] == "grid"]
        keep = set(ck.rng.sample(range(len(grid)), len(grid) // 3))
        cases = [c for i, c in enumerate(grid) if i in keep] + [c for c in cases if c["kind"] != "grid"]
    cases += random_cases(ck.rng, n_rand) + malformed_cases(ck.rng, n_bad)
    # lifecycles (harness/c07_life.py): phases on storage objects that live on; the long streams lead the job queue
    n_life = 160 if ck.tier == "quick" else 6000
    cases = list(c07_life.large_cases(ck.rng, ck.tier)) + cases + c07_life.boundary_cases() \
        + [c07_life.random_case(ck.rng) for _ in range(n_life)]
    # round 5: engine faults the caller survives (sqlite, peewee); buckets filled newest first / in shuffled id order or
    # imported by the library's migration from a legacy peewee database, then continued by the loop
    n_fault, n_pre, n_mig = (90, 60, 24) if ck.tier == "quick" else (4000, 2500, 600)
    cases += c07_life.fault_boundary_cases() + [c07_life.random_fault_case(ck.rng) for _ in range(n_fault)]
    cases += c07_life.prefilled_boundary_cases() + [c07_life.random_prefilled_case(ck.rng) for _ in range(n_pre)]
    cases += c07_life.migrated_boundary_cases() + [c07_life.random_migrated_case(ck.rng) for _ in range(n_mig)]
    from aw_transform.heartbeats import heartbeat_reduce

    def reduce_of(stream, p):
        return [sh.ev_w(e) for e in heartbeat_reduce([sh.mk_ev(w) for w in stream], p)]

    def replay_fails(case, be, sig):
        """a lifecycle case re-run on its own in a process forked from the pristine snapshot"""
        if not c07_life.well_formed(case):
            return False
        res = fresh.run((case, be))
        if res.get("malformed"):
            return False
        bad = oracle_lifecycle(case, res, be, reduce_of)
        return bad is not None and bad[0] == sig
    import time
    t_impl = time.time()
    results = run_impl_batch(cases)
    ck.coverage["timing_s"] = {"implementation_runs": round(time.time() - t_impl, 1)}

    runs = []
    life_runs = []
    deferred = []       # lifecycle findings that did not reproduce on their own in a fresh process: reported after the others
    # lifecycle findings are confirmed (and shrunk) on their own in a fresh process, so they are self-contained; a finding
    # of the single-stream cases may owe itself to what earlier cases left behind in its worker process; long inputs last
    order = sorted(range(len(cases)), key=lambda i: 2 if cases[i]["kind"] == "lifecycle-large" else 0 if cases[i]["kind"].startswith("lifecycle") else 1)
    for case, res in ((cases[i], results[i]) for i in order):
        if case["kind"].startswith("lifecycle"):
            ck.count(case["kind"])
            ck.count("lifecycle:storage-objects=%d" % len(case["stores"]))
            for be in case.get("only", sh.BACKENDS):
                r = res[be]
                for ph, rec in zip(case["phases"], r["phases"]):
                    ck.count("lifecycle:phase:%s:%s" % (be, ph["via"]))
                    ck.count("lifecycle:phase:stream-len>10000" if len(ph["stream"]) > 10000 else "lifecycle:phase:stream-len<=10000")
                    if any(op[0] == 2 and op[1] == ph["b"] for op in ph["ops"]):
                        ck.count("lifecycle:phase:fed-bucket-deleted-and-created-again")
                    for br in rec["branches"]:
                        ck.count(f"{be}:{br}")
                    for f_, o_, t_ in zip(ph["stream"], rec.get("outcomes", []), rec.get("tries", [])):
                        if t_:
                            ck.count(f"fault:{be}:round:engine-failed-{len(t_)}x:caller-{'repeated-the-round' if o_ == 'ok' and not rec['recreated'] else 're-created-the-bucket' if o_ == 'ok' else o_}")
                    for f_ in ph.get("faults") or []:
                        ck.count(f"fault:{be}:armed:{f_['on']}:{f_['kind']}{f_['nth']}:{f_.get('mech', 'wrap')}")
                    for r_ in rec["op_results"]:
                        if r_ and isinstance(r_[0], list):
                            ck.count(f"fault:{be}:bucket-operation-failed-and-was-repeated")
                        elif ph.get("faults") and r_[0] == 1:
                            ck.count(f"fault:{be}:bucket-operation-failed")
                    if rec.get("model_void"):
                        ck.count(f"fault:{be}:half-applied-bucket-operation(no model comparison afterwards)")
                    if rec.get("maybe"):
                        ck.count(f"fault:{be}:skipped-heartbeat-whose-write-had-run(either outcome admitted)", len(rec["maybe"]))
                merged_after_recreate = any(
                    any(op[0] == 2 and op[1] == ph["b"] for op in ph["ops"]) and "merge" in rec["branches"]
                    for ph, rec in zip(case["phases"], r["phases"]))
                special = {"lifecycle-fault": any(any(rec.get("tries", [])) or any(isinstance(x[0], list) or x[0] == 1 for x in rec["op_results"] if x)
                                                  for rec in r["phases"]),
                           "lifecycle-prefilled": any("merge" in rec["branches"] for rec in r["phases"]),
                           "lifecycle-migrated": any("merge" in rec["branches"] and case["stores"][rec["st"]] == "M" for rec in r["phases"])
                           }.get(case["kind"], False)
                ck.note_case([be, case["kind"], case["stores"], case.get("store_opts"),
                              [[ph["st"], ph["via"], ph["ops"], ph["b"], ph["p"], rel(ph["stream"][:50]), len(ph["stream"]),
                                [[f_["on"], f_.get("ts", 0) - BASE if f_["on"] == "hb" else f_["op"], f_["kind"], f_["nth"], f_.get("mech"), f_["then"],
                                  f_.get("times", 1)] for f_ in ph.get("faults") or []]] for ph in case["phases"]]],
                             nontrivial=merged_after_recreate or len(case["stores"]) > 1 or special)
                bad = oracle_lifecycle(case, r, be, reduce_of)
                if bad and len(ck.violations) + len(deferred) >= 20:
                    ck.count("lifecycle:failing-beyond-the-20-reported")
                elif bad:
                    sig = bad[0]
                    alone = replay_fails(case, be, sig)
                    small = case
                    if alone and len(ck.violations) < 3 and case["kind"] != "lifecycle-large":
                        small = shrink_lifecycle(case, be, lambda c: replay_fails(c, be, sig))
                        bad = oracle_lifecycle(small, fresh.run((small, be)), be, reduce_of) or bad
                    (ck.failing_input if alone else lambda *a: deferred.append(a))(f"C07:{r['phases'][min(bad[2], len(r['phases']) - 1)]['backend']}:{sig}", bad[1],
                                     {"backend": be, "storage_objects": [c07_life.STORE_KIND.get(s, "{}").format(c07_life.store_backend(be, s)) for s in small["stores"]],
                                      "failing_phase": bad[2], "store_options": small.get("store_opts", {}),
                                      "phases": [dict({"storage_object": ph["st"], "operations_issued_through": ph["via"],
                                                  "operations": [sh.describe(o) for o in ph["ops"][:40]], "operations_wire": ph["ops"][:40],
                                                  "then_heartbeats_into_bucket": sh.s_of(ph["b"]), "pulsetime_s": ph["p"],
                                                  "stream_wire(id?,ts_us,dur_us,data_label)": ph["stream"][:60],
                                                  "stream_len": len(ph["stream"])},
                                                 **({"engine_faults(harness/c07_fault.py)": ph["faults"],
                                                     "dumps_between_the_rounds": False} if ph.get("faults") else {}))
                                                 for ph in small["phases"]],
                                      "case_wire": small if len(json.dumps(small)) < 20000 else None,
                                      "rerun": "VERIF_REPO=<tree> python -m harness.c07_life <this replay file>",
                                      "reproduces_alone_in_a_fresh_process": alone,
                                      "how": "harness/c07_life.py run_lifecycle: every phase on the SAME storage object(s), the standard "
                                             "loop over Datastore/Bucket; expected = heartbeat_reduce of what was fed into the bucket since "
                                             "it was created"})
                life_runs.append((case, be, r))
            continue
        P = pulse_us(case["p"])
        dom = case["domain"] and in_domain(case["stream"])
        ck.count(case["kind"])
        ck.count("len=%d" % len(case["stream"]))
        ck.count("pulsetime_us=%d" % P)
        ends_nd = all(a[1] + a[2] <= b[1] + b[2] for a, b in zip(case["stream"], case["stream"][1:]))
        if dom:
            ck.count("in-domain, ends non-decreasing" if ends_nd else "in-domain, some end decreases")
            if any(a[1] + a[2] == b[1] + b[2] for a, b in zip(case["stream"], case["stream"][1:])):
                ck.count("in-domain, an end instant ties with the previous heartbeat's")
        for be in sh.BACKENDS:
            run = res[be]
            for br in run["branches"]:
                ck.count(f"{be}:{br}")
            sizes = [len(contents(v[UNIV.index(case["b"])])) for v in run["before"]]
            nontriv = dom and any((br == "merge" and s >= 2) or br == "refused" for br, s in zip(run["branches"], sizes))
            ck.note_case([be, P, rel(case["stream"]), len(case["setup"])], nontrivial=nontriv)
            if dom:
                bad = oracle(case, run, be)
                if bad:
                    ck.failing_input(f"C07:{be}:{bad[0]}", bad[1],
                                     {"backend": be, "pulsetime_s": case["p"], "bucket": sh.s_of(case["b"]),
                                      "setup_ops": [sh.describe(o) for o in case["setup"]],
                                      "stream_wire(id?,ts_us,dur_us,data_label)": case["stream"],
                                      "stream_rel_BASE": rel(case["stream"]),
                                      "observed_final(newest first)": run["final"], "heartbeat_reduce": run["reduce"],
                                      "how": "harness/c07.py heartbeat_step over Datastore/Bucket; sh.mk_ev builds the events"})
            runs.append((case, be, run))
        if len(ck.samples) < 4 and dom and len(case["stream"]) >= 4 and "merge" in res["sqlite"]["branches"]:
            ck.sample({"pulsetime_s": case["p"], "stream_us_rel": rel(case["stream"]),
                       "branches": res["sqlite"]["branches"], "sqlite_final_newest_first": res["sqlite"]["final"]})

    for a in deferred:
        ck.failing_input(*a)

    if have_driver:
        wire = [sx([sh.BACKEND_CODE[be], UNIV, case["setup"], case["b"], pulse_us(case["p"]), case["stream"]])
                for case, be, _ in runs]
        t_model = time.time()
        outs = common.run_driver("C07", wire)
        ck.coverage["timing_s"]["model_runs"] = round(time.time() - t_model, 1)
        for (case, be, run), w, mo in zip(runs, wire, outs):
            if mo == [-999]:
                ck.disagreement("ingest", "driver could not decode a case", {"case": w})
                continue
            msteps, mfinal, mreduce = mo
            msteps = [sh.canon_step(s) for s in msteps]
            mfinal = sh.canon_step(mfinal)
            if msteps != run["steps"]:
                k = next((i for i, (a, b) in enumerate(zip(msteps, run["steps"])) if a != b), min(len(msteps), len(run["steps"])))
                ck.disagreement("ingest", f"{be}: model and implementation differ at heartbeat {k} of {rel(case['stream'])} "
                                          f"(p={case['p']}): model {msteps[k] if k < len(msteps) else None} impl "
                                          f"{run['steps'][k] if k < len(run['steps']) else None}",
                                {"backend": be, "case": w, "model_steps": msteps, "impl_steps": run["steps"]})
                continue
            last_views = msteps[-1][1:] if msteps else None
            if last_views is not None and mfinal[1:] != last_views:
                ck.disagreement("ingest_stream", f"{be}: ingest_stream differs from iterated ingest_step", {"case": w})
            if case["domain"] and in_domain(case["stream"]):
                # the theorem's statement evaluated on the model's own output (sanity of the statement)
                tv = mfinal[1 + UNIV.index(case["b"])]
                got = [e[1:] for e in tv[0][1]]        # sorted by id = storage order for every back end here
                if got != [e[1:] for e in mreduce]:
                    ck.disagreement("statement", f"{be}: model ingest {got} != model heartbeat_reduce {mreduce}", {"case": w})

    if have_driver and life_runs:
        items = [(case, be, k, w, rec) for case, be, r in life_runs for k, w, rec in lifecycle_model_cases(case, r)]
        t_model = time.time()
        from concurrent.futures import ThreadPoolExecutor
        long_ = [i for i, it in enumerate(items) if len(it[3]) > 100_000]
        parts = [[i] for i in long_] + [[i for i in range(len(items)) if i not in set(long_)]]
        outs = [None] * len(items)
        with ThreadPoolExecutor(max_workers=8) as ex:       # the driver is a subprocess per batch: the long cases side by side
            for idx, res_ in zip(parts, ex.map(lambda idx: common.run_driver("C07", [items[i][3] for i in idx]) if idx else [], parts)):
                for i, o in zip(idx, res_):
                    outs[i] = o
        ck.coverage["timing_s"]["model_runs_lifecycles"] = round(time.time() - t_model, 1)
        for (case, be, k, w, rec), mo in zip(items, outs):
            ph = case["phases"][k]
            what = f"{rec['backend']} (lifecycle under test for {be}, phase {k}, storage object {rec['st']}, via {ph['via']})"
            if mo == [-999]:
                ck.disagreement("ingest-lifecycle", "driver could not decode a case", {"case": w[:2000]})
                continue
            msteps, mfinal, _ = mo
            msteps = [sh.canon_step(x) for x in msteps]
            mfinal = sh.canon_step(mfinal)
            if ph["dense"]:
                if msteps != rec["steps"]:
                    i = next((i for i, (a, b) in enumerate(zip(msteps, rec["steps"])) if a != b), min(len(msteps), len(rec["steps"])))
                    ck.disagreement("ingest-lifecycle", f"{what}: model and implementation differ at heartbeat {i} of "
                                                        f"{rel(ph['stream'][:30])} (p={ph['p']}): model "
                                                        f"{msteps[i] if i < len(msteps) else None} impl "
                                                        f"{rec['steps'][i] if i < len(rec['steps']) else None}",
                                    {"backend": rec["backend"], "case": w[:4000], "phase": k})
            elif mfinal[1:] != rec["last"]:
                ck.disagreement("ingest-lifecycle", f"{what}: after the operations the loop performed the model's buckets differ "
                                                    f"from the implementation's", {"backend": rec["backend"], "phase": k})
    fresh.close()
    shutil.rmtree(fresh_tmp, ignore_errors=True)
    ck.coverage["lifecycle_replays_in_fresh_processes"] = fresh.evaluations

    pre1970_probe(ck)
    try:
        fault_probes(ck)
    except Exception as ex:  # noqa: BLE001 -- a probe, not a verdict
        ck.coverage["fault_probes_calls_that_raised_and_left_something_behind"] = {"probe_could_not_run": f"{type(ex).__name__}: {ex}"}
    ck.assumptions += [
        "the loop is the standard client loop written in harness/c07.py over Datastore/Bucket (it is not in aw-core)",
        "pulsetime enters the model as the integer microseconds Python's timedelta(seconds=p) yields",
        "event data {'x': n} <-> label n; instants exact integer microseconds on both sides",
        "in-domain streams lie in 1970..2100 (DESIGN 2.2); the sqlite theorem carries 0 <= end explicitly",
        "engine faults: the store models have no fault step; a fault lifecycle is judged by the property statement on the rounds "
        "that finally returned normally and by the model run on the calls that took effect (those that returned normally, and a "
        "call whose statements had all run when its closing COMMIT raised); engine rules assumed: a COMMIT that fails leaves the "
        "transaction open and loses nothing, a statement that fails writes nothing (sampled with the authorizer and a real lock)",
        "pre-filled / migrated buckets are outside the theorem C07_ingest_eq_reduce_* (its bucket starts empty): the statement "
        "checked is C07_earlier_untouched_* per heartbeat (the rewritten event is the one the limit-1 read returned = the newest by "
        "start) and, after the stream, prefill[:-1] ++ heartbeat_reduce([newest] ++ stream)",
    ]
    return ck.finish(RULE)


if __name__ == "__main__":
    sys.exit(main())
