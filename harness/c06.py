"""C06 — after a crash the database holds a prefix of what was done, minus a bounded tail.
Correspondence of Model/Commit.v with the real SqliteStorage / PeeweeStorage observed
through a second connection at every statement boundary, plus the property statement
evaluated on those observations."""
import json
import os
import subprocess
import sys

from . import common
from .common import Check
from . import c06_lib as lib
from . import c06_gen as gen

RULE = ("deterministic corpus (count thresholds n = 49..52 for inserts, deletions, replace, replace_last and "
        "mixtures; insert_many of 0..101 rows on 0/1/49/50 pending writes, with upserts; bucket operations and "
        "reads interleaved; calls the engine rejects; ages 9.999 s / 10 s / 10.000001 s / 10.001 s / idle hours; "
        "clocks that move between the readings of one conditional_commit; the eager store) then seeded random "
        "histories of 20-140 calls in four profiles (mixed, bursts, trickles, bulk); every SQL statement boundary "
        "and every commit step is a crash point observed through a second connection; peewee: the same through a "
        "second connection at every statement; thorough adds real SIGKILLs and exits without shutdown of a child process, then a reopen. non-trivial = distinct history in "
        "which a conditional_commit both buffered (no flush) and flushed at least once")

REPLAY_CMD = "PYTHONPATH=%s:%s /venv/bin/python -m harness.c06_replay '%s'"


def replay_obj(r, extra=None):
    case = {"lazy": r.lazy, "steps": r.steps}
    o = {"history": case, "rerun": REPLAY_CMD % (common.REPO, common.VERIF, json.dumps(case))}
    if extra:
        o.update(extra)
    return o


def shrink_history(sq, Event, lazy, steps, signature, which):
    """Greedy shrink of a failing concrete history, keeping the same oracle signature."""
    def still(cand):
        try:
            r = lib.run_history(sq, Event, lazy, cand)
        except Exception:
            return False
        v = lib.oracles(r)[which]
        return any(s == signature for s, _ in v)
    if len(steps) > 400:
        return steps
    return common.shrink_list(steps, still, max_steps=150)


def run_sqlite_histories(ck, sq, Event, histories, prop_index, prefix):
    """Runs histories, evaluates the oracles (prop_index 0 = C06, 1 = C18) and queues the
    model cases.  -> list of (runner, case index, script case indexes)"""
    pending = []
    wire = []
    for name, lazy, h in histories:
        try:
            r = lib.run_history(sq, Event, lazy, h)
        except Exception as ex:
            ck.disagreement("harness", f"history {name} could not be run: {type(ex).__name__}: {ex}", {"history": name})
            continue
        r.name = name
        v = lib.oracles(r)[prop_index]
        seen = ck.__dict__.setdefault("_reported_signatures", set())
        for sig, desc in v:
            if sig in seen:          # one shrunk replay per kind of failure is enough
                ck.count(prefix + "further-failing-histories:" + sig)
                continue
            seen.add(sig)
            steps = shrink_history(sq, Event, lazy, r.steps, sig, prop_index)
            rr = lib.run_history(sq, Event, lazy, steps)
            vv = [d for s, d in lib.oracles(rr)[prop_index] if s == sig]
            ck.failing_input(sig, f"{name}: {vv[0] if vv else desc}", replay_obj(rr, {"found_in": name}))
        i_trace = len(wire)
        wire.append(lib.wire_trace(lazy, r.t0, r.rec.micro))
        i_scripts = []
        for c in r.rec.calls:
            i_scripts.append(len(wire))
            wire.append(lib.wire_script(lib.model_op(c)))
        pending.append((r, i_trace, i_scripts))
        for c in r.rec.calls:
            ck.count(prefix + "call:" + c["spec"][0])
            if c.get("expect"):
                ck.count(prefix + "call-variant:" + c["expect"])
        ck.count(prefix + "histories")
        ck.count(prefix + "micro-steps", len(r.rec.micro))
        ck.count(prefix + "crash-points-observed", len(r.rec.obs))
        ck.count(prefix + "write-statements", len(r.rec.issue_time))
        ck.count(prefix + "rejected-statements", r.rec.failed_stmts)
    return pending, wire


def compare_with_model(ck, prop, pending, wire, prefix):
    if not pending:
        return
    out = common.run_driver(prop, wire)
    for r, i_trace, i_scripts in pending:
        if out[i_trace] == [-999] or any(out[i] == [-999] for i in i_scripts):
            ck.disagreement("commit-model", f"{r.name}: the driver could not decode the case", replay_obj(r))
            continue
        bad = lib.compare_model(r, out[i_trace], [out[i] for i in i_scripts])
        br = lib.model_branches(r, out[i_trace])
        for k, v in br.items():
            ck.count(prefix + k, v)
        canon = [r.lazy, [(dt, tick, s[0], len(s[2]) if s[0] == "insert_many" else 0, s[3] if s[0] == "insert_many" else 0)
                          for dt, tick, s in r.steps]]
        nontrivial = (br.get("cc:none", 0) > 0 and (br.get("cc:count", 0) + br.get("cc:age", 0) + br.get("cc:count+age", 0)) > 0)
        ck.note_case(canon, nontrivial=nontrivial)
        if len(ck.samples) < 4 and nontrivial and len(r.steps) < 70:
            ck.sample({"history": r.name, "lazy": r.lazy, "calls": len(r.steps), "write_statements": len(r.rec.issue_time),
                       "crash_points_observed": len(r.rec.obs), "cond_commit_branches": br,
                       "first_steps": r.steps[:6]})
        for b in bad[:3]:
            ck.disagreement("commit-model", f"{r.name}: {b}", replay_obj(r, {"disagreement": b}))


def run_peewee(ck, n_hist, seed):
    """Peewee runs in a child process (module-level database object)."""
    env = dict(os.environ)
    p = subprocess.run([sys.executable, "-m", "harness.c06_peewee", str(seed), str(n_hist)], cwd=common.VERIF,
                       env=env, stdout=subprocess.PIPE, stderr=subprocess.PIPE, text=True, timeout=3000)
    if p.returncode != 0:
        ck.disagreement("peewee", "peewee child failed: " + p.stderr[-400:], {"stderr": p.stderr[-2000:]})
        return
    res = json.loads(p.stdout.strip().splitlines()[-1])
    for v in res["violations"]:
        ck.failing_input(v["signature"], v["description"], v["replay"])
    for d in res["anomalies"]:
        ck.disagreement("peewee", d, {"child": "harness.c06_peewee", "seed": seed})
    for k, v in res["counts"].items():
        ck.count("peewee:" + k, v)
    # the model's statement sequences and database sizes for the same op lists
    wire = [common.sx([2, h["ops"]]) for h in res["histories"]]
    out = common.run_driver("C06", wire) if wire else []
    for h, o in zip(res["histories"], out):
        ck.note_case(["peewee", h["ops"]], nontrivial=any(op[0] == 4 and len(op[2]) > 100 for op in h["ops"]))
        if o == [-999]:
            ck.disagreement("peewee-model", "driver could not decode the case", {"ops": h["ops"]})
            continue
        per_op, fin = o
        model_sizes = [[len(m[1]) if m[0] == 1 else 1 for m in ms] for ms, _ in per_op]
        model_lens = [lens for _, lens in per_op]
        if model_sizes != h["stmt_rows"]:
            i = next(i for i, (a, b) in enumerate(zip(model_sizes, h["stmt_rows"])) if a != b)
            ck.disagreement("peewee-model", f"statements of call {h['calls'][i]}: model rows per statement "
                            f"{model_sizes[i]}, implementation {h['stmt_rows'][i]}", {"steps": h["calls"], "call": i})
        elif model_lens != h["db_units"]:
            ck.disagreement("peewee-model", "database size after each statement differs", {"steps": h["calls"]})
    if len(ck.samples) < 6 and res["histories"]:
        h = res["histories"][0]
        ck.sample({"backend": "peewee", "calls": h["calls"][:5], "rows_per_statement": h["stmt_rows"][:5]})


def run_sigkill(ck, n_runs, seed):
    from . import c06_kill
    for i in range(n_runs):
        for backend in ("sqlite", "peewee"):
            delay = ck.rng.uniform(0.15, 1.2) * (-1 if i % 5 == 4 else 1)   # every fifth: plain exit, no shutdown
            res = c06_kill.kill_run(backend, seed * 1000 + i, delay)
            ck.count(f"sigkill:{backend}" if delay > 0 else f"exit-without-shutdown:{backend}")
            ck.count(f"sigkill:{backend}:statements-logged", res["logged"])
            ck.count(f"sigkill:{backend}:lost-writes", res.get("lost", 0))
            ck.evaluations += 1
            for sig, desc in res["violations"]:
                ck.failing_input(sig, desc, {"backend": backend, "seed": seed * 1000 + i, "kill_after_s": res["delay"],
                                             "rerun": f"PYTHONPATH={common.REPO}:{common.VERIF} /venv/bin/python -m "
                                                      f"harness.c06_kill {backend} {seed * 1000 + i} {res['delay']}"})


def main(argv=None):
    ck = Check("C06", argv)
    common.setup_impl_env()
    import aw_datastore.storages.sqlite as sq
    from aw_core.models import Event

    ck.run_witnesses(["w07", "w19", "w21"])
    ck.prove(extra_targets=["Bridge/BridgeCommit.v", "Model/CommitDriver.v"],
             gen_kernels=["commit", "conditional_commit", "sqlite_scripts", "peewee_autocommit"])
    have_driver = ck.driver()

    quick = ck.tier == "quick"
    histories = list(gen.corpus())
    n_random = 60 if quick else 2000
    for i in range(n_random):
        profile = ["mixed", "burst", "trickle", "bulk"][i % 4]
        histories.append((f"random-{profile}-{i}", ck.rng.random() > 0.08, gen.random_history(ck.rng, profile)))
    pending, wire = run_sqlite_histories(ck, sq, Event, histories, 0, "sqlite:")
    # API-level stream (store opened through Datastore in every option combination) and buckets of >= 10001 events
    from . import c06_api
    c06_api.run(ck, sq, Event, quick, have_driver)
    # histories in which the ENGINE raises (a COMMIT, a statement, a bulk statement part-way) and the caller carries on
    from . import c06_fault
    c06_fault.run(ck, sq, Event, quick)
    if have_driver:
        # state-level stream (Model/CrashStore.v, Props/C06State.v): full table dumps at every crash point
        from . import c06_state
        c06_state.run(ck, sq, Event, [(r.name, r.lazy, r.steps) for r, _, _ in pending], replay_obj, quick)
        compare_with_model(ck, "C06", pending, wire, "sqlite:")
        run_peewee(ck, 6 if quick else 150, ck.seed)
    if not quick:
        run_sigkill(ck, 40, ck.seed % 1000)
        if have_driver:
            c06_state.run_sigkill(ck, 30, ck.seed % 1000)     # real crashes against the state model

    ck.assumptions += [
        "SQLite oracle (Model/Commit.v header): a write statement joins the connection's single open transaction, "
        "conn.commit() makes everything since the previous commit durable at once, process death loses exactly the "
        "open transaction (WAL).  Sampled: the second connection's view is compared at every statement boundary; "
        "COMMIT statements are traced exactly when the model flushes a non-empty transaction; thorough: SIGKILL + reopen",
        "elementary writes are opaque tokens; 'the effects of the first j writes' is the dump of a shadow database on "
        "which the traced (expanded) SQL statements are replayed in issue order (SQLite determinism)",
        "executemany is observed as one statement per row inside one transaction (the model's ExecMany ws = ws one by one)",
        "a bulk insert that raises part-way (integer overflow at bind time) is the op InsertManyFailed: its rows that "
        "went through are counted (over-counted) by the conditional_commit of the finally clause (ec39c3d)",
        "peewee ORM calls are tied by correspondence only (tie A); tie B covers the chunk size and the absence of "
        "explicit transaction control",
    ]
    ck.trusted += ["translate/k_commit.py (tie B: commit, conditional_commit, per-method scripts, peewee chunking)",
                   "SQLite 3.40 transaction atomicity and WAL durability (oracle, sampled)"]
    return ck.finish(RULE + c06_api.RULE + c06_fault.RULE)


if __name__ == "__main__":
    sys.exit(main())
