"""C10 — flood: correspondence with Model/Flood.v (extracted) and the property statement
evaluated on the implementation's own output.

Streams
  grid     chains of 0..N events on a small grid: per event a gap to its predecessor
           (zero / below / at / above the pulsetime), a duration (zero, short, long) and one of
           two labels; exhaustive up to 3 (quick) or 4 (thorough) events, sampled up to 6;
           every other chain is handed over in a shuffled order
  random   seeded random well-formed chains (millisecond grid, several units and pulsetimes,
           data values that are == across types)
  ood      out of the property's domain: overlapping events, negative gaps around the
           0.1 s trim threshold, negative and sub-millisecond durations, equal timestamps.
           Model-vs-implementation correspondence only; the oracle does not apply.
"""
import copy
import itertools
import json
import os
import sys

from . import common
from .common import Check, sx
from .evutil import BASE, ev_unwire, ev_view, ev_wire, mk_event, pulse_us

RULE = ("exhaustive chains of 0..3 (quick) / 0..4 (thorough) events on a grid {gap 0,<p,=p,>p} x {dur 0,1,3} x "
        "{2 labels}, sampled chains of 4..6 / 5..6 events, every other chain shuffled; seeded random well-formed "
        "chains; an out-of-domain stream (overlaps, negative gaps at the 0.1 s threshold, negative/sub-ms durations) "
        "and an off-millisecond-grid stream for correspondence only; non-trivial = distinct canonical case in which the model's walk took a branch "
        "other than `continue`/`none`"
        "; round 3 (harness/c10_hist.py): grid chains through the registered query function and a query2 statement (5 s); call "
        "sequences in one process on live objects (the same / ==-equal with other ids and look-alike data / edited in between / "
        "earlier results overwritten / other pulsetimes), every call judged alone; chains of >= 10 001 events with every gap short")

DATA = [{"app": "a"}, {"app": "b"}, {"n": 1}, {"n": 1.0}, {"n": True}, {}, {"app": "a", "title": "x"}]
BRANCH = {0: "continue(gap=0)", 1: "negative-gap-merge", 2: "negative-gap-warn-only", 3: "fill:e1-longer,same-data",
          4: "fill:e1-longer,diff-data", 5: "fill:e2-longer,same-data", 6: "fill:e2-longer,diff-data",
          7: "no-branch(gap>p or second unsafe gap)"}
THRES = 100_000

# ---------------------------------------------------------------------------
# generators: a case is (stream, pulsetime_seconds, [(ts_us, dur_us, data)])

GRID_GAPS = (0, 1, 2, 3)      # in units; the grid's pulsetime is 2 units
GRID_DURS = (0, 1, 3)
GRID_LABELS = (0, 1)


def chain_events(unit, spec):
    t = BASE
    evs = []
    for gap, d, lab in spec:
        t += gap * unit
        evs.append((t, d * unit, DATA[lab]))
        t += d * unit
    return evs


def gen_grid(rng, n_exhaustive, n_sampled, max_n=6):
    per_event = list(itertools.product(GRID_GAPS, GRID_DURS, GRID_LABELS))
    first = [(0, d, lab) for d in GRID_DURS for lab in GRID_LABELS]
    k = 0
    for n in range(0, n_exhaustive + 1):
        if n == 0:
            specs = [[]]
        else:
            specs = ([h] + list(t) for h in first for t in itertools.product(per_event, repeat=n - 1))
        for spec in specs:
            evs = chain_events(1_000_000, spec)
            if k % 2 and len(evs) > 1:
                evs = rng.sample(evs, len(evs))
            k += 1
            yield ("grid", 2, evs)
    for _ in range(n_sampled):
        n = rng.randrange(n_exhaustive + 1, max_n + 1)
        spec = [rng.choice(first)] + [rng.choice(per_event) for _ in range(n - 1)]
        unit, p = rng.choice([(1_000_000, 2), (1000, 0.002), (500_000, 1)])
        evs = chain_events(unit, spec)
        if rng.random() < 0.5:
            evs = rng.sample(evs, len(evs))
        yield ("grid", p, evs)


PULSES = [0, 0.001, 0.0015, 0.5, 1, 2, 5, 5.0, 0.0000005, 60]


def gen_random(rng, n_cases):
    for _ in range(n_cases):
        p = rng.choice(PULSES)
        P = pulse_us(p)
        n = rng.randrange(0, 9)
        pool = rng.sample(DATA, rng.choice([1, 2, 2, 3]))
        t = BASE + rng.randrange(0, 5) * 1000
        evs = []
        ms = 1000
        for _ in range(n):
            near = [0, ms, max(0, (P // ms) * ms - ms), (P // ms) * ms, (P // ms) * ms + ms, 2 * P + ms, 7 * ms]
            gap = rng.choice(near) if rng.random() < 0.85 else rng.randrange(0, 12_000) * ms
            if rng.random() < 0.25 and gap == 0:
                gap = ms            # mostly distinct timestamps after a zero-length event
            t += gap
            d = rng.choice([0, 0, ms, 2 * ms, 5 * ms, 1_000_000, 3_000_000, rng.randrange(0, 4000) * ms])
            evs.append((t, d, copy.deepcopy(rng.choice(pool))))
            t += d
        if rng.random() < 0.6:
            evs = rng.sample(evs, len(evs))
        yield ("random", p, evs)


def gen_ood_grid():
    """Boundary cases outside the domain: every negative-gap branch and the fall-through of the
    second unsafe gap, thresholds hit exactly (-0.1 s +- 1 µs through sub-ms durations)."""
    labs = [(0, 0, 0), (0, 1, 0), (0, 1, 1), (0, 0, 1), (0, 1, 2)]
    gaps = [-200_000, -100_000, -50_000, -1000, 0, 1_000_000, 3_000_000]
    for g1, g2 in itertools.product(gaps, gaps):
        for l in labs:
            for d in ((300_000, 300_000, 300_000), (1_000_000, 300_000, 2_000_000), (300_000, 1_000_000, 0)):
                t0 = BASE
                t1 = t0 + d[0] + g1
                t2 = t1 + d[1] + g2
                yield ("ood", 2, [(t0, d[0], DATA[l[0]]), (t1, d[1], DATA[l[1]]), (t2, d[2], DATA[l[2]])])
    # thresholds to the microsecond: e1 ends off the millisecond grid
    for off in (-1, 0, 1):
        for same in (True, False):
            for d2 in (50_000, 500_000, 500_250):
                d1 = 400_000 + off
                yield ("ood", 1, [(BASE, d1, DATA[0]), (BASE + 300_000, d2, DATA[0] if same else DATA[1])])
    # four events: two unsafe gaps in a row, then a fillable one
    for l in itertools.product((0, 1), repeat=4):
        yield ("ood", 2, [(BASE, 1_000_000, DATA[l[0]]), (BASE + 500_000, 1_000_000, DATA[l[1]]),
                          (BASE + 1_000_000, 1_000_000, DATA[l[2]]), (BASE + 2_500_000, 250, DATA[l[3]])])


def gen_ood_random(rng, n_cases):
    steps = [-200_000, -100_001, -100_000, -99_999, -50_000, -1000, -1, 0, 0, 1, 1000, 999_000, 1_000_000,
             1_001_000, 2_000_000, 5_000_000]
    durs = [0, 1000, 150, 99_999, 100_000, 100_001, 500_000, 1_000_000, 1_000_500, 3_000_000, -1000, -1, 250_250]
    for _ in range(n_cases):
        p = rng.choice([0, 1, 1, 2, 0.0015, 0.1, 0.0999])
        n = rng.randrange(0, 7)
        pool = rng.sample(DATA, rng.choice([1, 2, 3]))
        t = BASE
        evs = []
        for _ in range(n):
            t += rng.choice(steps)
            d = rng.choice(durs)
            evs.append((t, d, copy.deepcopy(rng.choice(pool))))
            if rng.random() < 0.8:
                t += d
        if rng.random() < 0.5:
            evs = rng.sample(evs, len(evs))
        yield ("ood", p, evs)


def gen_offgrid(rng, n_cases):
    """Everything as the property asks, except that durations are not whole milliseconds (Event floors
    timestamps but keeps durations to the microsecond).  Outside the theorems' domain; the oracle is
    evaluated for the record only (C10_off_ms_grid_refuted)."""
    yield ("offgrid", 1, [(BASE, 1500, DATA[0]), (BASE + 2000, 3000, DATA[1])])
    yield ("offgrid", 1, [(BASE, 2000, DATA[0]), (BASE + 3000, 1500, DATA[0]), (BASE + 5000, 5000, DATA[1])])
    yield ("offgrid", 0.9999, [(BASE, 2000, DATA[0]), (BASE + 3000, 1500, DATA[0]), (BASE + 1_004_000, 1000, DATA[1])])
    for _ in range(n_cases):
        n = rng.randrange(2, 6)
        t = BASE
        evs = []
        for _ in range(n):
            t += rng.choice((1, 2, 3)) * 1000
            d = rng.choice((0, 1, 3)) * 1000 + rng.choice((0, 0, 250, 500, 999))
            evs.append((t, d, DATA[rng.choice((0, 1))]))
            t += (d // 1000) * 1000
        if rng.random() < 0.5:
            evs = rng.sample(evs, len(evs))
        yield ("offgrid", 0.002, evs)


def corpus_cases():
    path = os.path.join(common.VERIF, "corpus", "c10_chains.json")
    if not os.path.exists(path):
        return
    for c in json.load(open(path))["cases"]:
        yield ("corpus", c["pulsetime_s"], [(BASE + t, d, x) for t, d, x in c["events_us_rel"]])


# ---------------------------------------------------------------------------
# implementation side


def run_impl(case, Event, flood, labels, objs=None):
    """Returns (views of the constructed input, views of the output, 'input not modified' verdict).
    `objs` (round 3, harness/c10_hist.py): live Event objects of a call sequence instead of fresh ones."""
    _, p, evs = case
    if objs is None:
        objs = [mk_event(Event, t, d, copy.deepcopy(x), eid=i) for i, (t, d, x) in enumerate(evs)]
    before_ids = [id(o) for o in objs]
    before_data_ids = [id(o.data) for o in objs]
    snapshot = copy.deepcopy(objs)
    snapshot_raw = [dict(o) for o in snapshot]
    inp = [ev_view(o, labels) for o in objs]
    try:
        out = flood(objs, p)
    except Exception as ex:      # the model never raises: reported by the caller
        return inp, [], "flood raised %s: %s" % (type(ex).__name__, str(ex)[:120])
    modified = None
    if len(objs) != len(snapshot) or sorted(id(o) for o in objs) != sorted(before_ids):
        modified = "the input list has other members after the call"
    elif [id(o) for o in objs] != before_ids:
        modified = "the input list was reordered in place: positions %s -> %s" % (
            list(range(len(objs))), [before_ids.index(id(o)) for o in objs])
    elif any(dict(a) != b for a, b in zip(objs, snapshot_raw)):
        i = [dict(a) != b for a, b in zip(objs, snapshot_raw)].index(True)
        modified = f"input event {i} changed: {snapshot_raw[i]} -> {dict(objs[i])}"
    elif [id(o.data) for o in objs] != before_data_ids:
        modified = "an input event's data object was replaced"
    elif set(before_ids) & {id(o) for o in out}:
        modified = "an output event is an input object (later edits would alias)"
    elif set(before_data_ids) & {id(o.data) for o in out}:
        modified = "an output event shares its data object with an input event (later edits would alias)"
    return inp, [ev_view(e, labels) for e in out], modified


# ---------------------------------------------------------------------------
# the property statement, computed independently on the implementation's output


def in_domain(S, grid=True):
    """S: input views sorted by start.  Non-overlapping (end_i <= start_{i+1}), non-negative,
    millisecond-aligned.  (Distinct timestamps are counted separately: the theorems do not need them
    once the precondition is read on the sorted sequence.)"""
    for (_, t, d, _) in S:
        if d < 0 or t % 1000 or (grid and d % 1000):
            return False
    return all(a[1] + a[2] <= b[1] for a, b in zip(S, S[1:]))


def oracle(P, inp, out, grid=True):
    S = sorted(inp, key=lambda v: v[1])      # Python's own stable sort, as flood does
    if not in_domain(S, grid):
        return "skip"
    for (_, t, d, _) in out:
        if d <= 0:
            return f"non-positive output: output event with duration {d}"
    for a, b in zip(out, out[1:]):
        if a[1] + a[2] > b[1]:
            return f"overlap: outputs {rel([a])[0]} and {rel([b])[0]} overlap"
    gaps = [(a[1] + a[2], b[1]) for a, b in zip(S, S[1:]) if a[1] + a[2] < b[1]]
    pts = sorted({x for (_, t, d, _) in S + out for x in (t, t + d)})
    for x, y in zip(pts, pts[1:]):
        # [x, y) contains no start or end, so it is covered uniformly
        lin = {l for (_, t, d, l) in S if t <= x < t + d}
        lout = {l for (_, t, d, l) in out if t <= x < t + d}
        gap = [g for g in gaps if g[0] <= x and y <= g[1]]
        if not lin <= lout:
            return f"label cover lost: label(s) {sorted(lin - lout)} no longer cover [{x - BASE},{y - BASE})"
        if gap:
            short = gap[0][1] - gap[0][0] <= P
            if short and not lout:
                return f"short gap open: [{x - BASE},{y - BASE}) lies in a gap of {gap[0][1] - gap[0][0]} <= {P} and is not covered"
            if not short and lout:
                return f"long gap touched: [{x - BASE},{y - BASE}) lies in a gap of {gap[0][1] - gap[0][0]} > {P} and is covered"
        if (lout - lin) and not (gap and gap[0][1] - gap[0][0] <= P):
            return f"new cover outside short gaps: [{x - BASE},{y - BASE}) newly covered by label(s) {sorted(lout - lin)}"
    return None


# ---------------------------------------------------------------------------


def wire_case(P, inp):
    return sx([0, P, [ev_wire(v) for v in inp]])


def rel(views):
    return [(i, t - BASE, d, x) for (i, t, d, x) in views]


def main(argv=None):
    ck = Check("C10", argv)
    common.setup_impl_env()
    from aw_core.models import Event
    from aw_transform.flood import flood

    ck.prove(extra_targets=["Bridge/BridgeFlood.v", "Props/C10own.v"], gen_kernels=["flood_step", "flood"])
    have_driver = ck.driver()
    from . import theap            # "the input is not modified": heap-level model (Props/C10own.v), tie A with aliasing
    theap.heap_check(ck, "flood", have_driver=theap.prepare(ck))

    if ck.tier == "quick":
        n_exh, n_samp, n_rand, n_ood = 3, 2500, 3000, 3000
    else:
        n_exh, n_samp, n_rand, n_ood = 4, 150_000, 150_000, 150_000
    cases = list(corpus_cases())
    cases += list(gen_grid(ck.rng, n_exh, n_samp))
    cases += list(gen_random(ck.rng, n_rand))
    cases += list(gen_ood_grid())
    cases += list(gen_ood_random(ck.rng, n_ood))
    cases += list(gen_offgrid(ck.rng, n_ood // 10))

    labels = common.Labels()
    wire, impl, inputs = [], [], []
    for case in cases:
        stream, p, evs = case
        P = pulse_us(p)
        inp, out, modified = run_impl(case, Event, flood, labels)
        inputs.append(inp)
        impl.append(out)
        wire.append(wire_case(P, inp))
        ck.count("stream:" + stream)
        ck.count("len=%d" % len(evs))
        if modified and modified.startswith("flood raised"):
            if in_domain(sorted(inp, key=lambda v: v[1])):
                ck.failing_input("C10:raised", modified, {"pulsetime_s": p, "events_us_rel": rel(inp)})
            else:
                ck.disagreement("flood[%s]" % stream, modified + f" on {rel(inp)} p={p} (the model returns a list)",
                                {"pulsetime_s": p, "events_us_rel": rel(inp)})
            impl[-1] = None
        elif modified:
            ck.failing_input("C10:input-modified", "input modified: " + modified,
                             {"pulsetime_s": p, "pulsetime_us": P, "events_us_rel": rel(inp), "impl_output_us_rel": rel(out),
                              "rerun": "PYTHONPATH=%s /venv/bin/python -c \"%s\"" % (common.REPO, replay_snippet(p, evs, show_input=True))})
        bad = oracle(P, inp, out)
        if stream == "offgrid" and bad == "skip":
            # for the record: the statement without its millisecond-grid hypothesis, on the implementation
            off = oracle(P, inp, out, grid=False)
            if off not in (None, "skip"):
                ck.count("offgrid:statement-violated(" + off.split(":")[0] + ")")
                w = ck.coverage.setdefault("off_ms_grid_witnesses", [])
                if len(w) < 3:
                    w.append({"pulsetime_s": p, "events_us_rel": rel(inp), "impl_output_us_rel": rel(out), "what": off})
                if any(k.get("signature") == "C10:off-ms-grid" for k in ck.known):
                    ck.failing_input("C10:off-ms-grid", off, {"pulsetime_s": p, "events_us_rel": rel(inp),
                                                              "impl_output_us_rel": rel(out)})
            elif off is None:
                ck.count("offgrid:statement-holds")
        if bad == "skip":
            ck.count("oracle:not-applicable(out of domain)")
            if stream in ("grid", "random"):
                ck.count("out-of-domain-in-" + stream + "(ties reordered by the shuffle)")
        else:
            ck.count("oracle:applied")
            S = sorted(inp, key=lambda v: v[1])
            if len({v[1] for v in S}) == len(S):
                ck.count("oracle:applied,distinct-timestamps")
            if bad:
                sig = "C10:" + bad.split(":")[0]
                if not ck.violations:
                    # shrink the first failing input (drop events while the same clause still fails)
                    def still_fails(cand, sig=sig, p=p, P=P):
                        i2, o2, _ = run_impl(("shrink", p, cand), Event, flood, labels)
                        b2 = oracle(P, i2, o2)
                        return b2 not in (None, "skip") and "C10:" + b2.split(":")[0] == sig
                    full = (evs, inp, out, bad)
                    evs = common.shrink_list(evs, still_fails)
                    inp, out, _ = run_impl(("shrink", p, evs), Event, flood, labels)
                    bad = oracle(P, inp, out)
                    if bad in (None, "skip"):      # round 3: not reproduced by the same call made again alone
                        evs, inp, out, bad = full
                        bad += " [history: the same input called again on fresh objects does not fail - the outcome depends on earlier calls in this process]"
                ck.failing_input(sig, bad,
                                 {"pulsetime_s": p, "pulsetime_us": P, "events_us_rel": rel(inp),
                                  "impl_output_us_rel": rel(out),
                                  "rerun": "PYTHONPATH=%s /venv/bin/python -c \"%s\"" % (common.REPO, replay_snippet(p, evs))})
        if len(ck.samples) < 5 and len(out) < len(evs) and len(evs) >= 3 and bad is None:
            ck.sample({"stream": stream, "pulsetime_s": p, "events_us_rel(id,ts,dur,label)": rel(inp),
                       "impl_us_rel": rel(out)})

    from . import c10_hist          # round 3: the query layer, call sequences on live objects, >= 10 001 events
    c10_hist.run(ck, sys.modules[__name__], Event, flood, labels, have_driver)

    if have_driver:
        model = common.run_driver("C10", wire)
        for case, w, mo, io, inp in zip(cases, wire, model, impl, inputs):
            if mo == [-999] or len(mo) != 2:
                ck.disagreement("flood", f"driver could not decode {w}", {"case": w})
                continue
            if io is None:       # the implementation raised; already reported
                continue
            mo_c = [ev_unwire(e) for e in mo[0]]
            io_c = [tuple(e) for e in io]
            branches = mo[1]
            for b in set(branches):
                ck.count("branch:" + BRANCH[b], branches.count(b))
            ck.note_case([pulse_us(case[1]), rel(inp)], nontrivial=any(b not in (0, 7) for b in branches))
            if mo_c != io_c:
                evs = case[2]
                if not ck.coverage.get("disagreement_replays"):
                    # shrink the first disagreement (drop events while model and implementation still differ)
                    def still_differs(cand, p=case[1]):
                        i2, o2, _ = run_impl(("shrink", p, cand), Event, flood, labels)
                        m2 = common.run_driver("C10", [wire_case(pulse_us(p), i2)])[0]
                        return [ev_unwire(e) for e in m2[0]] != [tuple(e) for e in o2]
                    evs = common.shrink_list(evs, still_differs)
                    inp, io, _ = run_impl(("shrink", case[1], evs), Event, flood, labels)
                    w = wire_case(pulse_us(case[1]), inp)
                    mo_c = [ev_unwire(e) for e in common.run_driver("C10", [w])[0][0]]
                    io_c = [tuple(e) for e in io]
                ck.disagreement("flood[%s]" % case[0], f"model {rel(mo_c)} impl {rel(io_c)} on {rel(inp)} p={case[1]}",
                                {"case": w, "pulsetime_s": case[1], "events": evs, "model": rel(mo_c), "impl": rel(io_c),
                                 "events_us_rel": rel(inp)})
        missing = [BRANCH[b] for b in BRANCH if ("branch:" + BRANCH[b]) not in ck.dist]
        ck.coverage["model_branches_not_reached"] = missing
    else:
        for case, inp in zip(cases, inputs):
            ck.note_case([pulse_us(case[1]), rel(inp)], nontrivial=False)
    ck.assumptions += [
        "pulsetime enters the model as the integer microseconds Python's timedelta(seconds=p) yields",
        "event data compared through harness-assigned labels (one per Python == class)",
        "theorem domain: after flood's own stable sort the events satisfy end_i <= start_{i+1}, durations >= 0, "
        "timestamps and durations multiples of 1000 µs (aw-core's millisecond granularity)",
        "'the input is not modified': theorem over the heap-level model (Props/C10own.v: frame + freshness for every heap and "
        "aliasing; refinement to the functional model for lists of distinct Event objects), tied by harness/theap.py",
        "logging side effects (the two warned_* flags only guard log lines; the model carries them and a lemma shows "
        "they do not influence the returned events) are not observed",
    ]
    return ck.finish(RULE)


def replay_snippet(p, evs, show_input=False):
    return ("from datetime import datetime,timedelta,timezone as tz;from aw_core.models import Event;"
            "from aw_transform.flood import flood;E=datetime(1970,1,1,tzinfo=tz.utc);"
            f"evs=[Event(id=i,timestamp=E+timedelta(microseconds=t),duration=timedelta(microseconds=d),data=x) "
            f"for i,(t,d,x) in enumerate({[(t, d, x) for t, d, x in evs]!r})];"
            f"[print(e.id,(e.timestamp-E)//timedelta(microseconds=1)-{BASE},e.duration//timedelta(microseconds=1),e.data) "
            f"for e in flood(evs,{p!r})]"
            + (";print('input afterwards:',[e.id for e in evs])" if show_input else "")).replace('"', "'")


if __name__ == "__main__":
    sys.exit(main())
