"""C06 - streams that reach the store the way a program does, and buckets larger than any
batch constant (round 3: seeds C06-7, C06-8).

(1) API stream.  The store is opened through the public layer, `Datastore(storage_strategy,
    testing=..., **options)`, and driven through `Datastore` / `Bucket` methods (create_bucket,
    update_bucket, delete_bucket, ds[b].insert(event | list), replace, replace_last, delete,
    get, get_by_id, get_eventcount, metadata, buckets), in every option combination: no
    option at all (the documented default: lazy), enable_lazy_commit=False (the
    auto-committing store of the property), enable_lazy_commit=True; with and without
    filepath=; with the logging subclass of c06_lib as storage_strategy and with the class
    `get_storage_methods()["sqlite"]` itself (black box: statement trace + second connection
    only); one store per process after another in changing option order, and two stores
    alive at once on different files (different options, interleaved calls, one clock).
    What is demanded is the durability class the OPTIONS promise, never what the storage
    object believes about itself:
      promised lazy  -> the statements of c06_lib.oracles (prefix, <= 50 writes of completed
                        calls at risk, bucket operations durable on return, no single-event or
                        bucket-level operation split);
      promised eager -> the same and: at every crash point every write of every call that
                        returned is in the file.
    The extracted model (Model/Commit.v) is run on the recorded micro-step trace with
    `lazy := what the options promise`, and every call's write/commit skeleton is compared
    with `expand op` (the wrapper's extra reads - `ds[b]` lists the buckets - are Read
    steps, which the model ignores).
(2) Large-bucket stream.  Buckets of N >= 10 001 events (one insert_many) - more than any
    plausible batch / chunk constant - take part in the crash-point exploration of every
    bucket-level operation (create, update, delete; with other buckets present, with 49
    writes pending, on the eager store, through both layers) and of single-event operations
    on them.  Table digests are kept O(1) per statement by triggers on the shadow database
    (same function of the tables as the scan of the second connection, see api_dump).
(3) Real crashes through the API: a child process opens the store through Datastore with
    the given options, runs a history and SIGKILLs itself after call k returned or inside
    call k right before its j-th write statement; the parent reopens the file.

usage (replay): python -m harness.c06_api replay '<session json>'
                python -m harness.c06_api kill '<kill case json>'
                python -m harness.c06_api quick        (the streams alone, oracles only)"""
import json
import os
import random
import shutil
import signal
import sqlite3
import subprocess
import sys
import time
from datetime import timedelta

from . import common
from . import c06_lib as lib
from . import c06_gen as gen

MS = 1000
S = lib.S
SMALL = 150
P = 1000003
SIG_EAGER = "C06:completed-op-not-durable:auto-committing-store"
BIG_N = 10_001

RULE = ("; API stream: the store opened through Datastore(storage_strategy, testing, **options) and driven through "
        "Datastore/Bucket methods in every option combination (none, enable_lazy_commit=False, True; with/without "
        "filepath; instrumented subclass and the registered class itself; stores one after another and two alive at "
        "once), oracle = the durability class the options promise; buckets of >= 10001 events (one insert_many) in the "
        "crash-point exploration of create/update/delete_bucket and of single-event operations; real SIGKILLs of a child "
        "that opened the store through Datastore (after call k / inside call k before its j-th statement)")

OPTION_SETS = [("default", {}), ("eager", {"enable_lazy_commit": False}), ("lazy", {"enable_lazy_commit": True})]


def promised_lazy(opts):
    """What the caller was promised: the lazily committing store unless enable_lazy_commit=False was asked for."""
    return bool(opts.get("enable_lazy_commit", True))


# ---------------------------------------------------------------------------
# table digests: the same function of (buckets, events) computed by a scan (second connection,
# the store's own connection) and incrementally (shadow database, triggers)

_BK = "SELECT rowid, id, name, type, client, hostname, created, datastr FROM buckets ORDER BY rowid"
_EV = "SELECT id, bucketrow, starttime, endtime, datastr FROM events ORDER BY id"
_F = ("{r}id", "{r}id * {r}bucketrow", "{r}id * ({r}starttime % 1000003)",
      "{r}id * (({r}endtime - {r}starttime) % 1000003)", "{r}id * (cast(substr({r}datastr, 7) AS INTEGER) % 1000003)")


def api_dump(conn):
    """A file in which the tables do not (yet) exist reads as empty tables: "the store was
    opened on this file" promises that the acknowledged writes are in THIS file."""
    try:
        bk = conn.execute(_BK).fetchall()
        n = conn.execute("SELECT count(*) FROM events").fetchone()[0]
    except sqlite3.OperationalError as ex:
        if "no such table" not in str(ex):
            raise
        return (0, 0, hash(((), ())))
    if n <= SMALL:
        ev = conn.execute(_EV).fetchall()
    else:
        ev = conn.execute("SELECT " + ", ".join("sum(%s)" % f.format(r="") for f in _F) + " FROM events").fetchall()
    return (n, len(bk), hash((tuple(ev), tuple(bk))))


_TRIGGERS = """
CREATE TABLE _dg (n INTEGER, s0 INTEGER, s1 INTEGER, s2 INTEGER, s3 INTEGER, s4 INTEGER);
INSERT INTO _dg VALUES (0, 0, 0, 0, 0, 0);
CREATE TRIGGER _dg_i AFTER INSERT ON events BEGIN UPDATE _dg SET n = n + 1, %s; END;
CREATE TRIGGER _dg_d AFTER DELETE ON events BEGIN UPDATE _dg SET n = n - 1, %s; END;
CREATE TRIGGER _dg_u AFTER UPDATE ON events BEGIN UPDATE _dg SET %s; END;
""" % (", ".join("s%d = s%d + %s" % (i, i, f.format(r="NEW.")) for i, f in enumerate(_F)),
       ", ".join("s%d = s%d - %s" % (i, i, f.format(r="OLD.")) for i, f in enumerate(_F)),
       ", ".join("s%d = s%d - %s + %s" % (i, i, f.format(r="OLD."), f.format(r="NEW.")) for i, f in enumerate(_F)))


class TrigShadow(lib.Shadow):
    """c06_lib.Shadow whose digest costs O(1) per statement on large tables: the five sums of
    api_dump are maintained by triggers (changes made by triggers do not count in rowcount)."""

    def __init__(self, schema):
        self.db = sqlite3.connect(":memory:", isolation_level=None)
        for s in schema:
            self.db.execute(s)
        self.db.executescript(_TRIGGERS)
        self.dumper = self._dump
        self.digests = [self._dump(self.db)]
        self.index = {self.digests[0]: [0]}

    @staticmethod
    def _dump(db):
        bk = db.execute(_BK).fetchall()
        row = db.execute("SELECT n, s0, s1, s2, s3, s4 FROM _dg").fetchone()
        n = row[0]
        ev = db.execute(_EV).fetchall() if n <= SMALL else [tuple(row[1:])]
        return (n, len(bk), hash((tuple(ev), tuple(bk))))

    def self_check(self):
        """the incremental digest of the final state = the scan digest of the final state"""
        return api_dump(self.db) == self._dump(self.db)


class FastRecorder(lib.Recorder):
    """c06_lib.Recorder with the digests above; the second connection is re-read only when
    `PRAGMA data_version` says that a commit became visible."""

    def __init__(self, storage, path, clock):
        # (c06_lib.Recorder.__init__ with the other shadow; the schema is the one the storage's
        # own connection has, the observer reads the file that was asked for)
        self.st = storage
        self.clock = clock
        self.c2 = sqlite3.connect(path, isolation_level=None)
        self.shadow = TrigShadow(lib.schema_of(storage.conn))
        self.micro, self.issue_time, self.obs, self.commit_stmts, self.calls = [], [], [], [], []
        self.failed_stmts = 0
        self.failed_at, self.begin_at, self.anomalies = [], [], []
        self.in_cc = self.in_commit = self.test_done = False
        self.slots = {}
        self.stray_readings = 0
        clock.hook = self.on_reading
        storage._rec = self
        storage.conn.set_trace_callback(self.on_stmt)
        self._dv = None
        self._dig = None
        self.n_scans = 0

    def digest_c2(self):
        dv = self.c2.execute("PRAGMA data_version").fetchone()[0]
        if dv != self._dv:
            self._dig = api_dump(self.c2)
            self._dv = dv
            self.n_scans += 1
        return self._dig

    def observe(self, kind):
        self.obs.append({"i": len(self.micro), "kind": kind, "digest": self.digest_c2(),
                         "n": getattr(self.st, "num_uncommitted_statements", None),
                         "last": lib.fake_us(self.st.last_commit) if hasattr(self.st, "last_commit") else None,
                         "issued": len(self.issue_time), "call": len(self.calls), "t": self.clock.now})

    def close(self):
        self.st.conn.set_trace_callback(None)
        self.st._rec = None
        own = api_dump(self.st.conn)
        ok = own == self.shadow.digests[len(self.issue_time)]
        if not self.shadow.self_check():
            self.anomalies.append("harness: incremental digest of the shadow database differs from its scan digest")
        self.c2.close()
        self.shadow.db.close()
        self.clock.hook = None
        return ok


# ---------------------------------------------------------------------------
# a store opened the way the description says, driven through that layer


def store_desc(via="datastore", opts=None, instrumented=True, filepath=True):
    return {"via": via, "opts": dict(opts or {}), "instrumented": instrumented, "filepath": filepath}


def _default_db_files():
    from aw_core.dirs import get_data_dir
    d = get_data_dir("aw-server")
    return [os.path.join(d, f) for f in os.listdir(d) if f.startswith("sqlite")]


class ApiRunner(lib.Runner):
    def __init__(self, sq, Event, store, clock):
        self.sq, self.Event, self.store = sq, Event, store
        self.opts = dict(store["opts"])
        self.lazy = promised_lazy(self.opts)           # the promise, not the storage's attribute
        self.via = store["via"]
        self.dir = lib.scratch_dir()
        self.clock = clock
        cls = lib.instrumented_class(sq) if store["instrumented"] else self.registered_class()
        kw = dict(self.opts)
        if store["filepath"]:
            self.path = os.path.join(self.dir, "h.db")
            kw["filepath"] = self.path
        else:
            for f in _default_db_files():
                os.remove(f)
        if self.via == "datastore":
            from aw_datastore import Datastore
            self.ds = Datastore(cls, testing=True, **kw)
            self.st = self.ds.storage_strategy
        else:
            self.ds = None
            self.st = cls(testing=True, **kw)
        if not store["filepath"]:
            self.path = self.st.conn.execute("PRAGMA database_list").fetchall()[0][2]
        self.t0 = lib.fake_us(self.st.last_commit)
        self.rec = FastRecorder(self.st, self.path, self.clock)
        self.counter = 0
        self.steps = []

    @staticmethod
    def registered_class():
        from aw_datastore import get_storage_methods
        return get_storage_methods()["sqlite"]

    def events(self, spec):
        E = self.Event
        evs = [lib._ev(E, self.fresh(), eid=i) for i in spec[2]] + [lib._ev(E, self.fresh()) for _ in range(spec[3])]
        if spec[0] == "insert_many_bad":
            evs.append(E(timestamp=lib.T0, duration=timedelta(days=200_000_000), data={"n": self.fresh()}))
        return evs

    def call(self, dt, tick, spec):
        if self.via != "datastore":
            return super().call(dt, tick, spec)
        ds, E = self.ds, self.Event
        self.clock.now += dt
        self.clock.tick = tick
        self.rec.begin_call(spec)
        name = spec[0]
        out = None
        try:
            if name == "create_bucket":
                ds.create_bucket(spec[1], "t", "c", "h", lib.T0, None, None)
            elif name == "update_bucket":
                ds.update_bucket(spec[1], **({} if spec[2] is None else {"data": {"v": spec[2]}}))
            elif name == "delete_bucket":
                ds.delete_bucket(spec[1])
            elif name == "insert_one":
                ds[spec[1]].insert(lib._ev(E, self.fresh()))
            elif name in ("insert_many", "insert_many_bad"):
                ds[spec[1]].insert(self.events(spec))
            elif name == "replace":
                ds[spec[1]].replace(spec[2], lib._ev(E, self.fresh()))
            elif name == "replace_last":
                ds[spec[1]].replace_last(lib._ev(E, self.fresh()))
            elif name == "delete":
                ds[spec[1]].delete(spec[2])
            elif name == "get_event":
                ds[spec[1]].get_by_id(spec[2])
            elif name == "get_events":
                ds[spec[1]].get(spec[2])
            elif name == "get_eventcount":
                ds[spec[1]].get_eventcount()
            elif name == "buckets":
                ds.buckets()
            elif name == "get_metadata":
                ds[spec[1]].metadata()
            else:
                raise RuntimeError("unknown call " + name)
        except Exception as ex:
            out = type(ex).__name__
        self.clock.tick = 0
        self.rec.end_call(out)
        return out

    def finish(self):
        try:
            own_ok = self.rec.close()
        except sqlite3.Error as ex:
            self.rec.anomalies.append(f"the store's connection could not be read at the end: {type(ex).__name__}: {ex}")
            own_ok = False
        try:
            self.st.conn.close()
        except Exception:
            pass
        shutil.rmtree(self.dir, ignore_errors=True)
        if not self.store["filepath"]:
            for f in _default_db_files():
                os.remove(f)
        return own_ok


def api_expectation(r, spec):
    """c06_lib.expectation for a call issued through the wrapper: `ds[b]` of a bucket that does
    not exist raises KeyError before the storage is reached, and Bucket.insert adds
    timestamp + duration before the storage is reached (the overflowing row raises there)."""
    if r.via != "datastore":
        return lib.expectation(r, spec)
    name = spec[0]
    if name in ("create_bucket", "update_bucket", "delete_bucket", "buckets"):
        return lib.expectation(r, spec)
    if spec[1] not in set(r.bucket_ids()) or name == "insert_many_bad":
        return "rejected", True
    return lib.expectation(r, spec)


class Session:
    pass


def run_session(sq, Event, stores, history):
    """stores: store descriptions, all opened at the start and alive until the end, on one
    clock.  history: concrete steps [which, dt_us, tick_us, spec] or a generator function of
    the list of runners yielding such steps.  -> Session (runners, executed steps)"""
    clock = lib.Clock()
    real = lib.install_fake_datetime(sq, clock)
    se = Session()
    se.stores, se.steps, se.runners = stores, [], []
    try:
        for s in stores:
            se.runners.append(ApiRunner(sq, Event, s, clock))
        for which, dt, tick, spec in (history(se.runners) if callable(history) else history):
            r = se.runners[which]
            spec = tuple(tuple(x) if isinstance(x, list) else x for x in spec)
            exp, raises = api_expectation(r, spec)
            se.steps.append([which, dt, tick, list(spec)])
            r.steps.append([dt, tick, list(spec)])
            clock.hook = r.rec.on_reading
            r.call(dt, tick, spec)
            c = r.rec.calls[-1]
            c["expect"], c["raises"] = exp, raises
    finally:
        for r in reversed(se.runners):
            r.own_ok = r.finish()
        sq.datetime = real
    return se


# ---------------------------------------------------------------------------
# the property statement, for the durability class the options promise


def api_oracles(r):
    """-> list of (signature, description) on the observations of one store of a session"""
    v = list(lib.oracles(r)[0])            # prefix / bounded loss / bucket ops durable / no split (sets o["J"])
    if r.lazy:
        return v
    calls = r.rec.calls
    need = [0]                             # need[k] = writes issued by calls[:k] that returned
    for c in calls:
        need.append(c["end_token"] if c["outcome"] is None else need[-1])
    how = (f"store opened through {'Datastore' if r.via == 'datastore' else 'SqliteStorage'}(..., "
           + ", ".join(f"{k}={v_!r}" for k, v_ in r.opts.items()) + ")")
    for o in r.rec.obs:
        J = o.get("J")
        if not J:
            continue
        k = o["call"] + (1 if o["kind"] == "call-end" else 0)
        if max(J) < need[k]:
            c = calls[o["call"]]
            v.append((SIG_EAGER, f"{how}: at observation {o['kind']} of call #{o['call']} {c['spec']} the file holds only the "
                      f"first {max(J)} of the {need[k]} writes issued by calls that have returned (every completed "
                      f"operation must be durable on the auto-committing store)"))
            break
    return v


def session_violations(se):
    out = []
    for i, r in enumerate(se.runners):
        for sig, d in api_oracles(r):
            out.append((sig, f"store #{i} ({r.store['via']}, options {r.opts}): {d}"))
    return out


def replay_obj(se, extra=None, steps=None):
    case = {"stores": se.stores, "steps": se.steps if steps is None else steps}
    o = {"session": case, "rerun": "PYTHONPATH=%s:%s /venv/bin/python -m harness.c06_api replay '%s'" % (
        common.REPO, common.VERIF, json.dumps(case))}
    if extra:
        o.update(extra)
    return o


def _fresh_process(stores, steps, signature):
    """the session replayed in a process of its own -> the oracle's description, or None"""
    p = subprocess.run([sys.executable, "-m", "harness.c06_api", "replay", json.dumps({"stores": stores, "steps": steps})],
                       cwd=common.VERIF, stdout=subprocess.PIPE, stderr=subprocess.DEVNULL, text=True, timeout=600)
    for ln in p.stdout.splitlines():
        if ln.startswith("VIOLATES " + signature + " - "):
            return ln.split(" - ", 1)[1]
    return None


def shrink_session(sq, Event, se, signature):
    """-> (steps, description or None).  Shrinks in this process as long as the failure can
    be reproduced here; a failure that depends on what this process has done before (or that
    leaves it unusable) is shrunk by replaying candidates in fresh processes, which is what the
    replay command does."""
    def here(cand):
        try:
            s2 = run_session(sq, Event, se.stores, cand)
        except Exception:
            return None
        d = [d for s, d in session_violations(s2) if s == signature]
        return d[0] if d else None
    if len(se.steps) > 400:
        return se.steps, None
    big = sum(len(r.rec.issue_time) for r in se.runners) >= 3000
    if here(se.steps):
        steps = common.shrink_list(se.steps, here, max_steps=25 if big else 150)
        return steps, here(steps)
    if not _fresh_process(se.stores, se.steps, signature):
        return se.steps, None                 # reproducible only after what this process did before
    steps = common.shrink_list(se.steps, lambda c: _fresh_process(se.stores, c, signature), max_steps=10 if big else 40)
    return steps, _fresh_process(se.stores, steps, signature)


# ---------------------------------------------------------------------------
# correspondence with the extracted commit model (lazy := the promise)


def _skeleton(shape):
    return [x for x in shape if x != "R"]


GROUP = 200


def wire_trace_grouped(lazy, t0, micro):
    """c06_lib.wire_trace, with a run of more than GROUP consecutive Exec steps (the rows of one
    executemany) sent as ONE `ExecMany ws` step - the model's own reading of executemany; the
    driver's state summaries cost O(length) each, so 10^4 single steps cost 10^8.
    -> (wire, at) with at[i] = (g, k): the state after i recorded micro-steps is the model's
    state after g grouped steps plus k more pending writes."""
    tr, at = [], [(0, 0)]
    i = 0
    while i < len(micro):
        k, a, c = micro[i]
        j = i
        if k == "E":
            while j < len(micro) and micro[j][0] == "E":
                j += 1
        if j - i > GROUP:
            g = len(tr)
            tr.append([[1, [m[1] for m in micro[i:j]]], list(micro[j - 1][2])])
            at += [(g, d) for d in range(1, j - i)] + [(g + 1, 0)]
            i = j
        else:
            tr.append([{"E": [0, a], "R": [2], "C": [3], "K": [4, a]}[k], list(c)])
            at.append((len(tr), 0))
            i += 1
    return common.sx([0, lazy, t0, tr]), at


def compare_api_model(r, model_out, script_outs, at):
    """c06_lib.compare_model with scripts compared up to Read steps (the wrapper's own reads)
    and the trace grouped as above."""
    rec = r.rec
    bad = []
    states, fin_c, fin_p = model_out
    states = [[0, 0, 0, r.t0]] + states

    def st_at(i):
        g, k = at[i]
        clen, plen, n, last = states[g]
        return clen, plen + k, n, last
    if rec.anomalies:
        bad.append("recorder anomalies: " + "; ".join(rec.anomalies[:3]))
    if not r.own_ok:
        bad.append("the store's own connection does not see the effect of all issued writes (shadow replay differs)")
    for c, so in zip(rec.calls, script_outs):
        want = _skeleton(lib.shape_of_model_script(so))
        got = _skeleton(lib.shape_of_observed(rec.micro[c["first_micro"]:c["end_micro"]]))
        if want != got:
            def brief(x):
                return x if len(x) < 40 else x[:6] + [f"... {len(x) - 12} more ..."] + x[-6:]
            bad.append(f"writes and commits of {c['spec']} (expect={c.get('expect')}): model {brief(want)} "
                       f"implementation {brief(got)}")
        if bool(c["outcome"]) != bool(c.get("raises")):
            bad.append(f"{c['spec']}: exception {c['outcome']} (expected to raise: {c.get('raises')})")
    for o in rec.obs:
        clen, plen, n, last = st_at(o["i"])
        if clen >= len(rec.shadow.digests) or rec.shadow.digests[clen] != o["digest"]:
            bad.append(f"{o['kind']} after {o['i']} micro-steps: the model of the promised store has {clen} writes "
                       f"committed, the second connection sees the effect of {o.get('J', '?')}")
        if clen + plen != o["issued"]:
            bad.append(f"{o['kind']} after {o['i']} micro-steps: model committed+pending = {clen + plen}, issued {o['issued']}")
        if n != o["n"]:
            bad.append(f"{o['kind']} after {o['i']} micro-steps: num_uncommitted_statements model {n} implementation {o['n']}")
        if last != o["last"]:
            bad.append(f"{o['kind']} after {o['i']} micro-steps: last_commit model {last} implementation {o['last']}")
        if len(bad) > 6:
            break
    prev_commit = -1
    commit_stmts = set(rec.commit_stmts)
    for i, (k, a, c) in enumerate(rec.micro):
        if k in "CK":
            grew = st_at(i + 1)[0] > st_at(i)[0]
            seen = i in commit_stmts
            # a rejected statement or an executemany over no rows leaves an open, empty transaction
            if seen and not grew and any(prev_commit < f <= i for f in rec.begin_at):
                grew = True
            if grew != seen:
                bad.append(f"micro-step {i} ({k}{a if a is not None else ''}): model flushes {grew}, COMMIT statement "
                           f"traced {seen} (transaction-open oracle)")
                break
            if seen:
                prev_commit = i
    if fin_c + fin_p != list(range(len(rec.issue_time))):
        bad.append("final committed ++ pending is not the issue-ordered token list")
    return bad


# ---------------------------------------------------------------------------
# histories


def _single(h, which=0):
    """a c06_gen history (generator function of one Runner) as a session history"""
    def hh(runners):
        for dt, tick, spec in (h(runners[which]) if callable(h) else h):
            yield (which, dt, tick, spec)
    return hh


def _interleave(rng, hs):
    """several c06_gen histories, one per store, interleaved in runs of 1..7 calls"""
    def hh(runners):
        its = [iter(h(r)) for h, r in zip(hs, runners)]
        live = list(range(len(its)))
        while live:
            w = rng.choice(live)
            for _ in range(rng.randrange(1, 8)):
                try:
                    dt, tick, spec = next(its[w])
                except StopIteration:
                    live.remove(w)
                    break
                yield (w, dt, tick, spec)
    return hh


API_CORPUS = ["threshold-mixed-51", "threshold-delete-50", "insert_many-51-on-49", "insert_many-101-on-1",
              "insert_many-upserts-on-49", "bucket-ops", "reads", "rejected-calls", "partial-bulk-failure-small",
              "age-insert_one-10000001", "age-insert_many-9999999", "idle-then-burst", "ticking-clock-4000000", "eager"]


def h_ack(r):
    """a handful of acknowledged event writes and nothing else: no read, no bucket operation,
    no count or age threshold anywhere near (what a watcher does between two heartbeats)"""
    yield gen._create("b")
    yield (MS, 0, ("insert_one", "b"))
    yield (MS, 0, ("insert_one", "b"))
    ids = r.event_ids("b")
    yield (MS, 0, ("replace", "b", ids[0]))
    yield (MS, 0, ("insert_one", "b"))
    yield (MS, 0, ("delete", "b", ids[1]))
    yield (MS, 0, ("replace_last", "b"))
    yield (MS, 0, ("insert_many", "b", (), 2))
    yield (MS, 0, ("insert_many", "b", (ids[0],), 1))


def big_histories(n):
    """-> list of (name, store description, history): buckets of n events in the crash-point
    exploration of the bucket-level (and single-event) operations"""
    out = []

    def h_full(r):
        yield gen._create("a")
        yield gen._create("big")
        yield (MS, 0, ("insert_many", "big", (), n))             # one call, n rows
        yield from gen._ins("a", 3)
        yield (MS, 0, ("get_eventcount", "big"))
        ids = r.event_ids("big")
        yield (MS, 0, ("update_bucket", "big", 1))
        yield (MS, 0, ("replace_last", "big"))
        yield (MS, 0, ("delete", "big", ids[n // 2]))
        yield (MS, 0, ("replace", "big", ids[7]))
        yield gen._create("c")
        yield from gen._ins("a", 49)                             # 49 pending when the big bucket goes
        yield (MS, 0, ("delete_bucket", "big"))
        yield from gen._ins("a", 2)
        yield (MS, 0, ("delete_bucket", "a"))
        yield (MS, 0, ("buckets",))
    out.append((f"big-{n}-all-bucket-ops", store_desc("storage", {}), h_full))

    def h_api(r):
        yield gen._create("big")
        yield from gen._ins("big", 2)
        yield (MS, 0, ("insert_many", "big", (), n))
        yield (MS, 0, ("delete_bucket", "big"))                  # straight after the bulk insert
        yield gen._create("big")                                 # the same id again
        yield (MS, 0, ("insert_many", "big", (), n + 6))
        yield gen._create("other")
        yield (MS, 0, ("insert_many", "other", (), n))
        yield (MS, 0, ("update_bucket", "other", 2))
        yield (MS, 0, ("delete_bucket", "big"))
        yield (MS, 0, ("get_eventcount", "other"))
        yield (MS, 0, ("delete_bucket", "other"))
    out.append((f"big-{n}-through-datastore", store_desc("datastore", {}), h_api))

    def h_eager(r):
        yield gen._create("big")
        yield (MS, 0, ("insert_many", "big", (), n))
        yield (MS, 0, ("replace_last", "big"))
        yield (MS, 0, ("update_bucket", "big", 3))
        yield (MS, 0, ("delete_bucket", "big"))
    out.append((f"big-{n}-eager", store_desc("datastore", {"enable_lazy_commit": False}), h_eager))
    return out


def sessions(rng, quick):
    """-> list of (name, stores, session history)"""
    corpus = {name: h for name, _, h in gen.corpus() if callable(h)}
    out = []
    profiles = ["mixed", "burst", "trickle", "bulk"]
    # two stores alive at once, first of all (nothing has run in this process yet): bursts of 30
    # single-event writes in turn (each store must flush on ITS 51st pending write whatever the
    # other one does), then interleaved histories

    def h_turns(runners):
        for w in (0, 1):
            yield (w, MS, 0, ("create_bucket", "b"))
        for turn in range(8):
            w = turn % 2
            for k in range(30):
                ids = runners[w].event_ids("b")
                yield (w, MS, 0, [("insert_one", "b"), ("replace_last", "b"), ("delete", "b", ids[0] if ids else 1)][k % 3]
                       if turn >= 4 else ("insert_one", "b"))
        yield (0, MS, 0, ("delete_bucket", "b"))
        yield (1, 12 * S, 0, ("insert_one", "b"))
    for a, b in ((0, 2), (0, 1), (1, 0)):
        out.append((f"api-pair:{OPTION_SETS[a][0]}+{OPTION_SETS[b][0]}:turns",
                    [store_desc("datastore", OPTION_SETS[a][1]), store_desc("datastore", OPTION_SETS[b][1])], h_turns))
    pairs = [(1, 0), (0, 1), (1, 2), (1, 1), (2, 0)]
    for i, (a, b) in enumerate(pairs if quick else pairs * 8):
        (na, oa), (nb, ob) = OPTION_SETS[a], OPTION_SETS[b]
        if i % 2 == 0:
            hs = [h_ack, corpus["threshold-mixed-51"]]
        else:
            hs = [gen.random_history(rng, profiles[i % 4]), gen.random_history(rng, profiles[(i + 1) % 4])]
        out.append((f"api-pair:{na}+{nb}:{i}", [store_desc("datastore", oa), store_desc("datastore", ob)],
                    _interleave(rng, hs)))
    # every option combination through Datastore, in changing order (one store after another
    # in one process: whatever outlives a store is met by the next one)
    names = [n for n in API_CORPUS if n in corpus]
    if len(names) < len(API_CORPUS) - 2:
        raise RuntimeError("c06_gen.corpus() no longer has the histories the API stream selects")
    key = ("ack", "threshold-mixed-51", "bucket-ops", "reads", "eager")
    k = 0
    for rep in range(1 if quick else 3):
        for name in ["ack"] + names:
            h = h_ack if name == "ack" else corpus[name]
            if name in key:
                which = [(k + j) % 3 for j in range(3)] if k % 2 else [(k - j) % 3 for j in range(3)]
            else:
                which = [1, 0 if k % 2 else 2] if k % 4 < 2 else [2 if k % 2 else 0, 1]
            k += 1
            for w in which:
                on, opts = OPTION_SETS[w]
                out.append((f"api:{on}:{name}", [store_desc("datastore", opts)], _single(h)))
    order = [OPTION_SETS[i] for i in (0, 1, 2, 1, 0, 2, 1, 1, 0)]
    n_random = 9 if quick else 300
    for i in range(n_random):
        on, opts = order[(k + i) % len(order)]
        p = profiles[i % 4]
        out.append((f"api:{on}:random-{p}-{i}", [store_desc("datastore", opts)], _single(gen.random_history(rng, p))))
    # the storage class called directly WITHOUT the option (the main stream always passes it)
    for name in ("ack", "threshold-mixed-51", "bucket-ops"):
        out.append((f"storage:default:{name}", [store_desc("storage", {})], _single(h_ack if name == "ack" else corpus[name])))
    # the registered class itself, nothing subclassed (black box)
    for on, opts in OPTION_SETS:
        for name in ("ack", "threshold-mixed-52"):
            out.append((f"api-blackbox:{on}:{name}", [store_desc("datastore", opts, instrumented=False)],
                        _single(h_ack if name == "ack" else corpus[name])))
    # without filepath= (the data directory's default file, migration check included)
    for on, opts in OPTION_SETS:
        out.append((f"api-default-file:{on}:ack", [store_desc("datastore", opts, filepath=False)], _single(h_ack)))
    return out


# ---------------------------------------------------------------------------
# real crashes through the API


def kill_child(case_json):
    """child process: runs the steps through the layer named in the store description with the
    real clock, logs every write statement before it runs and every returned call; dies by
    SIGKILL where the case says"""
    case = json.loads(case_json)
    common.setup_impl_env()
    import aw_datastore.storages.sqlite as sq
    from aw_core.models import Event
    store, steps, at = case["store"], case["steps"], case["kill"]
    log = os.open(case["log"], os.O_WRONLY | os.O_CREAT | os.O_APPEND)

    def out(*rec):
        os.write(log, (json.dumps(rec) + "\n").encode())

    def die():
        os.kill(os.getpid(), signal.SIGKILL)
        time.sleep(60)
    cls = ApiRunner.registered_class()
    kw = dict(store["opts"], filepath=case["db"])
    if store["via"] == "datastore":
        from aw_datastore import Datastore
        ds = Datastore(cls, testing=True, **kw)
        st = ds.storage_strategy
    else:
        ds, st = None, cls(testing=True, **kw)
    state = {"call": -1, "stmt": 0}

    def cb(sql):
        head = sql.lstrip().split(None, 1)[0].upper()
        if head in lib.WRITE_KW:
            state["stmt"] += 1
            if at[0] == "in-call" and state["call"] == at[1] and state["stmt"] == at[2]:
                die()
            out("S", sql)
    st.conn.set_trace_callback(cb)
    n = [0]

    def ev(eid=None):
        n[0] += 1
        return lib._ev(Event, n[0], eid)
    for k, spec in enumerate(steps):
        state["call"], state["stmt"] = k, 0
        name, ok = spec[0], True
        try:
            if name == "create_bucket":
                ds.create_bucket(spec[1], "t", "c", "h", lib.T0) if ds else st.create_bucket(spec[1], "t", "c", "h", lib.T0.isoformat())
            elif name == "update_bucket":
                (ds or st).update_bucket(spec[1], data={"v": spec[2]})
            elif name == "delete_bucket":
                (ds or st).delete_bucket(spec[1])
            elif name == "insert_one":
                ds[spec[1]].insert(ev()) if ds else st.insert_one(spec[1], ev())
            elif name == "insert_many":
                evs = [ev(i) for i in spec[2]] + [ev() for _ in range(spec[3])]
                ds[spec[1]].insert(evs) if ds else st.insert_many(spec[1], evs)
            elif name == "replace":
                ds[spec[1]].replace(spec[2], ev()) if ds else st.replace(spec[1], spec[2], ev())
            elif name == "replace_last":
                ds[spec[1]].replace_last(ev()) if ds else st.replace_last(spec[1], ev())
            elif name == "delete":
                ds[spec[1]].delete(spec[2]) if ds else st.delete(spec[1], spec[2])
            else:
                raise RuntimeError(name)
        except Exception:
            ok = False
        out("R", k, name, ok)
        if at[0] in ("after-call", "in-call") and at[1] == k:
            die()                      # in-call: the call had fewer statements than asked for
    os._exit(0)


def kill_case(store, steps, at):
    return {"store": store, "steps": [list(s) for s in steps], "kill": list(at)}


def kill_run(case):
    """-> {"violations": [(signature, description)], "logged": n, "lost": n}"""
    d = lib.scratch_dir()
    res = {"violations": [], "logged": 0, "lost": 0}
    try:
        full = dict(case, db=os.path.join(d, "k.db"), log=os.path.join(d, "log"))
        p = subprocess.run([sys.executable, "-m", "harness.c06_api", "child", json.dumps(full)], cwd=common.VERIF,
                           stdout=subprocess.DEVNULL, stderr=subprocess.PIPE, timeout=600)
        if p.returncode != -signal.SIGKILL:
            res["violations"].append(("C06:sigkill-child-failed", f"child ended with {p.returncode}: " + p.stderr.decode()[-300:]))
            return res
        recs = []
        for ln in open(full["log"], "rb").read().split(b"\n"):
            try:
                recs.append(json.loads(ln))
            except ValueError:
                pass
        c = sqlite3.connect(full["db"], isolation_level=None)
        got = api_dump(c)
        sh = TrigShadow(lib.schema_of(c))
        c.close()
        lazy = promised_lazy(case["store"]["opts"])
        applied = done = durable = call_start = 0
        atomic = []
        for r in recs:
            if r[0] == "S":
                if sh.apply(r[1]) is not None:
                    applied += 1
            else:
                _, k, name, ok = r
                if ok:
                    done = applied
                    if not lazy or name in lib.BUCKET_CALLS:
                        durable = applied
                if name in lib.BUCKET_CALLS + lib.SINGLE_EVENT_CALLS and applied - call_start >= 2:
                    atomic.append((k, name, call_start, applied))
                call_start = applied
        if applied > call_start and case["kill"][0] == "in-call":                # statements of a call in flight
            name = case["steps"][case["kill"][1]][0]
            if name in lib.BUCKET_CALLS + lib.SINGLE_EVENT_CALLS:
                # it was about to issue one more: any non-empty part of it in the file is a split
                atomic.append((case["kill"][1], name, call_start, 10 ** 9))
        res["logged"] = applied
        how = (f"child opened the store through {'Datastore' if case['store']['via'] == 'datastore' else 'SqliteStorage'}"
               f"(options {case['store']['opts']}), was SIGKILLed {case['kill']}")
        J = sh.matches(got, applied)
        if not J:
            res["violations"].append(("C06:not-a-prefix", f"{how}: the reopened database is not the effect of any prefix of "
                                      f"the {applied} logged write statements"))
            return res
        res["lost"] = max(0, done - max(J))
        if max(J) < durable:
            sig = SIG_EAGER if not lazy else "C06:bucket-op-not-durable"
            res["violations"].append((sig, f"{how}: the reopened file holds only the first {max(J)} of the {durable} writes "
                                      f"that had to be durable ({'every completed operation' if not lazy else 'bucket operations'})"))
        if done - max(J) > lib.THRESHOLD:
            res["violations"].append(("C06:unbounded-loss", f"{how}: {done - max(J)} writes of completed calls are missing"))
        for k, name, a, b in atomic:
            if not any(j <= a or j >= b for j in J):
                res["violations"].append(("C06:operation-split", f"{how}: call #{k} {name} issued writes {a}.. ; the reopened "
                                          f"file holds exactly the first {J} writes"))
        return res
    finally:
        shutil.rmtree(d, ignore_errors=True)


def kill_cases(rng, quick, n_big):
    """-> list of kill cases"""
    ack = [("create_bucket", "b"), ("insert_one", "b"), ("insert_one", "b"), ("replace", "b", 1), ("insert_one", "b"),
           ("delete", "b", 2), ("replace_last", "b"), ("insert_many", "b", (), 2), ("insert_many", "b", (1,), 1)]
    out = []
    for on, opts in OPTION_SETS:
        pts = [len(ack) - 1, rng.randrange(1, len(ack) - 1)] if quick else range(len(ack))
        for k in pts:
            out.append(kill_case(store_desc("datastore", opts), ack[:k + 1], ("after-call", k)))
    big = [("create_bucket", "a"), ("create_bucket", "big"), ("insert_one", "a"), ("insert_many", "big", (), n_big),
           ("insert_one", "a"), ("delete_bucket", "big")]
    pts = [2, 3] if quick else [1, 2, 3, 4, 5, 6]
    for j in pts:
        out.append(kill_case(store_desc("datastore", {}), big, ("in-call", len(big) - 1, j)))
    if not quick:
        for on, opts in OPTION_SETS:
            for via in ("datastore", "storage"):
                steps = [("create_bucket", "b")] + [rng.choice([("insert_one", "b"), ("replace_last", "b"),
                                                                ("insert_many", "b", (), rng.choice([1, 3, 60]))])
                                                    for _ in range(rng.randrange(3, 80))]
                out.append(kill_case(store_desc(via, opts), steps, ("after-call", len(steps) - 1)))
    return out


# ---------------------------------------------------------------------------
# source-level tie of Model/CommitOpen.v (ds_forward = identity, storage_lazy's default)


def option_path_problems(repo):
    """The path an option takes from Datastore(...) to conditional_commit's test, re-read from
    the source on every run (fail closed: anything not recognised is a problem).
    Datastore.__init__ must build the storage with exactly `storage_strategy(testing=testing,
    **kwargs)`, kwargs being its own ** parameter, otherwise untouched, and no other method
    may assign self.storage_strategy; SqliteStorage.__init__ must take enable_lazy_commit with
    default True, never rebind it, and the class must assign self.enable_lazy_commit exactly
    once, from that parameter; the registered "sqlite" method must be that class."""
    import ast
    bad = []

    def cls(path, name):
        tree = ast.parse(open(os.path.join(repo, path)).read())
        for n in tree.body:
            if isinstance(n, ast.ClassDef) and n.name == name:
                return n
        raise LookupError(f"class {name} not found in {path}")

    def method(c, name):
        for n in c.body:
            if isinstance(n, ast.FunctionDef) and n.name == name:
                return n
        raise LookupError(f"{c.name}.{name} not found")

    def self_attr_stores(node, attr):
        out = []
        for n in ast.walk(node):
            if isinstance(n, (ast.Assign, ast.AnnAssign, ast.AugAssign)):
                tgts = n.targets if isinstance(n, ast.Assign) else [n.target]
                for t in tgts:
                    for x in ast.walk(t):
                        if isinstance(x, ast.Attribute) and x.attr == attr and isinstance(x.value, ast.Name) and x.value.id == "self":
                            out.append(n)
            elif isinstance(n, ast.Call) and isinstance(n.func, ast.Name) and n.func.id in ("setattr", "delattr") and \
                    len(n.args) >= 2 and isinstance(n.args[1], ast.Constant) and n.args[1].value == attr:
                out.append(n)
        return out
    try:
        ds = cls("aw_datastore/datastore.py", "Datastore")
        init = method(ds, "__init__")
        kw = init.args.kwarg.arg if init.args.kwarg else None
        if kw is None:
            bad.append("Datastore.__init__ no longer takes **kwargs")
        uses = [n for n in ast.walk(init) if isinstance(n, ast.Name) and n.id == kw]
        calls = [n for n in ast.walk(init) if isinstance(n, ast.Call) and isinstance(n.func, ast.Name)
                 and n.func.id == "storage_strategy"]
        if len(calls) != 1:
            bad.append(f"Datastore.__init__ calls storage_strategy {len(calls)} times")
        else:
            c = calls[0]
            shape = [(k.arg, ast.unparse(k.value)) for k in c.keywords]
            if c.args or shape != [("testing", "testing"), (None, kw)]:
                bad.append("Datastore.__init__ builds the storage with " + ast.unparse(c)
                           + f", not storage_strategy(testing=testing, **{kw})")
        if kw and len(uses) != 1:
            bad.append(f"Datastore.__init__ uses its **{kw} {len(uses)} times (forwarded once, untouched, is the model)")
        for n in ast.walk(init):
            if isinstance(n, ast.Name) and n.id in ("testing", "storage_strategy") and isinstance(n.ctx, ast.Store):
                bad.append(f"Datastore.__init__ rebinds {n.id}")
        stores = self_attr_stores(ds, "storage_strategy")
        if len(stores) != 1 or not (isinstance(stores[0], ast.Assign) and calls and stores[0].value is calls[0]):
            bad.append(f"self.storage_strategy is assigned {len(stores)} times in Datastore (once, the call's result, is the model)")
        st = cls("aw_datastore/storages/sqlite.py", "SqliteStorage")
        sinit = method(st, "__init__")
        a = sinit.args
        names = [x.arg for x in a.args]
        if a.vararg or a.kwarg or a.kwonlyargs or "enable_lazy_commit" not in names:
            bad.append("SqliteStorage.__init__ parameters: " + ast.unparse(a))
        else:
            d = dict(zip(names[len(names) - len(a.defaults):], a.defaults))
            dv = d.get("enable_lazy_commit")
            if not (isinstance(dv, ast.Constant) and dv.value is True):
                bad.append("default of enable_lazy_commit is " + (ast.unparse(dv) if dv is not None else "missing") + ", not True")
        for n in ast.walk(sinit):
            if isinstance(n, ast.Name) and n.id == "enable_lazy_commit" and isinstance(n.ctx, ast.Store):
                bad.append("SqliteStorage.__init__ rebinds enable_lazy_commit")
        stores = self_attr_stores(st, "enable_lazy_commit")
        if len(stores) != 1 or not (isinstance(stores[0], ast.Assign) and isinstance(stores[0].value, ast.Name)
                                    and stores[0].value.id == "enable_lazy_commit" and stores[0] in sinit.body):
            bad.append("self.enable_lazy_commit is not assigned exactly once, in __init__, from the parameter: "
                       + "; ".join(ast.unparse(x) for x in stores))
        for n in ast.walk(st):
            if isinstance(n, ast.Attribute) and n.attr == "enable_lazy_commit" and not (isinstance(n.value, ast.Name) and n.value.id == "self"):
                bad.append("enable_lazy_commit reached other than through self: " + ast.unparse(n))
    except (LookupError, SyntaxError, OSError) as ex:
        bad.append(f"{type(ex).__name__}: {ex}")
    try:
        import aw_datastore
        from aw_datastore.storages import SqliteStorage
        if aw_datastore.get_storage_methods().get("sqlite") is not SqliteStorage:
            bad.append('get_storage_methods()["sqlite"] is not aw_datastore.storages.SqliteStorage')
    except Exception as ex:
        bad.append(f"get_storage_methods: {type(ex).__name__}: {ex}")
    return bad


# ---------------------------------------------------------------------------
# entry point of the check


def _report(ck, sq, Event, name, se, seen):
    viol = session_violations(se)
    for sig, desc in viol:
        if sig in seen:
            ck.count("api:further-failing-histories:" + sig)
            continue
        seen.add(sig)
        steps, d = shrink_session(sq, Event, se, sig)
        ck.failing_input(sig, f"{name}: {d or desc}", replay_obj(se, {"found_in": name}, steps if d else None))
    return viol


def run(ck, sq, Event, quick, have_driver):
    """Hook of harness/c06.py."""
    t = time.time()
    try:
        _run(ck, sq, Event, quick, have_driver)
        ck.count("api:whole-stream-ms", int((time.time() - t) * 1000))
    except Exception as ex:                      # fail closed: a stream that cannot run is a broken tie
        import traceback
        ck.disagreement("api-stream", f"harness.c06_api could not run: {type(ex).__name__}: {ex}",
                        {"traceback": traceback.format_exc()[-1500:]})


def _run(ck, sq, Event, quick, have_driver):
    if hasattr(ck, "prove"):
        # the eager clause and the options (Model/CommitOpen.v, Props/C06Eager.v), and their source-level tie
        ck.prove(props_file="Props/C06Eager.v")
    for b in option_path_problems(common.REPO):
        ck.disagreement("option-path", "tie of Model/CommitOpen.v to the source: " + b, {"check": "harness.c06_api.option_path_problems"})
    rng = random.Random(ck.seed * 7919 + 17)
    seen = ck.__dict__.setdefault("_reported_signatures", set())
    todo = [(name, stores, h) for name, stores, h in sessions(rng, quick)]
    sizes = [BIG_N] if quick else [BIG_N, 20_001, 65_537]
    for n in sizes:
        todo += [("api-" + name, [store], _single(h)) for name, store, h in big_histories(n)]
    pending, wire = [], []
    t_big = 0.0
    for name, stores, h in todo:
        t = time.time()
        try:
            se = run_session(sq, Event, stores, h)
        except Exception as ex:
            ck.disagreement("api-stream", f"session {name} could not be run: {type(ex).__name__}: {ex}", {"session": name})
            continue
        if "big-" in name:
            t_big += time.time() - t
        _report(ck, sq, Event, name, se, seen)
        for i, r in enumerate(se.runners):
            r.name = f"{name}#{i}"
            ck.count("api:stores-opened:" + r.store["via"] + ":" + ("lazy" if r.lazy else "eager") + "-promised"
                     + ("" if r.store["instrumented"] else ":registered-class") + ("" if r.store["filepath"] else ":default-file"))
            ck.count("api:micro-steps", len(r.rec.micro))
            ck.count("api:crash-points-observed", len(r.rec.obs))
            ck.count("api:write-statements", len(r.rec.issue_time))
            for c in r.rec.calls:
                ck.count("api:call:" + c["spec"][0])
                if c["spec"][0] in lib.BUCKET_CALLS and c["outcome"] is None and "big-" in name:
                    ck.count("api:bucket-ops-with-a-large-bucket-present")
            big = max([c["spec"][3] for c in r.rec.calls if c["spec"][0] == "insert_many"] + [0])
            canon = ["api", r.store["via"], sorted(r.opts.items()), r.store["instrumented"], r.store["filepath"], len(stores),
                     [(dt, tick, s[0], len(s[2]) if s[0] == "insert_many" else 0, s[3] if s[0] == "insert_many" else 0)
                      for dt, tick, s in r.steps]]
            buffered = any(o["issued"] not in (o.get("J") or [o["issued"]]) for o in r.rec.obs)
            ck.note_case(canon, nontrivial=len(r.rec.issue_time) > 0 and (buffered or not r.lazy))
            if big >= BIG_N and len(ck.samples) < 7:
                ck.sample({"history": r.name, "options": r.opts, "via": r.store["via"], "largest_insert_many": big,
                           "crash_points_observed": len(r.rec.obs), "scans_of_second_connection": r.rec.n_scans})
            if r.rec.anomalies or not r.own_ok:
                if not r.store["instrumented"]:
                    ck.disagreement("api-stream", f"{r.name}: " + "; ".join(r.rec.anomalies[:3] or ["own view differs from shadow"]),
                                    replay_obj(se))
            if r.store["instrumented"] and have_driver:
                i_trace = len(wire)
                w, r.at = wire_trace_grouped(r.lazy, r.t0, r.rec.micro)
                wire.append(w)
                i_scripts = []
                for c in r.rec.calls:
                    i_scripts.append(len(wire))
                    wire.append(lib.wire_script(lib.model_op(c)))
                pending.append((se, r, i_trace, i_scripts))
        ck.count("api:sessions")
    ck.count("api:large-bucket-sessions-ms", int(t_big * 1000))
    if pending:
        out = common.run_driver("C06", wire)
        for se, r, i_trace, i_scripts in pending:
            if out[i_trace] == [-999] or any(out[i] == [-999] for i in i_scripts):
                ck.disagreement("api-commit-model", f"{r.name}: the driver could not decode the case", replay_obj(se))
                continue
            for b in compare_api_model(r, out[i_trace], [out[i] for i in i_scripts], r.at)[:3]:
                ck.disagreement("api-commit-model", f"{r.name} (model run with lazy := {r.lazy}, the options' promise): {b}",
                                replay_obj(se, {"disagreement": b}))
    # real crashes (children in parallel: each is its own process on its own files)
    t = time.time()
    from concurrent.futures import ThreadPoolExecutor
    cases = kill_cases(rng, quick, BIG_N)
    with ThreadPoolExecutor(max_workers=4) as ex:
        results = list(ex.map(kill_run, cases))
    for case, res in zip(cases, results):
        ck.evaluations += 1
        ck.count("api:sigkill:" + ("lazy" if promised_lazy(case["store"]["opts"]) else "eager") + "-promised:" + case["kill"][0])
        ck.count("api:sigkill:statements-logged", res["logged"])
        ck.count("api:sigkill:lost-writes", res["lost"])
        for sig, desc in res["violations"]:
            if sig in seen and sig != "C06:sigkill-child-failed":
                ck.count("api:further-failing-histories:" + sig)
                continue
            seen.add(sig)
            ck.failing_input(sig, desc, {"kill_case": case, "rerun": "PYTHONPATH=%s:%s /venv/bin/python -m harness.c06_api "
                                                                     "kill '%s'" % (common.REPO, common.VERIF, json.dumps(case))})
    ck.count("api:sigkill-ms", int((time.time() - t) * 1000))


# ---------------------------------------------------------------------------
# command line


class _Ck:
    """stand-in for common.Check when the streams run alone"""

    def __init__(self, seed):
        self.seed, self.counts, self.samples, self.evaluations = seed, {}, [], 0
        self.fails, self.dis = [], []

    def count(self, k, n=1):
        self.counts[k] = self.counts.get(k, 0) + n

    def sample(self, o):
        self.samples.append(o)

    def note_case(self, canon, nontrivial=True):
        self.evaluations += 1

    def failing_input(self, sig, desc, replay):
        self.fails.append((sig, desc, replay))

    def disagreement(self, stream, desc, replay):
        self.dis.append((stream, desc, replay))


def main(argv):
    if argv[0] == "child":
        return kill_child(argv[1])
    if argv[0] == "kill":
        arg = argv[1]
        case = json.load(open(arg)) if not arg.lstrip().startswith("{") else json.loads(arg)
        case = case.get("kill_case", case)
        common.setup_impl_env()
        r = kill_run(case)
        print(json.dumps(r, indent=1))
        return 1 if r["violations"] else 0
    common.setup_impl_env()
    import aw_datastore.storages.sqlite as sq
    from aw_core.models import Event
    if argv[0] == "replay":
        arg = argv[1]
        case = json.load(open(arg)) if not arg.lstrip().startswith("{") else json.loads(arg)
        case = case.get("session", case)
        se = run_session(sq, Event, case["stores"], case["steps"])
        for i, r in enumerate(se.runners):
            print(f"store #{i}: {r.store}; promised {'lazy' if r.lazy else 'auto-committing'}; {len(r.steps)} calls, "
                  f"{len(r.rec.issue_time)} write statements, {len(r.rec.obs)} crash points observed")
            api_oracles(r)
            for o in r.rec.obs:
                if o["kind"] == "call-end":
                    c = r.rec.calls[o["call"]]
                    J = o.get("J") or []
                    print(f"  {str(c['spec']):50s} issued={o['issued']:6d} committed-prefix={J[-1] if J else '??':>6} "
                          f"{'raised ' + c['outcome'] if c['outcome'] else ''}")
        v = session_violations(se)
        for sig, d in v:
            print("VIOLATES", sig, "-", d)
        if not v:
            print("oracles: ok")
        return 1 if v else 0
    ck = _Ck(int(os.environ.get("VERIF_SEED", "20260926")))
    t = time.time()
    _run(ck, sq, Event, argv[0] != "thorough", os.path.exists(os.path.join(common.BUILD, "C06", "driver")))
    for k in sorted(ck.counts):
        print(f"  {k}: {ck.counts[k]}")
    for sig, desc, rp in ck.fails:
        print("VIOLATES", sig, "-", desc)
        print("   replay:", rp.get("rerun", "")[:600])
    for stream, desc, rp in ck.dis:
        print("DISAGREEMENT", stream, "-", desc)
        if "traceback" in rp:
            print(rp["traceback"])
    print(f"{ck.evaluations} cases, {time.time() - t:.1f}s")
    return 1 if ck.fails or ck.dis else 0


if __name__ == "__main__":
    sys.exit(main(sys.argv[1:]))
