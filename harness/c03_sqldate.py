"""C03, peewee: the tie between Model/SqliteDate.v (SQLite 3.40.1's date arithmetic as peewee.py's
dt_plus_duration uses it) and the engine.

A *raw row* is what the engine holds and prints for one stored event:

    [ts_us, dur_us, ts_text, cell, end_text]

    ts_us, dur_us   the event as the storage hands it back (Event: microseconds)
    ts_text         the TEXT cell of the DATETIME column, unconverted ("YYYY-MM-DD HH:MM:SS[.ffffff]+00:00")
    cell            the cell of the DECIMAL column, unconverted: int (INTEGER cell) or float.hex() (REAL cell)
    end_text        what the code's own expression dt_plus_duration(timestamp, duration) evaluates to on the row

`raw_rows(db)` measures them on an open peewee database (used by harness/c03_hist.py for every stored
row before every query that follows a write, and by `corpus_rows` below).  `model_rows` evaluates
Model/SqliteDate.v's `sd_row_case` on (ts_text, cell) inside Coq (harness/floatcases.py) and `compare`
demands, per row,

    * iJD of the parsed TEXT = 210866760000000 + ts_us / 1000      (parse / computeJD)
    * the model's TEXT = end_text, character for character            (the whole expression, bit-exact)
    * the instant the model prints (us) = the instant end_text reads as
    * |cell * 10^6 - dur_us| <= 1/64                                  (premise cell_near of the theorems)

The boundary corpus (`corpus`) goes through a real PeeweeStorage (insert_many) in a forked process, so
that the TEXT and the DECIMAL cell are the ones the code writes.
"""
import multiprocessing
import os
import shutil
import tempfile
from datetime import datetime, timedelta, timezone
from fractions import Fraction

from . import floatcases as fc
from .evutil import dt, us_of_dt, us_of_td

EPOCH_MS = 210866760000000
DAY = 86400 * 10 ** 6
SEC = 10 ** 6
IMPORTS = "From Coq Require Import String.\nFrom AwVerif Require Import Base.Prelude Model.PyFloat Model.SqliteDate."

# durations (us) whose decimal text SQLite 3.40.1 converts to a REAL one ulp away from the float that was
# written (found by experiment: 99 of 400 000 random durations)
ULP_OFF = [82270555386, 15474027873, 46574935383, 44853378557, 23050415121, 33916935383, 50864377117,
           79748008511, 78353336636, 36137720867, 2388878062, 36408279133, 13956918858, 17296397379,
           39531732258, 33859169758, 1600967219, 9092128017, 62819409807, 10531174892, 578347]


def parse_ms_text(s):
    """'YYYY-MM-DD HH:MM:SS.mmm+00:00' -> microseconds since the epoch."""
    return us_of_dt(datetime.strptime(s[:23], "%Y-%m-%d %H:%M:%S.%f").replace(tzinfo=timezone.utc))


def cell_wire(c):
    return c if isinstance(c, int) else float(c).hex()


def cell_float(w):
    return float(w) if isinstance(w, int) else float.fromhex(w)


def raw_rows(db):
    """Every row of the open peewee database: [ts_us, dur_us, ts_text, cell, end_text]."""
    from aw_core.models import Event
    from aw_datastore.storages.peewee import EventModel, dt_plus_duration
    q = EventModel.select(EventModel.id, EventModel.timestamp, EventModel.duration,
                          dt_plus_duration(EventModel.timestamp, EventModel.duration))
    raw = {r[0]: r[1:] for r in db.execute_sql(*q.sql()).fetchall()}
    out = []
    for r in EventModel.select():
        e = Event(**EventModel.json(r))
        ts_text, cell, end_text = raw[r.id]
        out.append([us_of_dt(e.timestamp), us_of_td(e.duration), ts_text, cell_wire(cell), end_text])
    return out


# ---------------------------------------------------------------------------
# boundary corpus


def _instants():
    def u(*a):
        return us_of_dt(datetime(*a, tzinfo=timezone.utc))
    pts = [u(1970, 1, 1), u(1970, 1, 1, 0, 0, 0, 1000), u(1970, 1, 1, 0, 0, 1), u(1970, 1, 2), u(1970, 3, 1),
           u(1999, 12, 31, 23, 59, 59, 999000), u(2000, 1, 1), u(2000, 2, 28, 23, 59, 59, 500000), u(2000, 2, 29),
           u(2000, 2, 29, 23, 59, 59, 999000), u(2000, 3, 1), u(2001, 9, 9, 1, 46, 40), u(2004, 2, 29, 12),
           u(2009, 2, 13, 23, 31, 30, 123000), u(2019, 12, 31, 23, 59, 59), u(2020, 2, 29, 23, 59, 59, 1000),
           u(2023, 2, 28, 23, 59, 59, 999000), u(2023, 4, 30, 23, 59, 59, 500000), u(2023, 12, 31, 23, 59, 59, 999000),
           u(2024, 2, 29, 0, 0, 0, 1000), u(2024, 12, 31, 12), u(2038, 1, 19, 3, 14, 7), u(2038, 1, 19, 3, 14, 7, 999000),
           u(2038, 1, 19, 3, 14, 8), u(2040, 2, 29, 23, 59, 59, 999000), u(2099, 12, 31), u(2099, 12, 31, 23, 59, 59, 999000),
           u(2100, 1, 1), u(2100, 2, 28, 23, 59, 59, 500000), u(2100, 3, 1), u(2100, 12, 31, 23, 59, 59, 999000)]
    return pts


def corpus(rng, n_random):
    """[[ts_us, dur_us] ...]: deterministic boundary rows, then seeded random ones."""
    rows = []
    near_half = [0, 1, 400, 499, 500, 501, 600, 999, 1000, 1499, 1500, 1501, 999499, 999500, 999501, 999999, SEC,
                 59 * SEC + 999500, 60 * SEC - 501, 3600 * SEC - 500, 3600 * SEC - 499, DAY - 1000, DAY - 501,
                 DAY - 500, DAY - 499, DAY - 1, DAY]
    for t in _instants():
        for d in near_half:
            rows.append([t, d])
        # the end instant half a millisecond before / on / after the next whole second, minute, hour, day
        for unit in (SEC, 60 * SEC, 3600 * SEC, DAY):
            nxt = (t // unit + 1) * unit
            for off in (-1000, -501, -500, -499, -1, 0, 1, 499, 500, 501):
                d = nxt - t + off
                if 0 <= d <= DAY:
                    rows.append([t, d])
    base = us_of_dt(datetime(2020, 9, 13, 12, 26, 40, tzinfo=timezone.utc))
    for d in ULP_OFF:
        rows.append([base, d])
        rows.append([base + 999000, d])
    # every millisecond phase against the half-millisecond roundings
    for k in range(0, 1000, 7):
        rows.append([base + k * 1000, 999500 - (k % 3)])
    # seeded random: any millisecond 1970 .. 2100, durations 0 .. 24 h at us granularity
    hi = us_of_dt(datetime(2100, 1, 1, tzinfo=timezone.utc)) // 1000
    for _ in range(n_random):
        k = rng.random()
        if k < 0.4:
            t = rng.randrange(0, hi) * 1000
        elif k < 0.7:
            t = rng.choice(_instants()) + rng.randrange(-2000, 2000) * 1000
            t = max(0, t)
        else:
            t = rng.randrange(0, hi // 1000) * SEC + rng.choice([0, 0, 1000, 499000, 500000, 999000])
        k = rng.random()
        if k < 0.35:
            d = rng.randrange(0, DAY + 1)
        elif k < 0.7:
            d = rng.randrange(0, DAY // 1000) * 1000 + rng.choice([470, 480, 490, 499, 500, 501, 510, 520, 530])
        elif k < 0.85:
            d = rng.randrange(0, 10 ** 7)
        else:
            d = rng.choice(ULP_OFF + near_half)
        rows.append([t, min(d, DAY)])
    return rows


def _corpus_worker(args):
    rows, tmp = args
    from aw_core.models import Event
    from aw_datastore.storages import PeeweeStorage
    path = os.path.join(tmp, "sqldate-corpus.db")
    st = PeeweeStorage(testing=True, filepath=path)
    try:
        st.create_bucket("corpus", "t", "c", "h", datetime.now(timezone.utc).isoformat(), name=None, data={})
        evs = [Event(timestamp=dt(t), duration=timedelta(microseconds=d), data={"n": n}) for n, (t, d) in enumerate(rows)]
        for i in range(0, len(evs), 400):
            st.insert_many("corpus", evs[i:i + 400])
        out = raw_rows(st.db)
        # the same expression on cells one ulp above / below the float that was written (what SQLite's own
        # text -> REAL conversion of a decimal text can produce), evaluated by the engine on literal values
        import math
        import peewee
        from aw_datastore.storages.peewee import dt_plus_duration
        for ts_us, dur_us, ts_text, cell, _ in out[::9] + [r for r in out if r[1] in ULP_OFF]:
            c = cell_float(cell)
            for c2 in (math.nextafter(c, 1e9), math.nextafter(c, -1.0)):
                if c2 < 0:
                    continue
                q = peewee.Select(columns=[dt_plus_duration(peewee.Value(ts_text), peewee.Value(c2))]).bind(st.db)
                out.append([ts_us, dur_us, ts_text, cell_wire(c2), st.db.execute_sql(*q.sql()).fetchall()[0][0]])
        return out
    finally:
        st.db.close()


def corpus_rows(rows):
    """The corpus through a real PeeweeStorage in a forked process -> raw rows."""
    tmp = tempfile.mkdtemp(prefix="awc03-sqldate-")
    try:
        ctx = multiprocessing.get_context("fork")
        with ctx.Pool(1) as pool:
            return pool.map(_corpus_worker, [(rows, tmp)])[0]
    finally:
        shutil.rmtree(tmp, ignore_errors=True)


# ---------------------------------------------------------------------------
# the model, evaluated inside Coq


def model_rows(keys):
    """keys: [(ts_text, cell wire)] -> {key: (ijd | None, end_us | None, text | None)}"""
    keys = list(keys)
    for k in keys:
        if '"' in k[0] or "\n" in k[0]:
            raise ValueError("timestamp TEXT cannot be written as a Coq string literal: %r" % (k[0],))
    terms = [f'sd_row_case (sd_str "{txt}"%string) {fc.coq_float(cell_float(cell))}' for txt, cell in keys]
    outs = fc.run_cases("C03", IMPORTS, terms, tag="sqldate")
    res = {}
    for k, w in zip(keys, outs):
        ijd = w[1] if w[0] == 0 else None
        end = w[3] if w[2] == 0 else None
        text = "".join(map(chr, w[5:])) if w[4] == 0 else None
        res[k] = (ijd, end, text)
    return res


def compare(raw, model):
    """One raw row against the model's answer -> (problem | None, cell deviation in us as a Fraction)."""
    ts_us, dur_us, ts_text, cell, end_text = raw
    ijd, end, text = model[(ts_text, cell)]
    cdev = abs(Fraction(cell_float(cell)) * 10 ** 6 - dur_us)
    if ijd != EPOCH_MS + ts_us // 1000 or ts_us % 1000:
        return f"iJD of the timestamp TEXT {ts_text!r}: model {ijd}, stored instant {ts_us} us", cdev
    if text != end_text:
        return f"row ({ts_text!r}, {cell_float(cell)!r}): model prints {text!r}, SQLite prints {end_text!r}", cdev
    if end is None or end_text is None or end != parse_ms_text(end_text):
        return f"row ({ts_text!r}, {cell_float(cell)!r}): model instant {end} us, printed {end_text!r}", cdev
    return None, cdev
