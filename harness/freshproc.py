"""Evaluate a function in a process forked from a PRISTINE snapshot of the harness process.

History-dependent defects live in state that outlives a call: a memo on a module, a functools cache, a class
attribute, a default mutable argument.  Once one evaluation has run in a process, every later evaluation in that
process starts from polluted state - a script that "fails" there may pass when replayed on its own, and shrinking
would happily drop the steps that caused the pollution.  `Fresh(handler)` forks a zygote at construction time
(the implementation imported, nothing called yet); `run(request)` makes the zygote fork a grandchild that computes
`handler(request)` and dies.  Every evaluation therefore starts from the same clean state, so a request that fails
is a self-contained, replayable history.  (fork, not spawn: a few milliseconds per evaluation.)"""
import atexit
import os
import pickle
import signal
import struct
import sys
import traceback

_EOF = object()


def _write(fd, obj):
    data = pickle.dumps(obj, protocol=4)
    data = struct.pack("<Q", len(data)) + data
    view = memoryview(data)
    while view:
        n = os.write(fd, view)
        view = view[n:]


def _read_exact(fd, n):
    chunks = []
    while n:
        c = os.read(fd, min(n, 1 << 20))
        if not c:
            return None
        chunks.append(c)
        n -= len(c)
    return b"".join(chunks)


def _read(fd):
    hdr = _read_exact(fd, 8)
    if hdr is None:
        return _EOF
    body = _read_exact(fd, struct.unpack("<Q", hdr)[0])
    return _EOF if body is None else pickle.loads(body)


class Fresh:
    def __init__(self, handler, timeout_s=300):
        sys.stdout.flush()
        sys.stderr.flush()
        req_r, self._req_w = os.pipe()
        self._res_r, res_w = os.pipe()
        self._pid = os.fork()
        if self._pid == 0:
            try:
                os.close(self._req_w)
                os.close(self._res_r)
                self._serve(handler, req_r, res_w, timeout_s)
            finally:
                os._exit(0)
        os.close(req_r)
        os.close(res_w)
        self.evaluations = 0
        atexit.register(self.close)

    @staticmethod
    def _serve(handler, req_r, res_w, timeout_s):
        while True:
            req = _read(req_r)
            if req is _EOF:
                return
            r, w = os.pipe()
            pid = os.fork()
            if pid == 0:
                status = 0
                try:
                    os.close(r)
                    signal.alarm(timeout_s)
                    try:
                        out = ("ok", handler(req))
                    except BaseException as ex:  # noqa: BLE001 -- reported to the caller
                        out = ("error", "%s: %s\n%s" % (type(ex).__name__, ex, traceback.format_exc()[-2000:]))
                    _write(w, out)
                except BaseException:  # noqa: BLE001
                    status = 3
                finally:
                    os._exit(status)
            os.close(w)
            out = _read(r)
            os.close(r)
            _, st = os.waitpid(pid, 0)
            if out is _EOF:
                out = ("died", "worker ended with wait status %d without an answer" % st)
            _write(res_w, out)

    def run(self, request):
        """handler(request) evaluated in a fresh fork of the pristine snapshot"""
        if self._pid is None:
            raise RuntimeError("Fresh runner is closed")
        _write(self._req_w, request)
        out = _read(self._res_r)
        self.evaluations += 1
        if out is _EOF:
            raise RuntimeError("the pristine snapshot process is gone")
        if out[0] != "ok":
            raise RuntimeError("evaluation in a fresh process failed: %s" % (out[1],))
        return out[1]

    def close(self):
        if self._pid is None:
            return
        pid, self._pid = self._pid, None
        try:
            os.close(self._req_w)
            os.close(self._res_r)
        except OSError:
            pass
        try:
            os.waitpid(pid, 0)
        except OSError:
            pass
