"""C01, ownership clause ("what is stored is independent of the caller's objects") and the
machinery C12 shares with it.

Tie A for Model/MemHeap.v: a history of storage operations interleaved with caller
mutations is run on the real MemoryStorage and on the extracted heap model
(coq/Extract/ExC12.v).  After every step both sides report
  * the sharing relation: which caller-held values share a mutable object with the store
    and with each other (implementation: id()-walk of every dict/list reachable from the
    values passed in / handed out and from storage.db / storage._metadata, to every depth;
    model: reachable-location sets) -- the implementation-side observation of `Sep`;
  * the content of the store (metadata and events of every bucket) as trees;
  * the content of every caller-held value.
Property oracle (the statement itself, on the implementation, all three back ends): after
every caller mutation, and at the end of every history after mutating EVERY mutable object
reachable from EVERY value that was passed in or handed out, a fresh read of the whole store
(metadata, listing, lookup by id) returns what it returned before.

usable as   python -m harness.c01_own quick      (evidence/C01own.json)
and as      from harness.c01_own import ownership_check   (C01's harness)."""
import copy
import os
import subprocess
import sys
import tempfile
from datetime import datetime, timedelta, timezone

from . import common
from . import edgevals
from .common import Check, sx
from .evutil import BASE, dt, us_of_dt, us_of_td

PH = "<cell>"
EMPTY_DICT, BUCKETS_DICT, EVENT_LIST = 0, -1, -2
ERRCODE = {"KeyError": 4, "ValueError": 5, "IndexError": 6, "AttributeError": 7, "TypeError": 8,
           "QueryFunctionException": 3}
CREATED = "2020-01-01T00:00:00+00:00"


def is_cell(x):
    return isinstance(x, (dict, list))


def kids(x):
    if isinstance(x, dict):
        return [v for v in x.values() if is_cell(v)]
    return [v for v in x if is_cell(v)]


def walk(x, seen=None):
    """every mutable object reachable from x, each once"""
    seen = {} if seen is None else seen
    stack = [x]
    while stack:
        y = stack.pop()
        if not is_cell(y) or id(y) in seen:
            continue
        seen[id(y)] = y
        stack.extend(kids(y))
    return seen


def is_tree(x):
    """no object reachable twice (the model's deepcopy unshares; Python's keeps a memo)"""
    n = [0]
    seen = set()

    def go(y):
        if not is_cell(y):
            return True
        if id(y) in seen:
            return False
        seen.add(id(y))
        return all(go(k) for k in kids(y))
    return go(x)


class View:
    """Python objects -> the model's trees (tags with harness-assigned payload labels)."""

    def __init__(self, Event):
        self.Event = Event
        self.labels = common.Labels()
        assert self.labels.label(("dict", ())) == EMPTY_DICT
        self.special = {}          # id(obj) -> payload of API-built containers

    def tag(self, x):
        if isinstance(x, self.Event):
            extra = tuple((k, v) for k, v in x.items() if k not in ("id", "timestamp", "duration") and not is_cell(v))
            i = x.get("id")
            if extra or not (i is None or isinstance(i, int)):
                return [1, self.labels.label(("event?", repr(sorted(x.items(), key=repr))))]
            ts, du = x.get("timestamp"), x.get("duration")
            return [0, common.opt(i), us_of_dt(ts) if ts is not None else -1, us_of_td(du) if du is not None else -1]
        if id(x) in self.special and self.special[id(x)][1] is x:
            return [1, self.special[id(x)][0]]
        if isinstance(x, dict):
            return [1, self.labels.label(("dict", tuple((k, PH if is_cell(v) else v) for k, v in x.items())))]
        return [1, self.labels.label(("list", tuple(PH if is_cell(v) else v for v in x)))]

    def tree(self, x, depth=0):
        if depth > 40:              # only a defective store lets the caller build a cycle through it
            return [[1, -995], []]
        return [self.tag(x), [self.tree(k, depth + 1) for k in kids(x)]]

    def meta_label(self, b, name, type_, client, hostname):
        d = {"id": b, "name": name or b, "type": type_, "client": client, "hostname": hostname,
             "created": CREATED, "data": PH}
        return self.labels.label(("dict", tuple(d.items())))


def bname(b):
    return "b%d" % b


class World:
    """One storage + the values the caller holds, mirrored op by op into wire ops for the model."""

    def __init__(self, storage, Event, backend, record=True):
        self.st = storage
        self.Event = Event
        self.backend = backend
        self.view = View(Event)
        self.handles = []
        self.wire = []           # s-expression ops for the model
        self.log = []            # human-readable ops for replays
        self.impl_obs = []
        self.record = record
        self.counter = 0
        self.meta = {}           # b -> (name, type, client, hostname) as the harness expects them

    # -- addressing
    def deref(self, ref):
        x = self.handles[ref[0]]
        for i in ref[1:]:
            x = kids(x)[i]
        return x

    def cells(self):
        """(ref, obj) for every mutable object reachable from a handle (first path found)"""
        out, seen = [], set()
        for h, root in enumerate(self.handles):
            stack = [((h,), root)]
            while stack:
                ref, y = stack.pop()
                if id(y) in seen:
                    continue
                seen.add(id(y))
                out.append((ref, y))
                for i, k in enumerate(kids(y)):
                    stack.append((ref + (i,), k))
        return out

    def ref_of(self, obj):
        for ref, y in self.cells():
            if y is obj:
                return ref
        return None

    # -- observation of the implementation
    def store_ids(self):
        if self.backend != "memory":
            return set()
        ids = {id(self.st.db), id(self.st._metadata)}
        for l in self.st.db.values():
            ids.add(id(l))
            for e in l:
                ids.update(walk(e))
        for m in self.st._metadata.values():
            ids.update(walk(m))
        return ids

    def sharing(self):
        sid = self.store_ids()
        sets = [set(walk(h)) for h in self.handles]
        return [[1 if s & sid else 0, [j for j in range(i) if s & sets[j]]] for i, s in enumerate(sets)]

    def store_dump_internal(self):
        v = self.view
        return [[int(b[1:]), v.tree(self.st._metadata[b]), [v.tree(e) for e in self.st.db[b]]] for b in self.st.db]

    def store_dump_api(self):
        """the whole store through the storage API: metadata, listing with ids, lookup by id"""
        out = []
        bs = self.st.buckets()
        for b in sorted(bs):
            evs = self.st.get_events(b, -1)
            rows = []
            for e in evs:
                g = self.st.get_event(b, e.id)
                rows.append((e.id, us_of_dt(e.timestamp), us_of_td(e.duration), copy.deepcopy(e.data),
                             None if g is None else (us_of_dt(g.timestamp), us_of_td(g.duration), copy.deepcopy(g.data))))
            rows.sort(key=lambda r: (r[1], r[0] if r[0] is not None else -1))
            out.append((b, copy.deepcopy(bs[b]), copy.deepcopy(self.st.get_metadata(b)), rows,
                        self.st.get_eventcount(b)))
        return out

    def observe(self, status, ret):
        if self.backend != "memory" or not self.record:
            return
        v = self.view
        self.impl_obs.append([status, ret, self.sharing(), self.store_dump_internal(),
                              [v.tree(h) for h in self.handles]])

    # -- running one storage call
    def call(self, wire, text, f, new_handle=True, special=None):
        self.wire.append(wire)
        self.log.append(text)
        try:
            r = f()
        except Exception as ex:  # noqa: the class is the observation
            code = ERRCODE.get(type(ex).__name__, 10)
            self.observe([1, code], [0])
            return ("err", type(ex).__name__)
        if is_cell(r) and new_handle:
            if special is not None:
                self.view.special[id(r)] = (special, r)
            self.handles.append(r)
            self.observe(0, [1])
        elif isinstance(r, bool):
            self.observe(0, [2, int(r)])
        elif isinstance(r, int):
            self.observe(0, [2, r])
        else:
            self.observe(0, [0])
        return ("ok", r)

    # -- storage operations (refs address caller objects)
    def create_bucket(self, b, dataref=None, name=None, type_="t", client="c", hostname="h"):
        data = self.deref(dataref) if dataref is not None else None
        p = self.view.meta_label(bname(b), name, type_, client, hostname)
        falsy = not data
        r = self.call([0, b, p, [] if falsy else [list(dataref)]],
                      f"create_bucket({bname(b)!r}, data=@{dataref})",
                      lambda: self.st.create_bucket(bname(b), type_, client, hostname, CREATED, name, data))
        if r[0] == "ok":
            self.meta[b] = [name or bname(b), type_, client, hostname]
        return r

    def update_bucket(self, b, dataref=None, name=None, type_=None, client=None, hostname=None):
        data = self.deref(dataref) if dataref is not None else None
        cur = self.meta.get(b)
        p = []
        if cur is not None and (name or type_ or client or hostname):
            new = [name or cur[0], type_ or cur[1], client or cur[2], hostname or cur[3]]
            p = [self.view.meta_label(bname(b), new[0], new[1], new[2], new[3])]
        else:
            new = cur
        r = self.call([1, b, p, [] if not data else [list(dataref)]],
                      f"update_bucket({bname(b)!r}, name={name!r}, type={type_!r}, data=@{dataref})",
                      lambda: self.st.update_bucket(bname(b), type_, client, hostname, name, data))
        if r[0] == "ok" and cur is not None:
            self.meta[b] = new
        return r

    def delete_bucket(self, b):
        r = self.call([2, b], f"delete_bucket({bname(b)!r})", lambda: self.st.delete_bucket(bname(b)))
        if r[0] == "ok":
            self.meta.pop(b, None)
        return r

    def get_metadata(self, b):
        return self.call([3, b], f"get_metadata({bname(b)!r})", lambda: self.st.get_metadata(bname(b)))

    def buckets(self):
        return self.call([4], "buckets()", lambda: self.st.buckets(), special=BUCKETS_DICT)

    def insert_one(self, b, ref):
        e = self.deref(ref)
        return self.call([5, b, list(ref)], f"insert_one({bname(b)!r}, @{ref})", lambda: self.st.insert_one(bname(b), e))

    def insert_many(self, b, refs):
        es = [self.deref(r) for r in refs]
        return self.call([6, b, [list(r) for r in refs]], f"insert_many({bname(b)!r}, @{refs})",
                         lambda: self.st.insert_many(bname(b), es))

    def replace(self, b, i, ref):
        e = self.deref(ref)
        return self.call([7, b, i, list(ref)], f"replace({bname(b)!r}, {i}, @{ref})",
                         lambda: self.st.replace(bname(b), i, e) and None)

    def replace_last(self, b, ref):
        e = self.deref(ref)
        return self.call([8, b, list(ref)], f"replace_last({bname(b)!r}, @{ref})",
                         lambda: self.st.replace_last(bname(b), e) and None)

    def get_event(self, b, i):
        return self.call([9, b, i], f"get_event({bname(b)!r}, {i})", lambda: self.st.get_event(bname(b), i))

    def get_events(self, b, limit=-1, st=None, en=None):
        return self.call([10, b, limit, common.opt(st), common.opt(en)],
                         f"get_events({bname(b)!r}, {limit}, {st}, {en})",
                         lambda: self.st.get_events(bname(b), limit, None if st is None else dt(st),
                                                    None if en is None else dt(en)),
                         special=EVENT_LIST)

    def get_eventcount(self, b, st=None, en=None):
        return self.call([11, b, common.opt(st), common.opt(en)], f"get_eventcount({bname(b)!r}, {st}, {en})",
                         lambda: self.st.get_eventcount(bname(b), None if st is None else dt(st),
                                                        None if en is None else dt(en)))

    def delete(self, b, i):
        return self.call([12, b, i], f"delete({bname(b)!r}, {i})", lambda: bool(self.st.delete(bname(b), i)))

    # -- the caller
    def alloc(self, obj):
        """a new value built by the caller: one model cell (and one handle) per mutable object,
        children first"""
        for k in kids(obj):
            if self.ref_of(k) is None:
                self.alloc(k)
        refs = [list(self.ref_of(k)) for k in kids(obj)]
        self.wire.append([13, self.view.tag(obj), refs])
        self.log.append(f"caller builds {type(obj).__name__} {obj!r}"[:200])
        self.handles.append(obj)
        self.observe(0, [1])
        return (len(self.handles) - 1,)

    def rewrite(self, ref, obj, child_objs, text):
        """obj (at ref) has been mutated in place; tell the model its new tag and children"""
        refs = []
        for k in child_objs:
            r = self.ref_of(k)
            assert r is not None
            refs.append(list(r))
        self.view.special.pop(id(obj), None)
        self.wire.append([14, list(ref), self.view.tag(obj), refs])
        self.log.append(text)
        self.observe(0, [0])

    def drop_all(self):
        """the caller forgets every value it holds (always legitimate; keeps the comparison small)"""
        self.wire.append([19])
        self.log.append("caller drops every value it holds")
        self.handles.clear()
        self.view.special.clear()
        self.observe(0, [0])

    def fresh(self):
        self.counter += 1
        return "x%d" % self.counter

    def mut_scalar(self, ref, rng):
        obj = self.deref(ref)
        before = kids(obj)
        refs_before = [ref + (i,) for i in range(len(before))]
        if isinstance(obj, self.Event):
            k = rng.choice(["duration", "timestamp", "id"])
            if k == "duration":
                obj["duration"] = obj.duration + timedelta(milliseconds=rng.choice([1, 500, 7000]))
            elif k == "timestamp":
                obj["timestamp"] = obj.timestamp + timedelta(seconds=rng.choice([1, -1, 60]))
            else:
                obj["id"] = rng.choice([None, 0, 1, 2, 5])
            text = f"caller sets {k} of @{ref}"
        elif isinstance(obj, dict):
            key = rng.choice([k for k, v in obj.items() if not is_cell(v)] + ["_m"])
            obj[key] = self.fresh()
            text = f"caller sets @{ref}[{key!r}]"
        else:
            obj.append(self.fresh())
            text = f"caller appends a scalar to @{ref}"
        # the wire op is resolved against the model's state before the write: same children
        self.view.special.pop(id(obj), None)
        self.wire.append([14, list(ref), self.view.tag(obj), [list(r) for r in refs_before]])
        self.log.append(text)
        self.observe(0, [0])

    def mut_drop(self, ref, rng):
        obj = self.deref(ref)
        ks = kids(obj)
        if not ks:
            return False
        i = rng.randrange(len(ks))
        refs = [list(ref + (j,)) for j in range(len(ks)) if j != i]
        if isinstance(obj, dict):
            key = [k for k, v in obj.items() if v is ks[i]][0]
            del obj[key]
        else:
            idx = [n for n, v in enumerate(obj) if v is ks[i]][0]
            obj.pop(idx)
        self.view.special.pop(id(obj), None)
        self.wire.append([14, list(ref), self.view.tag(obj), refs])
        self.log.append(f"caller removes child {i} of @{ref}")
        self.observe(0, [0])
        return True

    def mut_graft(self, pref, cref):
        parent, child = self.deref(pref), self.deref(cref)
        root = self.handles[pref[0]]
        if isinstance(parent, self.Event):
            return False
        if set(walk(child)) & set(walk(root)):
            return False          # would create a cycle or internal sharing
        if any(i in self.view.special for i in walk(child)):
            return False          # API-built containers carry a positional payload label
        refs = [list(pref + (j,)) for j in range(len(kids(parent)))] + [list(cref)]
        if isinstance(parent, dict):
            parent["g" + self.fresh()] = child
        else:
            parent.append(child)
        self.view.special.pop(id(parent), None)
        self.wire.append([14, list(pref), self.view.tag(parent), refs])
        self.log.append(f"caller stores a reference to @{cref} in @{pref}")
        self.observe(0, [0])
        return True


# ---------------------------------------------------------------------------
# generators

def rand_json(rng, depth=0):
    d = {}
    for k in rng.sample(["app", "title", "k", "n", "url", "afk"], rng.randrange(0, 4)):
        r = rng.random()
        if depth < 3 and r < 0.35:
            d[k] = rand_json(rng, depth + 1)
        elif depth < 3 and r < 0.5:
            d[k] = [rand_json(rng, depth + 1) if rng.random() < 0.5 else rng.choice([1, "s", None, 2.5])
                    for _ in range(rng.randrange(0, 3))]
        else:
            d[k] = rng.choice([1, 1.5, "a", "b\"q", "é中", None, True, 0])
    # round 5: the containers a caller hands over are not always exact dict / list: OrderedDict, defaultdict, a list
    # subclass (harness/edgevals.py), at any depth, below and above plain ones
    r = rng.random()
    if r < 0.12:
        d = edgevals.ODict(d)
    elif r < 0.2:
        dd = edgevals.DDict(list)
        dd.update(d)
        d = dd
    if rng.random() < 0.2:
        for k in list(d):
            if type(d[k]) is list:
                d[k] = edgevals.ListSub(d[k])
    return d


def rand_event(rng, Event, with_id=False):
    t = BASE + rng.choice([0, 1, 2, 3, 5, 8]) * 1_000_000 + rng.choice([0, 0, 1000, 999000])
    d = rng.choice([0, 0, 1000, 1_000_000, 2_500_000, 60_000_000])
    return Event(id=rng.choice([0, 1, 2, 7]) if with_id else None, timestamp=dt(t),
                 duration=timedelta(microseconds=d), data=rand_json(rng))


def corpus(Event):
    """deterministic boundary histories: every operation, both insert paths, every error
    class, nested data, objects shared between caller values"""
    T = lambda s: dt(BASE + s * 1_000_000)
    ev = lambda s, d, data, i=None: Event(id=i, timestamp=T(s), duration=timedelta(seconds=d), data=data)

    def w01(w, rng):
        w.create_bucket(1)
        e = w.alloc(ev(0, 1, {"k": {"n": 1}}))
        w.insert_one(1, e)
        r = (len(w.handles) - 1,)
        w.mut_scalar(e + (0, 0), rng)
        w.get_events(1)
        w.mut_scalar(r + (0, 0), rng)
        w.mut_scalar(r, rng)
        w.get_events(1)
        w.get_metadata(1)
        w.mut_scalar((len(w.handles) - 1,), rng)
        w.get_metadata(1)
        e2 = w.alloc(ev(5, 1, {"k": {"n": 1}}))
        w.replace(1, 0, e2)
        w.mut_scalar(e2 + (0, 0), rng)
        w.get_events(1)

    def ids_and_replace(w, rng):
        w.create_bucket(1)
        w.create_bucket(2)
        a = w.alloc(ev(0, 1, {"a": [{"x": 1}, {"y": [1, {"z": 2}]}]}))
        b = w.alloc(ev(3, 2, {"b": {}}))
        c = w.alloc(ev(3, 0, {}, i=0))
        w.insert_many(1, [a, b])
        w.insert_one(1, c)               # id given: replace path
        w.insert_one(2, c)               # id given, nothing to replace
        w.replace_last(1, a)
        w.replace_last(2, a)             # empty bucket: IndexError
        w.get_event(1, 1)
        w.get_event(1, 9)                # None
        w.mut_drop(a + (0, 0), rng)
        w.mut_scalar(a + (0, 0, 0), rng)
        w.get_events(1, 1)
        w.get_events(1, 0)
        w.get_events(1, -1, BASE + 2_000_000, BASE + 3_000_000)
        w.get_eventcount(1, BASE + 2_000_000, None)
        w.delete(1, 0)
        w.delete(1, 0)
        w.buckets()
        w.mut_scalar((len(w.handles) - 1, 0), rng)
        w.buckets()

    def metadata(w, rng):
        d = w.alloc({"owner": {"n": [1, {"deep": True}]}})
        w.create_bucket(1, d, name="named")
        w.mut_scalar(d + (0,), rng)
        w.mut_scalar(d + (0, 0, 0), rng)
        w.get_metadata(1)
        m = (len(w.handles) - 1,)
        w.mut_scalar(m + (0, 0), rng)
        w.update_bucket(1, d, type_="t2")
        w.mut_drop(d + (0,), rng)
        w.get_metadata(1)
        w.update_bucket(1, None, name="n3")
        w.update_bucket(1, w.alloc({}))   # falsy data: not stored
        w.update_bucket(3)                # ValueError
        w.get_metadata(3)
        w.create_bucket(1)                # re-create: wipes events, keeps position
        w.create_bucket(2)
        w.delete_bucket(1)
        w.delete_bucket(1)
        w.create_bucket(1, d)
        w.buckets()

    def missing(w, rng):
        e = w.alloc(ev(0, 1, {"k": {}}))
        w.insert_one(1, e)
        w.get_events(1)
        w.get_event(1, 0)
        w.replace(1, 0, e)
        w.replace_last(1, e)
        w.delete(1, 0)
        w.get_eventcount(1)
        w.insert_many(1, [e])
        w.create_bucket(1)
        w.insert_one(1, e)

    def shared_between_values(w, rng):
        w.create_bucket(1)
        a = w.alloc(ev(0, 1, {"k": {"n": 1}}))
        b = w.alloc(ev(1, 1, {"j": {}}))
        w.mut_graft(b + (0,), a + (0, 0))      # b.data["g.."] = a.data["k"]
        w.insert_many(1, [a, b])
        w.mut_scalar(a + (0, 0), rng)          # seen through both caller events, not the store
        w.get_events(1)
        g = (len(w.handles) - 1,)
        w.insert_one(1, g + (0,))              # re-insert a handed-out event (has an id: replace)
        w.mut_scalar(g + (0, 0), rng)
        w.mut_graft(a + (0,), g + (1, 0))
        w.replace(1, 0, a)
        w.mut_scalar(g + (1, 0), rng)
        w.get_events(1)

    def subclass_containers(w, rng):
        """w01 / metadata again with data built from dict / list subclasses at every depth (a copy that dispatches on
        the exact type shares them), through every call that takes a caller object"""
        for k, style in enumerate(("odict", "ddict", "listsub", "mixed", "all")):
            b = k + 1
            d = w.alloc(edgevals.dress({"owner": {"n": [1, {"deep": True}]}, "l": [[1], {"q": []}]}, style))
            w.create_bucket(b, d, name="named")
            w.mut_scalar(d + (0,), rng)
            w.mut_scalar(d + (1, 0), rng)
            w.get_metadata(b)
            e = w.alloc(ev(0, 1, edgevals.dress({"k": {"n": [1, {"z": 2}]}, "t": [{"x": 1}, [2]]}, style)))
            w.insert_one(b, e)
            w.mut_scalar(e + (0, 0), rng)
            w.mut_scalar(e + (0, 1), rng)
            w.mut_scalar(e + (0, 0, 0), rng)
            e2 = w.alloc(ev(2, 1, edgevals.dress({"k": {"n": [1]}, "t": [{"x": 1}]}, style)))
            e3 = w.alloc(ev(3, 1, edgevals.dress({"a": [{"y": [1, {"z": 2}]}]}, style)))
            w.insert_many(b, [e2, e3])
            w.mut_scalar(e2 + (0, 0), rng)
            w.mut_scalar(e3 + (0, 0, 0), rng)
            w.get_events(b)
            w.replace(b, 0, e3)
            w.mut_scalar(e3 + (0, 0), rng)
            w.replace_last(b, e2)
            w.mut_scalar(e2 + (0, 1), rng)
            w.update_bucket(b, d, type_="t2")
            w.mut_scalar(d + (0, 0), rng)
            w.get_events(b)
            w.drop_all()

    return [w01, ids_and_replace, metadata, missing, shared_between_values, subclass_containers]


def random_history(w, rng, Event, n_ops):
    nb = rng.choice([1, 2, 3])
    for b in range(1, nb + 1):
        if rng.random() < 0.9:
            w.create_bucket(b, w.alloc(rand_json(rng)) if rng.random() < 0.4 else None)
    for _ in range(n_ops):
        b = rng.randrange(1, nb + 1) if rng.random() < 0.95 else nb + 1
        cells = w.cells()
        events = [r for r, o in cells if isinstance(o, Event) and is_tree(o)]
        dicts = [r for r, o in cells if isinstance(o, dict) and not isinstance(o, Event)
                 and id(o) not in w.view.special and is_tree(o)]
        x = rng.random()
        if x < 0.16 or not events:
            w.alloc(rand_event(rng, Event, with_id=rng.random() < 0.15))
        elif x < 0.30:
            w.insert_one(b, rng.choice(events))
        elif x < 0.35:
            w.insert_many(b, [rng.choice(events) for _ in range(rng.randrange(0, 4))])
        elif x < 0.41:
            w.replace(b, rng.choice([0, 1, 2, 3]), rng.choice(events))
        elif x < 0.45:
            w.replace_last(b, rng.choice(events))
        elif x < 0.52:
            w.get_events(b, rng.choice([-1, -1, 0, 1, 2]),
                         rng.choice([None, BASE, BASE + 2_000_000]), rng.choice([None, BASE + 3_000_000, BASE + 9_000_000]))
        elif x < 0.56:
            w.get_event(b, rng.choice([0, 1, 2, 5]))
        elif x < 0.58:
            w.get_eventcount(b, rng.choice([None, BASE + 1_000_000]), rng.choice([None, BASE + 4_000_000]))
        elif x < 0.61:
            w.delete(b, rng.choice([0, 1, 2]))
        elif x < 0.65:
            w.get_metadata(b)
        elif x < 0.68:
            w.buckets()
        elif x < 0.72:
            w.update_bucket(b, rng.choice(dicts) if dicts and rng.random() < 0.6 else None,
                            name=rng.choice([None, "n" + w.fresh()]), type_=rng.choice([None, "ty"]))
        elif x < 0.74:
            w.create_bucket(b, rng.choice(dicts) if dicts and rng.random() < 0.5 else None)
        elif x < 0.75:
            w.delete_bucket(b)
        elif x < 0.90:
            w.mut_scalar(rng.choice(cells)[0], rng)
        elif x < 0.95:
            w.mut_drop(rng.choice(cells)[0], rng)
        else:
            if len(cells) >= 2:
                w.mut_graft(rng.choice(cells)[0], rng.choice(cells)[0])


# ---------------------------------------------------------------------------
# the property oracle on the implementation

def mutate_everything(w):
    """mutate every mutable object reachable from every caller-held value, at every depth"""
    n = 0
    for obj in list(walk_all(w.handles).values()):
        n += 1
        if isinstance(obj, w.Event):
            obj["duration"] = timedelta(seconds=12345)
            obj["timestamp"] = datetime(1999, 1, 1, tzinfo=timezone.utc)
            obj["id"] = 424242
            obj["extra"] = "mutated"
        elif isinstance(obj, dict):
            for k in list(obj):
                if not is_cell(obj[k]):
                    obj[k] = "mutated"
            obj["_mutated"] = n
        else:
            for i in range(len(obj)):
                if not is_cell(obj[i]):
                    obj[i] = "mutated"
            obj.append("mutated")
    return n


def walk_all(values):
    seen = {}
    for v in values:
        walk(v, seen)
    return seen


def run_history(ck, backend, make_storage, Event, builder, rng, label):
    """run one history; the oracle is evaluated after each caller mutation and at the end"""
    storage = make_storage()
    w = World(storage, Event, backend)
    prev = {"dump": None, "n": 0}
    orig_rewrite_points = []

    # wrap the caller mutations so that the store is read before and after each of them
    def guarded(f):
        def g(*a, **k):
            before = w.store_dump_api()
            r = f(*a, **k)
            after = w.store_dump_api()
            if before != after:
                ck.failing_input("C01:caller-mutation-changes-store",
                                 f"[{backend}] a caller-side mutation changed what the store returns: {w.log[-1]}",
                                 {"backend": backend, "history": list(w.log), "before": before, "after": after,
                                  "label": label})
            return r
        return g
    for name in ("mut_scalar", "mut_drop", "mut_graft"):
        setattr(w, name, guarded(getattr(w, name)))
    try:
        builder(w, rng)
    except (IndexError, RecursionError, AssertionError) as ex:
        # a reference of the history no longer resolves: only possible when the store shares
        # objects with the caller (the harness's own bookkeeping assumes separation)
        ck.disagreement("ownership", f"history could not be completed on {backend}: {type(ex).__name__}: {ex}",
                        {"history": list(w.log), "label": label})
    # identity: nothing handed out or passed in may BE a stored object (memory), and on every
    # back end mutating everything the caller holds must not change any later read
    before = w.store_dump_api()
    if backend == "memory":
        shared = set(walk_all(w.handles)) & w.store_ids()
        if shared:
            ck.failing_input("C01:caller-value-shares-object-with-store",
                             f"[memory] {len(shared)} mutable object(s) are reachable both from a caller-held value and from the store",
                             {"backend": backend, "history": list(w.log), "label": label})
    n = mutate_everything(w)
    after = w.store_dump_api()
    if before != after:
        diff = [(a, b) for a, b in zip(before, after) if a != b][:1]
        ck.failing_input("C01:caller-mutation-changes-store",
                         f"[{backend}] after mutating all {n} objects reachable from the values passed in / handed out, "
                         f"the store reads differently",
                         {"backend": backend, "history": list(w.log), "first_difference": diff, "label": label})
    ck.count(f"{backend}:histories")
    ck.count(f"{backend}:ops", len(w.log))
    ck.count(f"{backend}:objects-mutated-at-end", n)
    return w


def compare_with_model(ck, prop, worlds, stream):
    """memory histories vs the extracted MemHeap model"""
    cases = [sx(w.wire) for w in worlds]
    model = common.run_driver(prop, cases)
    for w, mo in zip(worlds, model):
        io = w.impl_obs
        ok = len(mo) == len(io)
        where = None
        if ok:
            for k, (m, i) in enumerate(zip(mo, io)):
                if m != i:
                    ok, where = False, k
                    break
        if not ok:
            k = where if where is not None else min(len(mo), len(io)) - 1
            names = ["status", "returned", "sharing (store?, earlier handles)", "store content", "caller values"]
            part = "length"
            if where is not None and isinstance(mo[k], list) and len(mo[k]) == 5:
                part = ", ".join(n for n, a, b in zip(names, mo[k], io[k]) if a != b)
            ck.disagreement(stream, f"step {k} ({w.log[k] if 0 <= k < len(w.log) else '?'}): model and MemoryStorage differ in: {part}",
                            {"history": w.log[:k + 1], "wire": sx(w.wire[:k + 1]),
                             "model": mo[k] if 0 <= k < len(mo) else None, "impl": io[k] if 0 <= k < len(io) else None})
        nontriv = any(op[0] == 14 for op in w.wire) and any(op[0] in (5, 6, 7, 8) for op in w.wire)
        ck.note_case(w.wire, nontrivial=nontriv)


def make_memory():
    from aw_datastore.storages import MemoryStorage
    return MemoryStorage(testing=True)


class SqlFactory:
    def __init__(self, kind):
        self.kind = kind
        self.dir = tempfile.mkdtemp(prefix="awown-")
        self.n = 0
        self.last = None

    def __call__(self):
        self.n += 1
        path = os.path.join(self.dir, f"{self.kind}{self.n}.db")
        if self.kind == "sqlite":
            from aw_datastore.storages import SqliteStorage
            self.close()
            self.last = SqliteStorage(testing=True, filepath=path)
        else:
            from aw_datastore.storages import PeeweeStorage
            self.close()
            self.last = PeeweeStorage(testing=True, filepath=path)
        return self.last

    def close(self):
        if self.last is None:
            return
        try:
            if self.kind == "sqlite":
                self.last.conn.close()
            else:
                self.last.db.close()
        except Exception:
            pass
        self.last = None


def ownership_check(ck, prop_driver="C01own", n_random=None, backends=("memory", "sqlite", "peewee"),
                    have_driver=True):
    """the whole ownership check; `ck` is the caller's Check, the driver is build/<prop_driver>/driver
    (ExC12.v)"""
    from aw_core.models import Event
    quick = ck.tier == "quick"
    n_random = n_random if n_random is not None else (150 if quick else 6000)
    seeds = [ck.rng.randrange(1 << 30) for _ in range(n_random)]
    import random
    for backend in backends:
        if backend == "memory":
            make = make_memory
            n = n_random
        else:
            make = SqlFactory(backend)
            n = max(10, n_random // 6)
        worlds = []
        for i, b in enumerate(corpus(Event)):
            worlds.append(run_history(ck, backend, make, Event, b, random.Random(i), f"corpus:{b.__name__}"))
        for i in range(n):
            rng = random.Random(seeds[i])
            n_ops = rng.randrange(4, 28)
            worlds.append(run_history(ck, backend, make, Event,
                                      lambda w, r: random_history(w, r, Event, n_ops), rng, f"random:{seeds[i]}"))
        if backend == "memory":
            if have_driver:
                compare_with_model(ck, prop_driver, worlds, "ownership")
            for w in worlds[:3]:
                ck.sample({"backend": backend, "history": w.log[:12], "sharing_after_last_step": w.impl_obs[-1][2] if w.impl_obs else None})
        else:
            make.close()
            for w in worlds:
                ck.note_case([backend, w.log], nontrivial=any("caller sets" in t for t in w.log))
    ck.assumptions += [
        "heap model: a cell per mutable Python object (Event, dict, list); immutable scalars are folded into payload labels assigned by the harness",
        "the model's deepcopy does not keep a memo (it unshares objects reachable twice inside one copied value); "
        "the generator only hands tree-shaped values to the store",
        "SQL back ends: rows are decoded into new objects on every read (checked by the oracle, not modelled)",
    ]


def prepare(ck):
    """for C01's harness: build the heap model's driver in its own directory (build/C01own), then call
    ownership_check(ck, "C01own", have_driver=ok); Props/C01own.v is built by ck.prove(extra_targets=["Props/C01own.v"])"""
    ok = common.build_driver("C01own", ck.log, "ExC12")[0]
    if not ok:
        ck.broken.append("heap model no longer extracts/compiles (ExC12)")
    return ok


RULE = ("deterministic boundary histories (every operation of the storage API, both insert paths, every error class, "
        "nested data, objects shared between caller values) then seeded random histories of 4-27 steps over 1-3 buckets "
        "interleaving storage calls with caller mutations (scalar change, reference removed, reference to another caller "
        "object stored) at every depth; non-trivial = a history that both writes to the store and mutates a caller object")


def main(argv=None):
    ck = Check("C01own", argv)
    common.setup_impl_env()
    ck.run_witnesses(["w01"])
    ck.prove(props_file="Props/C01own.v")
    ok = prepare(ck)
    ownership_check(ck, "C01own", have_driver=ok)
    return ck.finish(RULE)


if __name__ == "__main__":
    sys.exit(main())
