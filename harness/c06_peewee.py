"""Child process of the C06 check: drives the real PeeweeStorage (one module-level database
object per process) and observes the file through a second connection before every write
statement and after every call.  Prints one JSON line.
usage: python -m harness.c06_peewee <seed> <n_histories>   |   ... replay '<json steps>'"""
import json
import os
import random
import sqlite3
import sys
import tempfile
from datetime import timedelta

from . import common
from .c06_lib import Shadow, T0, WRITE_KW, schema_of, scratch_dir


def pw_dump(conn):
    bk = conn.execute("SELECT * FROM bucketmodel ORDER BY key").fetchall()
    n = conn.execute("SELECT count(*) FROM eventmodel").fetchone()[0]
    if n <= 150:
        ev = conn.execute("SELECT id, bucket_id, timestamp, duration, datastr FROM eventmodel ORDER BY id").fetchall()
    else:
        ev = conn.execute("SELECT sum(id), sum(id * bucket_id), sum(id * (cast(substr(datastr, 7) AS INTEGER) % 1000003)), "
                          "sum(id * cast(duration AS INTEGER)), sum(id * length(timestamp)), max(id), min(id) FROM eventmodel").fetchall()
    return (n, len(bk), hash((tuple(ev), tuple(bk))))


class PwRun:
    def __init__(self, pw, Event, path):
        self.Event = Event
        self.st = pw.PeeweeStorage(testing=True, filepath=path)
        self.conn = self.st.db.connection()
        self.c2 = sqlite3.connect(path, isolation_level=None)
        self.shadow = Shadow(schema_of(self.c2), dumper=pw_dump)
        self.units = 0              # rows inserted + other write statements, so far
        self.stmts = 0
        self.cur_rows = []
        self.cur_units = []
        self.viol = []
        self.anomalies = []
        self.counter = 0
        self.steps = []
        self.conn.set_trace_callback(self.on_stmt)

    def on_stmt(self, sql):
        try:
            head = sql.lstrip().split(None, 1)[0].upper()
            if head in ("BEGIN", "COMMIT", "SAVEPOINT", "RELEASE", "ROLLBACK"):
                self.anomalies.append("explicit transaction statement " + head)
                return
            if head not in WRITE_KW:
                return
            # crash point before this statement: everything issued before must be there
            if pw_dump(self.c2) != self.shadow.digests[self.stmts]:
                self.viol.append(("C06:peewee-statement-not-durable",
                                  f"before write statement #{self.stmts + 1} of call {self.steps[-1]}: the second "
                                  f"connection does not see the effect of the {self.stmts} statements issued so far"))
            rc = self.shadow.apply(sql)
            if rc is None:
                return
            self.stmts += 1
            rows = rc if head == "INSERT" else 1
            self.units += rows
            self.cur_rows.append(rows)
            self.cur_units.append(self.units)
        except Exception as ex:
            self.anomalies.append(f"recorder error {type(ex).__name__}: {ex}")

    def ids(self, b):
        return [r[0] for r in self.shadow.db.execute(
            "SELECT id FROM eventmodel WHERE bucket_id = (SELECT key FROM bucketmodel WHERE id = ?) ORDER BY id", [b])]

    def buckets(self):
        return [r[0] for r in self.shadow.db.execute("SELECT id FROM bucketmodel ORDER BY key")]

    def ev(self, eid=None):
        self.counter += 1
        return self.Event(id=eid, timestamp=T0 + timedelta(seconds=self.counter), duration=timedelta(seconds=1),
                          data={"n": self.counter})

    def expected_op(self, spec):
        name = spec[0]
        have = set(self.buckets())
        b = spec[1] if len(spec) > 1 else None
        if name == "create_bucket":
            return [13] if b in have else [0, 0]
        if name in ("get_event", "get_events", "get_eventcount", "buckets", "get_metadata"):
            return [11]
        if b not in have:
            return [13]
        if name == "update_bucket":
            return [1, 0]
        if name == "delete_bucket":
            return [2, 0, 0]
        if name == "insert_one":
            return [3, 0]
        if name == "insert_many":
            return [4, [0] * len(spec[2]), [0] * spec[3]]
        if name == "replace_last":
            return [5, 0] if self.ids(b) else [13]
        if name == "replace":
            return [6, 0] if spec[2] in self.ids(b) else [13]
        if name == "delete":
            return [7, 0]
        raise RuntimeError(name)

    def call(self, spec):
        st = self.st
        spec = tuple(tuple(x) if isinstance(x, list) else x for x in spec)
        self.steps.append(list(spec))
        op = self.expected_op(spec)
        self.cur_rows, self.cur_units = [], []
        name = spec[0]
        out = None
        try:
            if name == "create_bucket":
                st.create_bucket(spec[1], "t", "c", "h", T0.isoformat(), None, None)
            elif name == "update_bucket":
                st.update_bucket(spec[1], data={"v": spec[2]})
            elif name == "delete_bucket":
                st.delete_bucket(spec[1])
            elif name == "insert_one":
                st.insert_one(spec[1], self.ev())
            elif name == "insert_many":
                st.insert_many(spec[1], [self.ev(i) for i in spec[2]] + [self.ev() for _ in range(spec[3])])
            elif name == "replace":
                st.replace(spec[1], spec[2], self.ev())
            elif name == "replace_last":
                st.replace_last(spec[1], self.ev())
            elif name == "delete":
                st.delete(spec[1], spec[2])
            elif name == "get_events":
                st.get_events(spec[1], spec[2])
            elif name == "get_eventcount":
                st.get_eventcount(spec[1])
            elif name == "get_event":
                st.get_event(spec[1], spec[2])
            elif name == "buckets":
                st.buckets()
            else:
                raise RuntimeError(name)
        except Exception as ex:
            out = type(ex).__name__
        # the call is complete: everything it issued must be durable
        if pw_dump(self.c2) != self.shadow.digests[self.stmts]:
            self.viol.append(("C06:peewee-completed-op-not-durable",
                              f"after call {list(spec)} returned: the second connection does not see the effect of "
                              f"all {self.stmts} statements issued"))
        return op, self.cur_rows, self.cur_units, out

    def close(self):
        self.conn.set_trace_callback(None)
        own = pw_dump(self.conn) == self.shadow.digests[self.stmts]
        self.c2.close()
        self.st.db.close()
        return own


def gen_steps(rng, run, n_calls):
    names = ["a", "b"]
    yield ("create_bucket", "a")
    for _ in range(n_calls):
        have = run.buckets()
        if not have:
            yield ("create_bucket", rng.choice(names))
            continue
        b = rng.choice(have) if rng.random() < 0.96 else rng.choice(names + ["nope"])
        ids = run.ids(b) if b in have else []
        some = (lambda: rng.choice(ids)) if ids else (lambda: 1)
        x = rng.random()
        if x < 0.30:
            yield ("insert_one", b)
        elif x < 0.45:
            ups = tuple(rng.sample(ids, min(len(ids), rng.choice([0, 0, 1, 3]))))
            yield ("insert_many", b, ups, rng.choice([0, 1, 2, 50, 99, 100, 101, 199, 200, 201, 250]))
        elif x < 0.55:
            yield ("delete", b, some() if rng.random() < 0.9 else 99999)
        elif x < 0.65:
            yield ("replace", b, some() if rng.random() < 0.9 else 99999)
        elif x < 0.75:
            yield ("replace_last", b)
        elif x < 0.80:
            yield ("create_bucket", rng.choice(names))
        elif x < 0.86:
            yield ("update_bucket", b, rng.randrange(5))
        elif x < 0.88:
            yield ("delete_bucket", b)
        elif x < 0.93:
            yield ("get_events", b, rng.choice([0, 1, -1]))
        elif x < 0.96:
            yield ("get_eventcount", b)
        else:
            yield ("buckets",)


def run_one(pw, Event, tmp, i, steps_or_gen):
    run = PwRun(pw, Event, os.path.join(tmp, f"p{i}.db"))
    ops, rows, units, calls = [], [], [], []
    it = steps_or_gen(run) if callable(steps_or_gen) else steps_or_gen
    for spec in it:
        op, r, u, out = run.call(spec)
        ops.append(op)
        rows.append(r)
        units.append(u)
        calls.append(list(spec))
    own = run.close()
    if not own:
        run.anomalies.append("the store's own connection does not see the effect of all issued statements")
    return run, {"ops": ops, "stmt_rows": rows, "db_units": units, "calls": calls}


def main():
    tmp = common.setup_impl_env()
    import aw_datastore.storages.peewee as pw
    from aw_core.models import Event
    work = scratch_dir()
    res = {"histories": [], "violations": [], "anomalies": [], "counts": {}}
    if sys.argv[1] == "replay":
        run, h = run_one(pw, Event, work, 0, json.loads(sys.argv[2]))
        print(json.dumps({"violations": run.viol, "anomalies": run.anomalies, "rows_per_statement": h["stmt_rows"]}, indent=1))
        return 1 if run.viol else 0
    seed, n = int(sys.argv[1]), int(sys.argv[2])
    rng = random.Random(seed)
    cnt = res["counts"]
    for i in range(n):
        run, h = run_one(pw, Event, work, i, lambda r: gen_steps(rng, r, rng.randrange(30, 90)))
        res["histories"].append(h)
        seen = set()
        for sig, desc in run.viol:
            if sig not in seen:
                seen.add(sig)
                res["violations"].append({"signature": sig, "description": desc, "replay": {
                    "steps": h["calls"],
                    "rerun": "PYTHONPATH=%s:%s /venv/bin/python -m harness.c06_peewee replay '%s'" % (
                        common.REPO, common.VERIF, json.dumps(h["calls"]))}})
        res["anomalies"] += run.anomalies[:3]
        cnt["histories"] = cnt.get("histories", 0) + 1
        cnt["calls"] = cnt.get("calls", 0) + len(h["calls"])
        cnt["write-statements"] = cnt.get("write-statements", 0) + run.stmts
        cnt["bulk-statements>1row"] = cnt.get("bulk-statements>1row", 0) + sum(1 for r in h["stmt_rows"] for x in r if x > 1)
    import shutil
    shutil.rmtree(work, ignore_errors=True)
    print(json.dumps(res))
    return 0


if __name__ == "__main__":
    sys.exit(main())
