"""Edge INPUT TYPES and values for the storage checks (round 5, fixer fix6-data).  No aw-core import here.

JSON data as a caller really hands it over is not always built from exact `dict` / `list` / `str` / `int`:
`json.load(object_pairs_hook=OrderedDict)`, `defaultdict` / `Counter` accumulators, list subclasses of client
libraries, str / int subclasses (enum mix-ins, `bool` is one) are all accepted by `json.dumps`, compare `==` to the
plain structure and are deep-copied as what they are.  Code that dispatches on the EXACT type (`type(v) is dict`)
treats them as opaque scalars.  And text is not always well-formed Unicode: a window title cut in the middle of an
emoji by a UTF-16 based watcher holds a LONE surrogate; Python, JSON (ASCII escapes) and all three stores carry it.

* `ODict`, `DDict`, `ListSub`, `StrSub`, `IntSub`: the container / scalar classes used.
  (collections.UserDict is NOT a dict - json.dumps refuses it - and is left out.)
* `dress(v, style)`: the plain JSON value `v` rebuilt with subclass containers (and scalars) at every depth;
  `plain(v)` the way back.  `dress(v, s) == v` and `json.dumps(dress(v, s)) == json.dumps(v)` for every style.
* `tagged(v)` / `untag(t)`: a JSON-able description that keeps the classes (replay files).
* `EDGE_STRINGS` / `EDGE_DATA`: strings with a lone high / lone low surrogate (never a high directly followed by a
  low: that pair is outside the domain, notes/agents/JSON.md), astral code points, NUL, U+2028 / U+2029, and data
  dicts built from them (as values, as keys, nested).
Everything here was first established on the UNCHANGED tree to round-trip on memory, sqlite and peewee (single
insert, bulk insert, replace, replace_last, bucket data): notes/probes/fix6_roundtrip.py, notes/agents/C01.md."""
import collections

ODict = collections.OrderedDict
DDict = collections.defaultdict


class ListSub(list):
    """a list subclass as client libraries have them (json.dumps: a list; deepcopy: a ListSub)"""
    __slots__ = ()


class StrSub(str):
    """a str subclass (what a `class Kind(str, Enum)` member or a markup-safe string is to json.dumps)"""
    __slots__ = ()


class IntSub(int):
    """an int subclass other than bool (IntEnum / IntFlag members are such)"""
    __slots__ = ()


STYLES = ["odict", "ddict", "listsub", "mixed", "scalars", "all"]


def _mk_dict(kind, items):
    if kind == "odict":
        return ODict(items)
    if kind == "ddict":
        d = DDict(list)
        d.update(items)
        return d
    return dict(items)


def dress(v, style="mixed", _depth=0):
    """`v` (plain JSON data) with subclass containers at every depth.
    odict / ddict: every dict;  listsub: every list;  mixed: dicts alternate OrderedDict / defaultdict / dict by
    depth and lists alternate ListSub / list, so that a subclass sits BELOW a plain container and a plain one
    below a subclass;  scalars: str -> StrSub, int (not bool) -> IntSub, keys too;  all: mixed + scalars."""
    if isinstance(v, dict):
        kind = {"odict": "odict", "ddict": "ddict", "mixed": ("odict", "ddict", "dict")[_depth % 3],
                "all": ("ddict", "dict", "odict")[_depth % 3]}.get(style, "dict")
        sk = style in ("scalars", "all")
        return _mk_dict(kind, [(StrSub(k) if sk else k, dress(x, style, _depth + 1)) for k, x in v.items()])
    if isinstance(v, list):
        sub = style == "listsub" or (style in ("mixed", "all") and _depth % 2 == 0)
        out = [dress(x, style, _depth + 1) for x in v]
        return ListSub(out) if sub else out
    if style in ("scalars", "all"):
        if isinstance(v, str):
            return StrSub(v)
        if isinstance(v, int) and not isinstance(v, bool):
            return IntSub(v)
    return v


def plain(v):
    if isinstance(v, dict):
        return {str.__str__(k) if isinstance(k, str) else k: plain(x) for k, x in v.items()}
    if isinstance(v, (list, tuple)):
        return [plain(x) for x in v]
    if isinstance(v, bool) or v is None:
        return v
    if isinstance(v, str):
        return str.__str__(v)
    if isinstance(v, int):
        return int(v)
    if isinstance(v, float):
        return float(v)
    return v


def has_subclass(v):
    """does the value hold a container or scalar whose class is not exactly dict / list / str / int / .. ?"""
    if isinstance(v, dict):
        return type(v) is not dict or any(type(k) is not str or has_subclass(x) for k, x in v.items())
    if isinstance(v, list):
        return type(v) is not list or any(has_subclass(x) for x in v)
    return type(v) not in (str, int, float, bool, type(None))


def class_names(v, out=None):
    out = set() if out is None else out
    if isinstance(v, dict):
        if type(v) is not dict:
            out.add(type(v).__name__)
        for k, x in v.items():
            if type(k) is not str:
                out.add(type(k).__name__)
            class_names(x, out)
    elif isinstance(v, list):
        if type(v) is not list:
            out.add(type(v).__name__)
        for x in v:
            class_names(x, out)
    elif type(v) not in (str, int, float, bool, type(None)):
        out.add(type(v).__name__)
    return out


_CLS = {"OrderedDict": "od", "defaultdict": "dd", "dict": "d", "ListSub": "ls", "list": "l"}


def tagged(v):
    """JSON-able description that keeps the classes: ["d"|"od"|"dd", [[key, tagged] ..]], ["l"|"ls", [tagged ..]],
    ["ss", str], ["is", int], or the scalar itself"""
    if isinstance(v, dict):
        return [_CLS.get(type(v).__name__, "d"), [[tagged(k) if type(k) is not str else k, tagged(x)] for k, x in v.items()]]
    if isinstance(v, list):
        return [_CLS.get(type(v).__name__, "l"), [tagged(x) for x in v]]
    if type(v) is StrSub:
        return ["ss", str.__str__(v)]
    if type(v) is IntSub:
        return ["is", int(v)]
    return v


def untag(t):
    if isinstance(t, list):
        k, body = t
        if k in ("d", "od", "dd"):
            return _mk_dict({"d": "dict", "od": "odict", "dd": "ddict"}[k], [(untag(a) if isinstance(a, list) else a, untag(b)) for a, b in body])
        if k in ("l", "ls"):
            out = [untag(x) for x in body]
            return ListSub(out) if k == "ls" else out
        if k == "ss":
            return StrSub(body)
        if k == "is":
            return IntSub(body)
        raise ValueError("bad tag " + repr(k))
    return t


# ---------------------------------------------------------------------------
# values

HIGH, LOW = "\ud83d", "\ude00"           # the two halves of U+1F600; never adjacent in this order below
EDGE_STRINGS = [
    "Team chat " + HIGH,                 # a title cut in the middle of an emoji (lone HIGH surrogate at the end)
    LOW + " rest of a title",            # .. and the other half at the start of the next piece (lone LOW)
    "a" + HIGH + "b" + LOW + "c",        # both, separated
    LOW + HIGH,                          # low then high: two lone surrogates, not a pair
    HIGH + HIGH, "\udfff", "\ud800",
    "\U0001f600", "x\U00010000y\U0010ffff",       # astral code points (a surrogate PAIR of escapes in ASCII JSON)
    "nul\u0000inside", "\u0000",
    "line\u2028sep\u2029", "\u2028",
]
# data dicts: the strings as values, as keys, nested in lists / dicts, beside ordinary members
EDGE_DATA = ([{"app": "chat", "title": s} for s in EDGE_STRINGS[:4]]
             + [{"title": EDGE_STRINGS[7]}, {"title": EDGE_STRINGS[9]}, {"title": EDGE_STRINGS[11]},
                {EDGE_STRINGS[0]: 1, EDGE_STRINGS[1]: [EDGE_STRINGS[2], {EDGE_STRINGS[3]: EDGE_STRINGS[4]}], "nul\u0000key": None},
                {"all": list(EDGE_STRINGS)}])
# the JSON-shaped value the demo of a typical watcher would produce, to be dressed in every style
NESTED = {"app": "editor", "window": {"title": "t", "geom": [0, 0, 800.5, None, "x"]}, "counts": {"keys": 103},
          "tags": ["x", {"deep": [1, "y"]}, "z"]}


def dressed_corpus():
    """[(style, value)]: NESTED and two small shapes in every style (the value is == to its plain form)"""
    shapes = [NESTED, {"k": {"n": 1}}, {"l": [[1, 2], []], "e": {}}, {"title": EDGE_STRINGS[0], "n": 7}]
    return [(st, dress(x, st)) for st in STYLES for x in shapes if has_subclass(dress(x, st))]
