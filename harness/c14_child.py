"""Child process of the C14 check.  Every invocation is a fresh interpreter (peewee.py has a
module-level database object, and the migration constructs its own PeeweeStorage), started by
harness/c14.py as

    python -m harness.c14_child <mode> <request.json>        -> one JSON document on stdout

modes
  build    [{xdg, stores: [{testing, ops: [symbolic op ..]}]} ..]
           writes legacy databases with the real PeeweeStorage at its DEFAULT path under the
           case's own XDG_DATA_HOME (the migration trigger keys on the default names), one
           store after the other, and returns per store the concrete ops (handles resolved to
           ids), the error class of every op and a dump through the API.  A store may carry
           "raw": [step ..] (round 5): after the dump the finished file is rewritten with plain
           sqlite3 into another representation of the same content (harness.c14_gen.apply_raw).
  migrate  {xdg, testing, custom: null | file name}
           constructs the real SqliteStorage(testing) (default path unless custom) -- this is
           the call under test -- and dumps the new store through the API and table by table.
  dump     {xdg, testing}   re-opens a legacy file with PeeweeStorage and dumps it (used only
           after a hash mismatch, to tell a byte change from a content change).
  session  {xdg, steps: [step ..]}   several constructions in ONE interpreter, in order (the stores share
           process-wide state: peewee.py's module-level database handle, class attributes, logging ..):
             {op: "peewee", testing | file, touch, close}   a PeeweeStorage opened beforehand (default file of
                                                            a profile or a file outside the data dir), read
                                                            once if touch, left open unless close
             {op: "sqlite", testing, custom, close}         the call under test, observed as in `migrate`,
                                                            plus the directory listing / legacy fingerprints
                                                            right before and right after this step
             {op: "use", kind: "sqlite" | "memory" | "peewee", testing, file, via, name, target, calls, close}
                                                            (round 3) ordinary USE of a store in the same process:
                                                            either a store opened by this step (sqlite / peewee on a
                                                            file outside the data dir, memory), remembered under
                                                            `name`, or (`target`) a store an earlier step opened and
                                                            left open under that name; `calls` are symbolic ops as in
                                                            `build` plus the reads ["buckets"], ["get_metadata", b],
                                                            ["get_events", b, limit], ["get_eventcount", b],
                                                            ["get_event", b, k]; via "datastore": the store is opened
                                                            by Datastore(cls, testing, ..) and called through
                                                            Datastore / Bucket methods.  Never judged itself.
           A sqlite step may carry `name` (so that a later use step can address the store it left open) and
           via "datastore" (the construction under test is done by Datastore(SqliteStorage, testing=..)).
           -> one result per step.

The symbolic op ["insert_gen", bucket, spec] is expanded by harness.c14_gen.expand_events (large buckets).

Instants are integer microseconds since the epoch; data dicts travel as JSON."""
import json
import logging
import os
import sys
from datetime import datetime, timedelta, timezone

REPO = os.environ.get("VERIF_REPO", "/repo")
if REPO not in sys.path:
    sys.path.insert(0, REPO)
from harness.c14_gen import apply_raw, expand_events, legacy_prints, listing  # noqa: E402
EPOCH = datetime(1970, 1, 1, tzinfo=timezone.utc)
US = timedelta(microseconds=1)


def set_xdg(xdg):
    for k in ("XDG_DATA_HOME", "XDG_CONFIG_HOME", "XDG_CACHE_HOME", "XDG_STATE_HOME"):
        os.environ[k] = os.path.join(xdg, k.lower())


def data_dir(xdg):
    return os.path.join(xdg, "xdg_data_home", "activitywatch", "aw-server")


def mk_ev(spec, eid=None):
    from aw_core.models import Event
    t, d, x, tzmin = spec
    ts = (EPOCH + timedelta(microseconds=t)).astimezone(timezone(timedelta(minutes=tzmin)))
    return Event(id=eid, timestamp=ts, duration=timedelta(microseconds=d), data=x)


def ev_dump(e):
    return [e.id, (e.timestamp - EPOCH) // US, e.duration // US, e.data]


def dump_store(st):
    """buckets() in the order the store lists them; get_events(b, -1) in the order it returns them."""
    bs = st.buckets()
    return {"buckets": [[k, v] for k, v in bs.items()],
            "events": [[k, [ev_dump(e) for e in st.get_events(k, -1)]] for k in bs]}


def live_ids(st, b):
    try:
        return sorted(e.id for e in st.get_events(b, -1))
    except Exception:  # noqa: BLE001
        return []


def apply_sym(st, op):
    """-> (concrete op or None, error class or None)"""
    name = op[0]
    conc = None
    try:
        if name == "create":
            conc = op
            st.create_bucket(op[1], op[2], op[3], op[4], op[5], op[6], op[7])
        elif name == "update":
            conc = op
            st.update_bucket(op[1], op[2], op[3], op[4], op[5], op[6])
        elif name == "delete_bucket":
            conc = op
            st.delete_bucket(op[1])
        elif name == "insert_many":
            conc = op
            st.insert_many(op[1], [mk_ev(s) for s in op[2]])
        elif name == "insert_gen":
            evs = expand_events(op[2])
            conc = ["insert_many", op[1], evs]
            st.insert_many(op[1], [mk_ev(s) for s in evs])
        elif name == "insert":
            conc = op
            st.insert_one(op[1], mk_ev(op[2]))
        elif name == "buckets":
            conc = op
            st.buckets()
        elif name == "get_metadata":
            conc = op
            st.get_metadata(op[1])
        elif name == "get_events":
            conc = op
            st.get_events(op[1], op[2] if len(op) > 2 else -1)
        elif name == "get_eventcount":
            conc = op
            st.get_eventcount(op[1])
        elif name == "get_event":
            ids = live_ids(st, op[1])
            conc = ["get_event", op[1], ids[op[2] % len(ids)] if ids else 1]
            st.get_event(op[1], conc[2])
        elif name in ("delete", "replace"):
            ids = live_ids(st, op[1])
            if not ids:
                return None, None
            i = ids[op[2] % len(ids)]
            if name == "delete":
                conc = ["delete", op[1], i]
                st.delete(op[1], i)
            else:
                conc = ["replace", op[1], i, op[3]]
                st.replace(op[1], i, mk_ev(op[3]))
        else:
            raise RuntimeError("bad op " + name)
    except Exception as ex:  # noqa: BLE001 -- the class is the observation
        return conc, type(ex).__name__
    return conc, None


def build_store(xdg, spec):
    from aw_datastore.storages import PeeweeStorage
    set_xdg(xdg)
    st = PeeweeStorage(testing=spec["testing"])
    ops, errs = [], []
    for op in spec["ops"]:
        conc, err = apply_sym(st, op)
        if conc is not None:
            ops.append(conc)
            errs.append(err)
    d = dump_store(st)
    st.db.close()
    f = os.path.join(data_dir(xdg), "peewee-sqlite" + ("-testing" if spec["testing"] else "") + ".v2.db")
    if spec.get("old_schema"):
        # a legacy file from before bucketmodel.datastr existed (auto_migrate's reason to be)
        import sqlite3
        c = sqlite3.connect(f)
        c.execute("ALTER TABLE bucketmodel DROP COLUMN datastr")
        c.commit()
        c.close()
    if spec.get("raw"):
        # round 5: the same content in a shape the legacy schema allows and today's writer never produces
        # (plain sqlite3; harness.c14_gen.apply_raw checks that the content is what it was)
        apply_raw(f, spec["raw"])
    return {"testing": spec["testing"], "ops": ops, "errs": errs, "dump": d}


def mode_build(req):
    """Every legacy store is written by a process of its own (a fork of this interpreter taken before any store
    was opened here): what the oracle takes as the legacy content must not depend on state that earlier stores
    left behind in the writing process -- that dependence is what the session cases are there to find."""
    import aw_datastore.storages  # noqa: F401 -- import once, before forking
    out = []
    for case in req:
        stores = []
        for spec in case["stores"]:
            r, w = os.pipe()
            sys.stdout.flush()
            pid = os.fork()
            if pid == 0:
                code = 1
                try:
                    os.close(r)
                    with os.fdopen(w, "w") as f:
                        json.dump(build_store(case["xdg"], spec), f)
                    code = 0
                except BaseException:  # noqa: BLE001
                    import traceback
                    traceback.print_exc()
                finally:
                    sys.stderr.flush()
                    os._exit(code)
            os.close(w)
            with os.fdopen(r) as f:
                text = f.read()
            _, status = os.waitpid(pid, 0)
            if status != 0:
                raise RuntimeError(f"building the legacy store {spec['testing']} of {case['xdg']} failed")
            stores.append(json.loads(text))
        out.append({"stores": stores})
    return out


class ViaDatastore:
    """The storage vocabulary of apply_sym spoken through the public layer: Datastore / Bucket methods."""

    def __init__(self, ds):
        self.ds = ds

    def buckets(self):
        return self.ds.buckets()

    def create_bucket(self, b, ty, cl, ho, created, name=None, data=None):
        import iso8601
        return self.ds.create_bucket(b, ty, cl, ho, created=iso8601.parse_date(created), name=name, data=data)

    def update_bucket(self, b, ty=None, cl=None, ho=None, name=None, data=None):
        return self.ds.update_bucket(b, type_id=ty, client=cl, hostname=ho, name=name, data=data)

    def delete_bucket(self, b):
        return self.ds.delete_bucket(b)

    def get_metadata(self, b):
        return self.ds[b].metadata()

    def insert_one(self, b, e):
        return self.ds[b].insert(e)

    def insert_many(self, b, evs):
        return self.ds[b].insert(list(evs))

    def delete(self, b, i):
        return self.ds[b].delete(i)

    def replace(self, b, i, e):
        return self.ds[b].replace(i, e)

    def get_events(self, b, limit=-1):
        return self.ds[b].get(limit)

    def get_event(self, b, i):
        return self.ds[b].get_by_id(i)

    def get_eventcount(self, b):
        return self.ds[b].get_eventcount()


class _Capture(logging.Handler):
    def __init__(self):
        super().__init__(level=logging.DEBUG)
        self.messages = []

    def emit(self, record):
        self.messages.append(record.getMessage())


_capture = None


def _logging_setup():
    global _capture
    if _capture is None:
        _capture = _Capture()
        lg = logging.getLogger("aw_datastore.migration")
        lg.setLevel(logging.DEBUG)
        lg.addHandler(_capture)
        lg.propagate = False
        logging.getLogger("aw_datastore.storages.sqlite").propagate = False
        logging.getLogger("aw_datastore.storages.peewee").propagate = False
    return _capture


def open_sqlite(req, close=True, keep=None):
    """construct SqliteStorage(testing, filepath) -- the call under test -- and observe the new store"""
    cap = _logging_setup()
    del cap.messages[:]
    from aw_datastore.storages import SqliteStorage
    out = {"exc": None}
    # observe (not alter) what detect_db_files is shown: record os.listdir of the data dir
    seen = []
    real_listdir = os.listdir
    dd = data_dir(req["xdg"])

    def listdir(p="."):
        r = real_listdir(p)
        if os.path.abspath(p) == os.path.abspath(dd):
            seen.append(sorted(r))
        return r
    os.listdir = listdir
    out["check_listings"] = seen
    path = None
    if req.get("custom"):
        path = os.path.join(req["xdg"], req["custom"])
    try:
        try:
            if req.get("via") == "datastore":
                # the way a program constructs the store
                from aw_datastore import Datastore, get_storage_methods
                ds = Datastore(get_storage_methods()["sqlite"], testing=req["testing"], **({"filepath": path} if path else {}))
                st = ds.storage_strategy
                if keep is not None:
                    keep.append(ds)
            else:
                st = SqliteStorage(testing=req["testing"], filepath=path)
        finally:
            os.listdir = real_listdir
    except Exception as ex:  # noqa: BLE001
        out["exc"] = type(ex).__name__
        out["exc_text"] = str(ex)[:200]
        out["migration_log"] = list(cap.messages)
        return out
    out["migration_log"] = list(cap.messages)
    # what another connection (= a process started after a crash right now) would see
    import sqlite3
    dbfile = st.conn.execute("PRAGMA database_list").fetchone()[2]
    out["dbfile"] = os.path.basename(dbfile)
    out["listing_during"] = sorted(real_listdir(dd))
    other = sqlite3.connect(dbfile)
    out["committed_events"] = other.execute("SELECT count(*) FROM events").fetchone()[0]
    out["committed_buckets"] = other.execute("SELECT count(*) FROM buckets").fetchone()[0]
    other.close()
    out["raw_buckets"] = [list(r) for r in st.conn.execute(
        "SELECT rowid, id, name, type, client, hostname, created, datastr FROM buckets ORDER BY rowid")]
    out["raw_events"] = [list(r) for r in st.conn.execute(
        "SELECT id, bucketrow, starttime, endtime, datastr FROM events ORDER BY id")]
    out.update(dump_store(st))
    if close:
        st.conn.close()
    elif keep is not None:
        keep.append(st)
    return out


def mode_migrate(req):
    set_xdg(req["xdg"])
    return open_sqlite(req)


def mode_session(req):
    set_xdg(req["xdg"])
    _logging_setup()
    keep = []            # objects stay referenced until the interpreter exits
    left_open = []
    named = {}           # name -> (storage object, result record of the sqlite step that opened it | None)
    out = []
    for step in req["steps"]:
        if step["op"] == "peewee":
            from aw_datastore.storages import PeeweeStorage
            r = {"op": "peewee", "exc": None}
            try:
                if step.get("file"):
                    st = PeeweeStorage(testing=bool(step.get("testing", True)),
                                       filepath=os.path.join(req["xdg"], step["file"]))
                else:
                    st = PeeweeStorage(testing=step["testing"])
                keep.append(st)
                if step.get("touch"):
                    r["n_buckets"] = len(st.buckets())
                if step.get("close"):
                    st.db.close()
            except Exception as ex:  # noqa: BLE001
                r["exc"] = type(ex).__name__
            out.append(r)
        elif step["op"] == "sqlite":
            before = legacy_prints(req["xdg"])
            lst = listing(req["xdg"])
            n_kept = len(keep)
            r = open_sqlite({"xdg": req["xdg"], "testing": step["testing"], "custom": step.get("custom"),
                             "via": step.get("via")},
                            close=bool(step.get("close")), keep=keep)
            r["op"] = "sqlite"
            if len(keep) > n_kept and r["exc"] is None and not step.get("close"):
                left_open.append((r, keep[-1]))
                if step.get("name"):
                    named[step["name"]] = (keep[-1], r)
            r["listing_before"] = lst
            r["before"] = before
            r["after"] = legacy_prints(req["xdg"])
            r["listing_after"] = listing(req["xdg"])
            out.append(r)
        elif step["op"] == "use":
            out.append(use_step(req["xdg"], step, named, keep))
        else:
            raise RuntimeError("bad step " + str(step))
    # the stores that were left open, read once more after everything else has happened in this process
    for r, st in left_open:
        try:
            r["final"] = dump_store(st)
        except Exception as ex:  # noqa: BLE001
            r["final"] = {"exc": type(ex).__name__}
    return out


def use_step(xdg, step, named, keep):
    """ordinary use of a store in this process (never the call under test)"""
    r = {"op": "use", "exc": None, "errs": [], "skipped": False}
    rec = None
    try:
        if step.get("target") is not None:
            if step["target"] not in named:           # the step that opened it is gone (shrinking) or failed
                r["skipped"] = True
                return r
            st, rec = named[step["target"]]
        else:
            from aw_datastore.storages import MemoryStorage, PeeweeStorage, SqliteStorage
            kind = step.get("kind", "sqlite")
            cls = {"sqlite": SqliteStorage, "memory": MemoryStorage, "peewee": PeeweeStorage}[kind]
            kw = {}
            if kind != "memory":
                kw["filepath"] = os.path.join(xdg, step.get("file") or ("used-" + kind + ".db"))
            if step.get("via") == "datastore":
                from aw_datastore import Datastore
                ds = Datastore(cls, testing=bool(step.get("testing", True)), **kw)
                keep.append(ds)
                st = ds.storage_strategy
            else:
                st = cls(testing=bool(step.get("testing", True)), **kw)
            keep.append(st)
            if step.get("name"):
                named[step["name"]] = (st, None)
        face = st
        if step.get("via") == "datastore":
            from aw_datastore import Datastore
            ds = next((k for k in keep if isinstance(k, Datastore) and k.storage_strategy is st), None)
            if ds is None:                             # a store that was opened directly: wrap the class around it
                ds = Datastore(lambda testing: st, testing=getattr(st, "testing", True))
                keep.append(ds)
            face = ViaDatastore(ds)
        for op in step.get("calls", []):
            _, err = apply_sym(face, op)
            r["errs"].append(err)
        if rec is not None:
            # a store that an earlier construction left open was written through its own API: what it must
            # hold at the end of the process is what it holds now
            rec["expected_final"] = dump_store(st)
        if step.get("close") and rec is None:
            if hasattr(st, "conn"):
                st.commit()
                st.conn.close()
            elif hasattr(st, "db") and hasattr(st.db, "close"):
                st.db.close()
            for k, v in list(named.items()):
                if v[0] is st:
                    del named[k]
    except Exception as ex:  # noqa: BLE001 -- the use is context, its failures are not judged
        r["exc"] = type(ex).__name__ + ": " + str(ex)[:160]
    return r


def mode_dump(req):
    set_xdg(req["xdg"])
    from aw_datastore.storages import PeeweeStorage
    st = PeeweeStorage(testing=req["testing"])
    d = dump_store(st)
    st.db.close()
    return d


def main():
    mode, path = sys.argv[1], sys.argv[2]
    req = json.load(open(path))
    logging.getLogger("aw_core.models").setLevel(logging.ERROR)
    res = {"build": mode_build, "migrate": mode_migrate, "dump": mode_dump, "session": mode_session}[mode](req)
    json.dump(res, sys.stdout)
    sys.stdout.flush()


if __name__ == "__main__":
    main()
