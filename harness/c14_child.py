"""Child process of the C14 check.  Every invocation is a fresh interpreter (peewee.py has a
module-level database object, and the migration constructs its own PeeweeStorage), started by
harness/c14.py as

    python -m harness.c14_child <mode> <request.json>        -> one JSON document on stdout

modes
  build    [{xdg, stores: [{testing, ops: [symbolic op ..]}]} ..]
           writes legacy databases with the real PeeweeStorage at its DEFAULT path under the
           case's own XDG_DATA_HOME (the migration trigger keys on the default names), one
           store after the other, and returns per store the concrete ops (handles resolved to
           ids), the error class of every op and a dump through the API.
  migrate  {xdg, testing, custom: null | file name}
           constructs the real SqliteStorage(testing) (default path unless custom) -- this is
           the call under test -- and dumps the new store through the API and table by table.
  dump     {xdg, testing}   re-opens a legacy file with PeeweeStorage and dumps it (used only
           after a hash mismatch, to tell a byte change from a content change).
  session  {xdg, steps: [step ..]}   several constructions in ONE interpreter, in order (the stores share
           process-wide state: peewee.py's module-level database handle, class attributes, logging ..):
             {op: "peewee", testing | file, touch, close}   a PeeweeStorage opened beforehand (default file of
                                                            a profile or a file outside the data dir), read
                                                            once if touch, left open unless close
             {op: "sqlite", testing, custom, close}         the call under test, observed as in `migrate`,
                                                            plus the directory listing / legacy fingerprints
                                                            right before and right after this step
           -> one result per step.

The symbolic op ["insert_gen", bucket, spec] is expanded by harness.c14_gen.expand_events (large buckets).

Instants are integer microseconds since the epoch; data dicts travel as JSON."""
import json
import logging
import os
import sys
from datetime import datetime, timedelta, timezone

REPO = os.environ.get("VERIF_REPO", "/repo")
if REPO not in sys.path:
    sys.path.insert(0, REPO)
from harness.c14_gen import expand_events, legacy_prints, listing  # noqa: E402
EPOCH = datetime(1970, 1, 1, tzinfo=timezone.utc)
US = timedelta(microseconds=1)


def set_xdg(xdg):
    for k in ("XDG_DATA_HOME", "XDG_CONFIG_HOME", "XDG_CACHE_HOME", "XDG_STATE_HOME"):
        os.environ[k] = os.path.join(xdg, k.lower())


def data_dir(xdg):
    return os.path.join(xdg, "xdg_data_home", "activitywatch", "aw-server")


def mk_ev(spec, eid=None):
    from aw_core.models import Event
    t, d, x, tzmin = spec
    ts = (EPOCH + timedelta(microseconds=t)).astimezone(timezone(timedelta(minutes=tzmin)))
    return Event(id=eid, timestamp=ts, duration=timedelta(microseconds=d), data=x)


def ev_dump(e):
    return [e.id, (e.timestamp - EPOCH) // US, e.duration // US, e.data]


def dump_store(st):
    """buckets() in the order the store lists them; get_events(b, -1) in the order it returns them."""
    bs = st.buckets()
    return {"buckets": [[k, v] for k, v in bs.items()],
            "events": [[k, [ev_dump(e) for e in st.get_events(k, -1)]] for k in bs]}


def live_ids(st, b):
    try:
        return sorted(e.id for e in st.get_events(b, -1))
    except Exception:  # noqa: BLE001
        return []


def apply_sym(st, op):
    """-> (concrete op or None, error class or None)"""
    name = op[0]
    conc = None
    try:
        if name == "create":
            conc = op
            st.create_bucket(op[1], op[2], op[3], op[4], op[5], op[6], op[7])
        elif name == "update":
            conc = op
            st.update_bucket(op[1], op[2], op[3], op[4], op[5], op[6])
        elif name == "delete_bucket":
            conc = op
            st.delete_bucket(op[1])
        elif name == "insert_many":
            conc = op
            st.insert_many(op[1], [mk_ev(s) for s in op[2]])
        elif name == "insert_gen":
            evs = expand_events(op[2])
            conc = ["insert_many", op[1], evs]
            st.insert_many(op[1], [mk_ev(s) for s in evs])
        elif name == "insert":
            conc = op
            st.insert_one(op[1], mk_ev(op[2]))
        elif name in ("delete", "replace"):
            ids = live_ids(st, op[1])
            if not ids:
                return None, None
            i = ids[op[2] % len(ids)]
            if name == "delete":
                conc = ["delete", op[1], i]
                st.delete(op[1], i)
            else:
                conc = ["replace", op[1], i, op[3]]
                st.replace(op[1], i, mk_ev(op[3]))
        else:
            raise RuntimeError("bad op " + name)
    except Exception as ex:  # noqa: BLE001 -- the class is the observation
        return conc, type(ex).__name__
    return conc, None


def build_store(xdg, spec):
    from aw_datastore.storages import PeeweeStorage
    set_xdg(xdg)
    st = PeeweeStorage(testing=spec["testing"])
    ops, errs = [], []
    for op in spec["ops"]:
        conc, err = apply_sym(st, op)
        if conc is not None:
            ops.append(conc)
            errs.append(err)
    d = dump_store(st)
    st.db.close()
    if spec.get("old_schema"):
        # a legacy file from before bucketmodel.datastr existed (auto_migrate's reason to be)
        import sqlite3
        f = os.path.join(data_dir(xdg), "peewee-sqlite" + ("-testing" if spec["testing"] else "") + ".v2.db")
        c = sqlite3.connect(f)
        c.execute("ALTER TABLE bucketmodel DROP COLUMN datastr")
        c.commit()
        c.close()
    return {"testing": spec["testing"], "ops": ops, "errs": errs, "dump": d}


def mode_build(req):
    """Every legacy store is written by a process of its own (a fork of this interpreter taken before any store
    was opened here): what the oracle takes as the legacy content must not depend on state that earlier stores
    left behind in the writing process -- that dependence is what the session cases are there to find."""
    import aw_datastore.storages  # noqa: F401 -- import once, before forking
    out = []
    for case in req:
        stores = []
        for spec in case["stores"]:
            r, w = os.pipe()
            sys.stdout.flush()
            pid = os.fork()
            if pid == 0:
                code = 1
                try:
                    os.close(r)
                    with os.fdopen(w, "w") as f:
                        json.dump(build_store(case["xdg"], spec), f)
                    code = 0
                except BaseException:  # noqa: BLE001
                    import traceback
                    traceback.print_exc()
                finally:
                    sys.stderr.flush()
                    os._exit(code)
            os.close(w)
            with os.fdopen(r) as f:
                text = f.read()
            _, status = os.waitpid(pid, 0)
            if status != 0:
                raise RuntimeError(f"building the legacy store {spec['testing']} of {case['xdg']} failed")
            stores.append(json.loads(text))
        out.append({"stores": stores})
    return out


class _Capture(logging.Handler):
    def __init__(self):
        super().__init__(level=logging.DEBUG)
        self.messages = []

    def emit(self, record):
        self.messages.append(record.getMessage())


_capture = None


def _logging_setup():
    global _capture
    if _capture is None:
        _capture = _Capture()
        lg = logging.getLogger("aw_datastore.migration")
        lg.setLevel(logging.DEBUG)
        lg.addHandler(_capture)
        lg.propagate = False
        logging.getLogger("aw_datastore.storages.sqlite").propagate = False
        logging.getLogger("aw_datastore.storages.peewee").propagate = False
    return _capture


def open_sqlite(req, close=True, keep=None):
    """construct SqliteStorage(testing, filepath) -- the call under test -- and observe the new store"""
    cap = _logging_setup()
    del cap.messages[:]
    from aw_datastore.storages import SqliteStorage
    out = {"exc": None}
    # observe (not alter) what detect_db_files is shown: record os.listdir of the data dir
    seen = []
    real_listdir = os.listdir
    dd = data_dir(req["xdg"])

    def listdir(p="."):
        r = real_listdir(p)
        if os.path.abspath(p) == os.path.abspath(dd):
            seen.append(sorted(r))
        return r
    os.listdir = listdir
    out["check_listings"] = seen
    path = None
    if req.get("custom"):
        path = os.path.join(req["xdg"], req["custom"])
    try:
        try:
            st = SqliteStorage(testing=req["testing"], filepath=path)
        finally:
            os.listdir = real_listdir
    except Exception as ex:  # noqa: BLE001
        out["exc"] = type(ex).__name__
        out["exc_text"] = str(ex)[:200]
        out["migration_log"] = list(cap.messages)
        return out
    out["migration_log"] = list(cap.messages)
    # what another connection (= a process started after a crash right now) would see
    import sqlite3
    dbfile = st.conn.execute("PRAGMA database_list").fetchone()[2]
    out["dbfile"] = os.path.basename(dbfile)
    out["listing_during"] = sorted(real_listdir(dd))
    other = sqlite3.connect(dbfile)
    out["committed_events"] = other.execute("SELECT count(*) FROM events").fetchone()[0]
    out["committed_buckets"] = other.execute("SELECT count(*) FROM buckets").fetchone()[0]
    other.close()
    out["raw_buckets"] = [list(r) for r in st.conn.execute(
        "SELECT rowid, id, name, type, client, hostname, created, datastr FROM buckets ORDER BY rowid")]
    out["raw_events"] = [list(r) for r in st.conn.execute(
        "SELECT id, bucketrow, starttime, endtime, datastr FROM events ORDER BY id")]
    out.update(dump_store(st))
    if close:
        st.conn.close()
    elif keep is not None:
        keep.append(st)
    return out


def mode_migrate(req):
    set_xdg(req["xdg"])
    return open_sqlite(req)


def mode_session(req):
    set_xdg(req["xdg"])
    _logging_setup()
    keep = []            # objects stay referenced until the interpreter exits
    left_open = []
    out = []
    for step in req["steps"]:
        if step["op"] == "peewee":
            from aw_datastore.storages import PeeweeStorage
            r = {"op": "peewee", "exc": None}
            try:
                if step.get("file"):
                    st = PeeweeStorage(testing=bool(step.get("testing", True)),
                                       filepath=os.path.join(req["xdg"], step["file"]))
                else:
                    st = PeeweeStorage(testing=step["testing"])
                keep.append(st)
                if step.get("touch"):
                    r["n_buckets"] = len(st.buckets())
                if step.get("close"):
                    st.db.close()
            except Exception as ex:  # noqa: BLE001
                r["exc"] = type(ex).__name__
            out.append(r)
        elif step["op"] == "sqlite":
            before = legacy_prints(req["xdg"])
            lst = listing(req["xdg"])
            n_kept = len(keep)
            r = open_sqlite({"xdg": req["xdg"], "testing": step["testing"], "custom": step.get("custom")},
                            close=bool(step.get("close")), keep=keep)
            r["op"] = "sqlite"
            if len(keep) > n_kept:
                left_open.append((r, keep[-1]))
            r["listing_before"] = lst
            r["before"] = before
            r["after"] = legacy_prints(req["xdg"])
            r["listing_after"] = listing(req["xdg"])
            out.append(r)
        else:
            raise RuntimeError("bad step " + str(step))
    # the stores that were left open, read once more after everything else has happened in this process
    for r, st in left_open:
        try:
            r["final"] = dump_store(st)
        except Exception as ex:  # noqa: BLE001
            r["final"] = {"exc": type(ex).__name__}
    return out


def mode_dump(req):
    set_xdg(req["xdg"])
    from aw_datastore.storages import PeeweeStorage
    st = PeeweeStorage(testing=req["testing"])
    d = dump_store(st)
    st.db.close()
    return d


def main():
    mode, path = sys.argv[1], sys.argv[2]
    req = json.load(open(path))
    logging.getLogger("aw_core.models").setLevel(logging.ERROR)
    res = {"build": mode_build, "migrate": mode_migrate, "dump": mode_dump, "session": mode_session}[mode](req)
    json.dump(res, sys.stdout)
    sys.stdout.flush()


if __name__ == "__main__":
    main()
