"""C05, second stream: histories whose TAIL is not read back call by call.

The first stream of harness/c05.py dumps every bucket after every call.  The dump goes through
`get_events`, and on sqlite every event read commits - so in that stream no event write is ever
*pending* (sitting in the open, lazily committed transaction) when a bucket-level call arrives,
and whatever a bucket-level call does to the transaction (roll it back, leave it open, commit it)
is invisible.  Here a history is: a set-up that is dumped call by call as before, then a tail of
2-14 calls - event writes through Bucket handles interleaved with bucket-level calls, FAILING ones
(lookup / describe / update / delete of an id that does not exist) and SUCCEEDING ones (create,
update, delete, lookup, describe, list) - during which nothing but the call's result and the
pure-Python `bucket_instances` dict is observed, then one dump (listing, row count, every bucket)
at the end.

`QuietOracle` is the property statement for such a tail: a reference keyed map (bucket ->
metadata as supplied + events by id / id-less multiset) advanced from the CALLS alone, compared
with the result of every call and with the final dump: a call on a missing id raises (KeyError for
lookup, ValueError otherwise) and changes nothing, an update changes only the supplied fields (never
the events), a delete removes exactly that bucket with its events, a created bucket starts empty -
"changes nothing" now includes the writes of OTHER buckets that were still pending.

Symbolic ops / wire ops / labels are those of harness/c05.py."""
from . import c05 as base
from . import store_hist as sh

CREATE, UPDATE, DELBUCKET, BUCKETS, GETITEM, VIA, RAW = (base.CREATE, base.UPDATE, base.DELBUCKET, base.BUCKETS,
                                                         base.GETITEM, base.VIA, base.RAW)
MISSING = base.MISSING
E = base.E

BUCKET_LEVEL = {CREATE, UPDATE, DELBUCKET, BUCKETS, GETITEM}


def is_bucket_level(op):
    return op[0] in BUCKET_LEVEL or (op[0] == VIA and op[2][0] == 0)


def is_event_write(op):
    return op[0] == VIA and op[2][0] in (4, 5, 6, 7, 8)


# ---------------------------------------------------------------------------
# generators: (symbolic ops, universe, quiet_from)


def quiet_corpus():
    """Deterministic: every bucket-level call (each failing form on an id never created and on an id
    that is merely absent; each succeeding form) x four patterns of pending event writes (single insert,
    bulk insert, replace + delete of stored events, writes through old / caller-made handles), the call
    placed after the writes and followed by one more write, and once more at the very end."""
    m = [1, 2, 3, 0, None, 0]
    m2 = [4, 5, 6, 1, 8, 2]
    univ = [1, 2, 3, MISSING]
    setup = [["create", 1, m], ["create", 2, m2],
             ["via", "new", 1, "insert_many", [E(0), E(1, x=2), E(2, 0, 3)]], ["via", "new", 2, "insert", E(0, x=4)],
             ["getitem", 1]]
    writes = [
        [["via", "new", 1, "insert", E(3, x=5)]],
        [["via", "new", 1, "insert", E(3, x=5)], ["via", "new", 2, "insert_many", [E(1, x=1), E(2, 1001, 2)]]],
        [["via", "new", 1, "replace", ["live", 0], E(4, 2 * base.SEC, 1)], ["via", "new", 1, "delete", ["live", 1]],
         ["via", "new", 2, "insert", E(5, x=3)]],
        [["via", "old", 1, "insert", E(3, x=5)], ["via", "made", 2, "insert", E(3, 1, 4)],
         ["via", "made", 1, "insert", E(3, 0, 5)]],
    ]
    calls = []
    for b in (MISSING, 3):
        calls += [[["getitem", b]], [["via", "made", b, "metadata"]], [["update", b, 4, None, None, None, None]],
                  [["update", b, None, None, None, None, None]], [["update", b, 4, 5, 6, 8, 1]], [["delete_bucket", b]],
                  [["delete_bucket", b], ["delete_bucket", b]]]
    calls += [[["create", 3, m2]], [["update", 1, 9, None, None, None, None]], [["update", 2, 6, 6, 6, 4, 4]],
              [["delete_bucket", 2]], [["delete_bucket", 1]], [["getitem", 2]], [["buckets"]],
              [["via", "new", 1, "metadata"]], [["via", "made", 2, "metadata"]],
              [["create", 3, m], ["delete_bucket", 3]], [["delete_bucket", 2], ["create", 2, m]],
              # outside the quantifier (the other buckets still must not move)
              [["create", 1, m2]], [["update", 1, None, None, None, None, None]]]
    out = []
    for w in writes:
        for c in calls:
            tail = list(w) + list(c) + [["via", "made", 2, "insert", E(6, x=1)]] + list(c)
            out.append((setup + tail, univ, len(setup)))
    # nothing stored before the tail: every event of the final dump was pending when the call arrived
    for c in calls[:14]:
        out.append(([["create", 1, m], ["via", "new", 1, "insert", E(0)]] + c + [["via", "new", 1, "insert", E(1, x=2)]] + c,
                    univ, 1))
    return out


def gen_quiet(rng, max_tail=14):
    nb = rng.choice([2, 2, 3, 3])
    buckets = list(range(1, nb + 1))
    univ = buckets + [MISSING]
    pool = sorted(rng.sample(range(0, 9), 4))
    ops = []
    exists = []
    count = {b: 0 for b in univ}
    for b in buckets:
        if not exists or rng.random() < 0.75:
            ops.append(["create", b, base.rnd_meta(rng)])
            exists.append(b)
    for _ in range(rng.randrange(0, 7)):
        b = rng.choice(exists)
        if rng.random() < 0.7:
            ops.append(["via", "new", b, "insert", sh.rnd_ev(rng, pool)])
            count[b] += 1
        else:
            evs = [sh.rnd_ev(rng, pool) for _ in range(rng.choice([1, 2, 3]))]
            ops.append(["via", "new", b, "insert_many", evs])
            count[b] += len(evs)
    for b in exists:
        if rng.random() < 0.4:
            ops.append(["getitem", b])
    quiet_from = len(ops)
    live = {b: list(range(count[b])) for b in univ}      # handles ["live", k] the tail may still name
    exists = set(exists)
    n_tail = rng.randrange(2, max_tail + 1)
    tail = []

    def write():
        b = rng.choice(sorted(exists))
        sel = rng.choice(["new", "new", "old", "made"])
        r = rng.random()
        if r < 0.4:
            return ["via", sel, b, "insert", sh.rnd_ev(rng, pool)]
        if r < 0.55 or not live[b]:
            return ["via", sel, b, "insert_many", [sh.rnd_ev(rng, pool) for _ in range(rng.choice([1, 2, 3]))]]
        if r < 0.85:
            return ["via", sel, b, "replace", ["live", rng.choice(live[b])], sh.rnd_ev(rng, pool)]
        k = live[b].pop(rng.randrange(len(live[b])))
        return ["via", sel, b, "delete", ["live", k]]

    while len(tail) < n_tail:
        if exists and (not tail or rng.random() < 0.45):
            tail.append(write())
            continue
        absent = [b for b in univ if b not in exists]
        r = rng.random()
        if r < 0.5:
            b = rng.choice(absent)
            vals = [rng.choice([None, None, rng.randrange(1, 10)]) for _ in range(4)] + [rng.choice([None, None, 1, 2, 3, 4])]
            tail.append(rng.choice([["getitem", b], ["via", "made", b, "metadata"], ["update", b] + vals,
                                    ["delete_bucket", b], ["delete_bucket", b], ["delete_bucket", b]]))
        elif r < 0.60:
            cand = [b for b in absent if b != MISSING]
            if cand:
                b = rng.choice(cand)
                tail.append(["create", b, base.rnd_meta(rng)])
                exists.add(b)
                live[b] = []
        elif r < 0.70 and exists:
            b = rng.choice(sorted(exists))
            vals = [rng.choice([None, None, rng.randrange(1, 10)]) for _ in range(4)] + [rng.choice([None, None, 1, 2, 3, 4])]
            tail.append(["update", b] + vals)
        elif r < 0.78 and len(exists) > 1:
            b = rng.choice(sorted(exists))
            tail.append(["delete_bucket", b])
            exists.discard(b)
            live[b] = []
        elif r < 0.93 and exists:
            b = rng.choice(sorted(exists))
            tail.append(rng.choice([["getitem", b], ["buckets"], ["via", rng.choice(["new", "old", "made"]), b, "metadata"]]))
        elif r < 0.97 and exists:
            # outside the quantifier: an id that exists is created again / falsy update values
            b = rng.choice(sorted(exists))
            if rng.random() < 0.5:
                tail.append(["create", b, base.rnd_meta(rng)])
                live[b] = []
            else:
                tail.append(["update", b, rng.choice([0, None]), None, rng.choice([0, 3]), None, rng.choice([None, 0])])
    return ops + tail, univ, quiet_from


# ---------------------------------------------------------------------------
# the property statement for an unread tail


def _err(res):
    return None if res[0] == 0 else sh.ERRNAME.get(res[1], "other")


class QuietOracle:
    def __init__(self, univ, start):
        """start = [cache, listing, nrows, view...] of the last call that was dumped."""
        self.univ = univ
        self.ref = {}                       # insertion-ordered like the keyed map
        listing, views = start[1], start[3:]
        for b, m in (listing[1][1] if listing[0] == 0 else []):
            v = views[univ.index(b)] if b in univ else []
            evs = v[0][1] if v and v[0] != "raised" else []
            self.ref[b] = {"given": [m[0], m[1], m[2], m[3], sh.unopt(m[4]), m[5]], "meta_known": True,
                           "byid": {w[0][0]: tuple(w[1:]) for w in evs if w[0]}, "anon": [], "known": True}
        self.pending = 0                    # event writes since the last dump (what a rollback would take)

    def listing_agrees(self, listed):
        if [x[0] for x in listed] != list(self.ref):
            return False
        return all(not self.ref[b]["meta_known"] or base.Oracle.meta_agrees(self.ref[b]["given"], m) for b, m in listed)

    def step(self, op, res, cache0, cache1):
        ref = self.ref
        code = op[0]
        ok, err = res[0] == 0, _err(res)
        if code == CREATE:
            b, payload = op[1], op[2]
            if b in ref:                    # outside the quantifier: memory resets the bucket, the SQL back ends raise
                ref[b]["known"] = ref[b]["meta_known"] = False
                return None
            if not ok:
                return f"create_bucket of an absent id raised {err}"
            if res[1][0] != 1 or res[1][2] != b:
                return f"create_bucket returned {res[1]}, not a handle for bucket {b}"
            ref[b] = {"given": [payload[0], payload[1], payload[2], payload[3], sh.unopt(payload[4]), payload[5]],
                      "meta_known": True, "byid": {}, "anon": [], "known": True}
            return None
        if code == UPDATE:
            b = op[1]
            vals = [sh.unopt(v) for v in op[2:7]]
            if b not in ref:
                if ok or err != "ValueError":
                    return f"update_bucket of a missing id: {'returned' if ok else 'raised ' + err}, expected ValueError"
                if cache0 != cache1:
                    return "update_bucket of a missing id changed bucket_instances"
                return None
            if any(v == 0 for v in vals if v is not None):
                ref[b]["meta_known"] = False
                return None
            if not ok:
                if all(v is None for v in vals) and err == "ValueError":
                    return None
                return f"update_bucket of an existing bucket raised {err}"
            for idx, v in zip((0, 1, 2, 4, 5), vals):
                if v is not None:
                    ref[b]["given"][idx] = v
            return None
        if code == DELBUCKET:
            b = op[1]
            if b not in ref:
                if ok or err != "ValueError":
                    return f"delete_bucket of a missing id: {'returned' if ok else 'raised ' + err}, expected ValueError"
                if [c for c in cache0 if c[0] != b] != cache1:
                    return "delete_bucket of a missing id changed the cache of other ids"
                return None
            if not ok:
                return f"delete_bucket of an existing bucket raised {err}"
            if any(c[0] == b for c in cache1):
                return "delete_bucket left the handle in bucket_instances"
            ref.pop(b)
            return None
        if code == BUCKETS:
            if not ok or res[1][0] != 0 or res[1][1][0] != 6 or not self.listing_agrees(res[1][1][1]):
                return f"buckets() returned {res}, the keyed map holds {[(b, r['given']) for b, r in ref.items()]}"
            if cache0 != cache1:
                return "buckets() changed bucket_instances"
            return None
        if code == GETITEM:
            b = op[1]
            cached = [c for c in cache0 if c[0] == b]
            if b not in ref:
                if ok or err != "KeyError":
                    return f"lookup of a missing id: {'returned ' + str(res[1]) if ok else 'raised ' + err}, expected KeyError"
                if cache0 != cache1:
                    return "lookup of a missing id changed bucket_instances"
                return None
            if not ok or res[1][0] != 1 or res[1][2] != b:
                return f"lookup of an existing id gave {res}"
            if cached and res[1][1] != cached[0][1]:
                return "lookup did not return the cached handle"
            return None
        if code == VIA:
            b, hop = op[1][1], op[2]
            h = hop[0]
            if cache0 != cache1:
                return f"{base.HOPNAME[h]} through a handle changed bucket_instances"
            if h == 0:
                if b not in ref:
                    if ok or err != "ValueError":
                        return f"metadata() of a missing id: {'returned' if ok else 'raised ' + err}, expected ValueError"
                    return None
                if (not ok or res[1][0] != 0 or res[1][1][0] != 5 or res[1][1][1] != b
                        or (ref[b]["meta_known"] and not base.Oracle.meta_agrees(ref[b]["given"], res[1][1][2]))):
                    return f"metadata() returned {res}, the keyed map holds {ref[b]['given']}"
                return None
            if b not in ref:
                return None                 # event call on a missing bucket: C04's; the keyed map does not move
            r = ref[b]
            if not ok:
                r["known"] = False          # what a raising event write leaves behind is C02's
                return None
            if h == 4:
                self.pending += 1
                out = res[1][1]
                if out[0] != 1 or len(out[1]) != 1 or out[1][0][0] == []:
                    r["known"] = False
                    return None
                r["byid"][out[1][0][0][0]] = tuple(hop[1][1:])
            elif h == 5:
                self.pending += 1
                if any(e[0] != [] for e in hop[1]):
                    r["known"] = False
                r["anon"] += [tuple(e[1:]) for e in hop[1]]
            elif h == 6:
                self.pending += 1
                if hop[1] in r["byid"]:
                    del r["byid"][hop[1]]
                else:
                    r["known"] = False
            elif h == 8:
                self.pending += 1
                if hop[1] in r["byid"]:
                    r["byid"][hop[1]] = tuple(hop[2][1:])
                else:
                    r["known"] = False
            else:
                r["known"] = False          # reads (they commit) and replace_last are not generated in a tail
            return None
        return None

    def final(self, fin, cache):
        """fin = [listing, nrows, view...] taken after the tail."""
        listing, nrows, views = fin[0], fin[1], fin[2:]
        ref = self.ref
        for b, v in zip(self.univ, views):
            if v and v[0] == "raised":
                return f"after the calls, storage.{v[1]} of bucket {b} raises {v[2]}"
        if listing[0] != 0 or listing[1][0] != 6:
            return f"buckets() failed after the calls: {listing}"
        listed = listing[1][1]
        ids = [x[0] for x in listed]
        if ids != list(ref):
            return f"listed ids {ids}, the keyed map holds {list(ref)}"
        for b, m in listed:
            r = ref[b]
            if r["meta_known"] and not base.Oracle.meta_agrees(r["given"], m):
                return f"bucket {b} is listed as {m}, the keyed map holds {r['given']}"
            v = views[self.univ.index(b)]
            if v == [] or v[0][0] != m:
                return f"bucket {b}: get_metadata {v} and buckets() {m} differ"
            if not r["known"]:
                continue
            got = v[0][1]
            got_ids = [w[0][0] for w in got if w[0]]
            if len(set(got_ids)) != len(got_ids) or len(got_ids) != len(got):
                return f"bucket {b} holds events without an id or two events under one id: {got}"
            rest = sorted(tuple(w[1:]) for w in got if w[0][0] not in r["byid"])
            here = {w[0][0]: tuple(w[1:]) for w in got if w[0][0] in r["byid"]}
            if here != r["byid"] or rest != sorted(r["anon"]):
                exp = sorted(r["byid"].items())
                return (f"bucket {b} holds {[[w[0][0]] + w[1:] for w in got]}; the calls addressed to it account for "
                        f"{[[i] + list(p) for i, p in exp]}"
                        + (f" plus the bulk-inserted {sorted(r['anon'])}" if r["anon"] else ""))
        for b, v in zip(self.univ, views):
            if v != [] and b not in ids:
                return f"bucket {b} can be described but is not listed"
        if set(ids) <= set(self.univ):
            held = sum(len(v[0][1]) for v in views if v != [])
            if nrows != held:
                return (f"the back end holds {nrows} event rows, the listed buckets own {held}: "
                        "rows of a deleted bucket were left behind")
        for b, _ in cache:
            if b not in ids:
                return f"bucket_instances holds a handle for {b}, which does not exist"
        return None


def tag(text):
    """Short stable name of a verdict (numbers and payloads removed)."""
    import re
    t = text.split("): ", 1)[-1] if text.startswith("after ") else text
    return "-".join(re.sub(r"[^A-Za-z_ ()]", " ", t).split()[:6])


def judge(run, univ):
    """Verdict on one run with an unread tail: None, or (index of the call blamed, text).  The prefix is
    judged by the call-by-call oracle of harness/c05.py, the tail by QuietOracle."""
    qa = run["quiet_at"]
    orc = base.Oracle(univ)
    before = [[], [0, [6, []]], 0] + [[] for _ in univ]
    for j in range(qa):
        after = run["steps"][j][1:]
        v = orc.step(run["ops"][j], run["steps"][j][0], before, after)
        if v not in (None, "skip"):
            return j, v
        before = after
    if orc.raw_delete or any(v and v[0] == "raised" for v in before[3:]):
        return None
    q = QuietOracle(univ, before)
    cache = before[0]
    for j in range(qa, len(run["ops"])):
        res, cache1 = run["steps"][j]
        v = q.step(run["ops"][j], res, cache, cache1)
        if v is not None:
            return j, v
        cache = cache1
    v = q.final(run["final"], cache)
    if v is not None:
        calls = [base.describe(o) for o in run["ops"][qa:] if is_bucket_level(o)]
        return len(run["ops"]) - 1, (f"after {len(run['ops']) - qa} calls that were not read back one by one "
                                     f"({q.pending} event writes; bucket-level calls among them: {calls[:4]}): {v}")
    return None


def minimise(backend, sym, univ, quiet_from, budget=60):
    """Drop calls of the tail (last first), then of the set-up, while the same violation is still observed on a
    fresh storage.  In-process (a failing input only)."""
    import shutil
    import tempfile

    def verdict(cand, qf):
        tmp = tempfile.mkdtemp(prefix="awc05-min-")
        try:
            run = base.run_history(backend, cand, univ, tmp, 0, qf)
            return run, judge(run, univ)
        except Exception:  # noqa: BLE001 -- a candidate that cannot be run is not a smaller input
            return None, None
        finally:
            shutil.rmtree(tmp, ignore_errors=True)

    cur, qf = list(sym), quiet_from
    run, v0 = verdict(cur, qf)
    if v0 is None:
        return None
    want = tag(v0[1])
    i = len(cur) - 1
    while i >= 0 and budget > 0:
        cand = cur[:i] + cur[i + 1:]
        cqf = qf - 1 if i < qf else qf
        budget -= 1
        r, v = verdict(cand, cqf)
        if v is not None and tag(v[1]) == want:
            cur, qf, run, v0 = cand, cqf, r, v
        i -= 1
    return cur, qf, run, v0
