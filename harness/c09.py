"""C09 — filter_period_intersect / period_union / timeslot.Timeslot: correspondence with
Model/Timeslot.v + Model/Intersect.v (extracted) and the property statement evaluated
independently on the implementation's own outputs."""
import copy
import itertools
import json
import sys
from datetime import timedelta

from . import common
from .common import Check, sx
from .evutil import BASE, dt, us_of_dt, us_of_td, ev_unwire, ev_view, ev_wire, mk_event

RULE = ("Timeslot methods on every pair of slots of a 0..4 grid (negative durations included); "
        "filter_period_intersect and period_union on interval placements of a 0..6 grid (zero-length, "
        "touching, nested, identical, one spanning many; all 1x1 placements always; <=2 and <=3 events a "
        "side sampled in quick; thorough: exhaustive <=2 vs <=2 chains on 0..6, 3 vs <=1 on 0..6, 3 vs 2 on 0..4, "
        "union <=2 vs <=2 arbitrary on 0..5 and 3 vs <=1 on 0..4, plus 400k+300k sampled <=3-vs-<=3), then "
        "seeded random lists of 0..8 events "
        "(chains with sub-millisecond durations, shuffled; overlapping lists; a stream with unaligned "
        "timestamps written past the setter); five lists of 10 001+ events (one side, both sides, both functions); "
        "HISTORIES (harness/c09_hist.py): 44 hand-written + 900 (thorough 40 000) seeded sessions, each a sequence of calls "
        "in one fresh process on live Event objects - the same lists passed again after the caller changed an event, "
        "deep copies / flood() of earlier results, results annotated in place (put, categorize, tag) before later calls, "
        "results fed back, the same object on both sides - through the module function, the aw_transform export and the "
        "aw_query.functions registry; every call judged and modelled on its own arguments as they are at call time; "
        "ROUND 5 (harness/c09_edge.py, generic parts harness/txedge.py): the list parameters handed over as tuple / deque / list "
        "subclass / one-shot generator / iter() / reversed / map / filter objects (every kind on each side and on both sides of "
        "filter_period_intersect, the pairs period_union's `events1 + events2` supports; ordered, reversed and shuffled hand-over), "
        "compared with the list run on equal fresh objects, the caller's events, data (added keys, types) and containers untouched; "
        "event data of other dict TYPES (defaultdict, Counter, OrderedDict, a __missing__ subclass, str / int subclasses as values): "
        "pieces carry e's data typed; NUMERIC EXTREMES: layouts at instants of the years 1..9999, one event over the whole datetime "
        "range against short ones in every millennium, durations at and beyond 2**53 us, ends at the last millisecond of "
        "datetime.max (domain: every start and end is a representable datetime; beyond it only counted); FAULTS: data nested "
        "300..900 (random to 1200) deep under the default recursion limit and a one-off MemoryError injected at every deepcopy "
        "invocation of a call - the call raises the fault or returns exactly the fault-free result; "
        "non-trivial = distinct canonical case with at least one "
        "positively overlapping pair (intersection) or at least one merge (union); for a history call: second or later "
        "call of its session with a non-empty result")

DATA = [{"app": "a"}, {"app": "b"}, {"title": "x", "n": 1}, {}, {"afk": True}]
ERRCODE = {"KeyError": 4, "ValueError": 5, "IndexError": 6, "AttributeError": 7, "TypeError": 8}

# ---------------------------------------------------------------------------------------
# generators.  An event spec is (ts_us, dur_us, data, id); a case is (kind, A, B[, flag]).


def grid_intervals(n):
    return [(s, e - s) for s in range(n + 1) for e in range(s, n + 1)]


def chain_ok(lst):
    """internally non-overlapping after the function's own stable sort by start"""
    s = sorted(lst, key=lambda x: x[0])
    return all(a[0] + a[1] <= b[0] for a, b in zip(s, s[1:])) and all(x[1] >= 0 for x in s)


def wide_ok(lst):
    """non-negative durations and no two events overlap for a positive time (the wide domain of
    C09_intersect_*_wide; contains chain_ok).  A zero-length event overlaps nothing for a positive time, so this is:
    the positive-length events, sorted by start, satisfy end_i <= start_{i+1} (n log n: lists of 10^4 events occur)"""
    if any(x[1] < 0 for x in lst):
        return False
    pos = sorted((x[0], x[0] + x[1]) for x in lst if x[1] > 0)
    return all(a[1] <= b[0] for a, b in zip(pos, pos[1:]))


def wide_ok_pairwise(lst):
    """the definition, quadratic (cross-checked against wide_ok on the small cases of every run)"""
    return all(x[1] >= 0 for x in lst) and all(
        not (max(a[0], b[0]) < min(a[0] + a[1], b[0] + b[1])) for i, a in enumerate(lst) for b in lst[i + 1:])


def lists_upto(ivs, k, only_chains=False):
    out = [()]
    for n in range(1, k + 1):
        for tup in itertools.product(ivs, repeat=n):
            if not only_chains or chain_ok(tup):
                out.append(tup)
    return out


def mk_specs(tup, unit, tag, ids=True):
    return [(BASE + s * unit, d * unit, DATA[(i + tag) % 3], (10 * tag + i) if ids else None)
            for i, (s, d) in enumerate(tup)]


def gen_grid(rng, tier):
    """Deterministic boundary corpus + the 0..6 grid (sampled in quick, exhaustive in thorough)."""
    iv6 = grid_intervals(6)
    iv4 = grid_intervals(4)
    # every 1x1 placement, both functions, always
    for a in iv6:
        for b in iv6:
            yield ("isect", mk_specs((a,), 1000, 1), mk_specs((b,), 1000, 2))
            yield ("union", mk_specs((a,), 1000, 1), mk_specs((b,), 1000, 2))
    # hand-written layouts: docstring examples, one spanning many, identical, nested, stable ties
    hand = [
        (((2, 7), (12, 8)), ((0, 6), (8, 3), (13, 3), (18, 4))),          # docstring of filter_period_intersect
        (((2, 7), (16, 9)), ((0, 6), (8, 3), (13, 2), (19, 4))),          # docstring of period_union
        (((0, 20),), ((1, 2), (3, 0), (3, 4), (7, 1), (8, 12))),          # one spanning many, touching
        (((1, 2), (3, 0), (3, 4), (7, 1), (8, 12)), ((0, 20),)),
        (((0, 5), (5, 5)), ((0, 5), (5, 5))),                             # identical chains
        (((0, 0), (0, 5), (5, 0)), ((0, 0), (0, 5), (5, 0))),             # zero-length at both edges
        (((0, 5), (0, 0)), ((0, 5),)),                                    # zero-length after a positive one (outside A.1 domain)
        (((3, 3), (0, 3), (6, 0)), ((2, 2), (4, 4), (0, 1))),             # unsorted
        ((), ((0, 1),)), (((0, 1),), ()), ((), ()),
    ]
    for a, b in hand:
        for unit in (1000, 1_000_000):
            yield ("isect", mk_specs(a, unit, 1), mk_specs(b, unit, 2))
            yield ("union", mk_specs(a, unit, 1), mk_specs(b, unit, 2))
    chains3 = lists_upto(iv6, 3, only_chains=True)      # intersection domain: <=3 a side on 0..6
    any2 = lists_upto(iv6, 2)                           # arbitrary lists <=2 a side on 0..6
    any3 = lists_upto(iv4, 3)                           # arbitrary lists <=3 on 0..4
    any2_4 = lists_upto(iv4, 2)
    wide3 = [t for t in lists_upto(grid_intervals(5), 3) if wide_ok(t) and not chain_ok(t)]   # zero-length inside/at start of a positive one
    for _ in range(150000 if tier == "thorough" else 2000):
        a, b = rng.choice(wide3), rng.choice(wide3 if rng.random() < 0.5 else chains3)
        if rng.random() < 0.5:
            a, b = b, a
        yield ("isect", mk_specs(a, 1000, 1), mk_specs(b, 1000, 2))
    if tier == "thorough":
        # exhaustive: <=2 vs <=2 chains on 0..6; 3 vs <=1 on 0..6 (both roles); 3 vs 2 chains on 0..4
        # (both roles); then 400k sampled 3-vs-<=3 placements on 0..6
        chains2 = [c for c in chains3 if len(c) <= 2]
        chains1 = [c for c in chains3 if len(c) <= 1]
        c3 = [c for c in chains3 if len(c) == 3]
        for a in chains2:
            for b in chains2:
                yield ("isect", mk_specs(a, 1000, 1), mk_specs(b, 1000, 2))
        for a in c3:
            for b in chains1:
                yield ("isect", mk_specs(a, 1000, 1), mk_specs(b, 1000, 2))
                yield ("isect", mk_specs(b, 1000, 1), mk_specs(a, 1000, 2))
        chains3_4 = lists_upto(iv4, 3, only_chains=True)
        for a in chains3_4:
            for b in chains3_4:
                if len(a) == 3 and len(b) == 2:
                    yield ("isect", mk_specs(a, 1000, 1), mk_specs(b, 1000, 2))
                    yield ("isect", mk_specs(b, 1000, 1), mk_specs(a, 1000, 2))
        for _ in range(400000):
            yield ("isect", mk_specs(rng.choice(c3), 1000, 1), mk_specs(rng.choice(chains3), 1000, 2))
        # union: exhaustive <=2 vs <=2 arbitrary lists on 0..5, 3 vs <=1 on 0..4, then sampled <=3 vs <=3
        any2_5 = lists_upto(grid_intervals(5), 2)
        for a in any2_5:
            for b in any2_5:
                yield ("union", mk_specs(a, 1000, 1), mk_specs(b, 1000, 2))
        for a in any3:
            if len(a) == 3:
                for b in any2_4:
                    if len(b) <= 1:
                        yield ("union", mk_specs(a, 1000, 1), mk_specs(b, 1000, 2))
        for _ in range(300000):
            yield ("union", mk_specs(rng.choice(any3), 1000, 1), mk_specs(rng.choice(any3), 1000, 2))
        for _ in range(200000):
            yield ("isect", mk_specs(rng.choice(any2), 1000, 1), mk_specs(rng.choice(any2), 1000, 2))
    else:
        for _ in range(4000):
            yield ("isect", mk_specs(rng.choice(chains3), 1000, 1), mk_specs(rng.choice(chains3), 1000, 2))
        for _ in range(1500):
            yield ("isect", mk_specs(rng.choice(any2), 1000, 1), mk_specs(rng.choice(any2), 1000, 2))
        for _ in range(3000):
            yield ("union", mk_specs(rng.choice(any2), 1000, 1), mk_specs(rng.choice(any2), 1000, 2))
        for _ in range(2500):
            yield ("union", mk_specs(rng.choice(any3), 1000, 1), mk_specs(rng.choice(any3), 1000, 2))


def rand_chain(rng, unit, n, tag):
    t = rng.randrange(0, 4)
    out = []
    for i in range(n):
        t += rng.choice([0, 0, 0, 1, 1, 2, 5])
        d = rng.choice([0, 0, 1, 1, 2, 3, 7]) * unit
        if d and rng.random() < 0.25:
            d -= rng.choice([1, 250, 999])          # sub-millisecond end
        out.append((BASE + t * unit, d, copy.deepcopy(rng.choice(DATA)), rng.choice([None, 100 * tag + i])))
        t += -(-d // unit)
    rng.shuffle(out)
    return out


def rand_any(rng, unit, n, tag):
    out = []
    for i in range(n):
        t = rng.randrange(0, 14)
        d = rng.choice([0, 0, 1, 1, 2, 3, 6, 12]) * unit + rng.choice([0, 0, 0, 1, 500])
        out.append((BASE + t * unit, d, copy.deepcopy(rng.choice(DATA)), rng.choice([None, 100 * tag + i])))
    return out


def gen_random(rng, n):
    for _ in range(n):
        unit = rng.choice([1000, 1000, 1_000_000, 60_000_000])
        yield ("isect", rand_chain(rng, unit, rng.randrange(0, 9), 1), rand_chain(rng, unit, rng.randrange(0, 9), 2))
    for _ in range(n // 3):
        unit = rng.choice([1000, 1_000_000])
        yield ("isect", rand_any(rng, unit, rng.randrange(0, 7), 1), rand_any(rng, unit, rng.randrange(0, 7), 2))
    for _ in range(n):
        unit = rng.choice([1000, 1000, 1_000_000, 60_000_000])
        mk = rand_chain if rng.random() < 0.3 else rand_any
        yield ("union", mk(rng, unit, rng.randrange(0, 9), 1), rand_any(rng, unit, rng.randrange(0, 9), 2))
    # timestamps that are not millisecond aligned can only be produced by writing the dict
    # item past the property setter; the model claims faithfulness there too (floor_ms)
    for _ in range(n // 5):
        kind = rng.choice(["isect", "union"])
        a = [(t + rng.choice([0, 1, 500, 999]), d, x, i) for t, d, x, i in rand_any(rng, 1000, rng.randrange(0, 5), 1)]
        b = [(t + rng.choice([0, 1, 500, 999]), d, x, i) for t, d, x, i in rand_any(rng, 1000, rng.randrange(0, 5), 2)]
        yield (kind, a, b, "unaligned")


def gen_large(rng):
    """Lists longer than any plausible chunk / page / recursion constant (>= 10 001 events on a side; mostly in
    start order with a few displaced events, so that the model's insertion sort stays linear)."""
    def chain(n, tag, unit=1000, t0=0):
        out, t = [], t0
        for i in range(n):
            t += rng.choice([0, 0, 1, 2, 3])
            d = rng.choice([0, 1, 1, 2, 3, 4])
            out.append((BASE + t * unit, d * unit, DATA[(i + tag) % 3], (tag * 100_000 + i) if i % 7 else None))
            t += d
        for _ in range(4):
            i, j = rng.randrange(n), rng.randrange(n)
            out[i], out[j] = out[j], out[i]
        return out, t

    def anyl(n, tag, span, unit=1000):
        out = []
        for i in range(n):
            t = (i * span) // n + rng.randrange(0, 3)
            out.append((BASE + t * unit, rng.choice([0, 1, 1, 2, 3, 9]) * unit + rng.choice([0, 0, 500]), DATA[(i + tag) % 5],
                        tag * 100_000 + i))
        return out
    na, nb = rng.randrange(10_001, 10_400), rng.randrange(10_001, 10_400)
    big_a, end_a = chain(na, 1)
    holes = sorted(rng.sample(range(0, end_a), 8))
    few = [(BASE + lo * 1000, (hi - lo) * 1000, DATA[k % 3], 900 + k) for k, (lo, hi) in enumerate(zip(holes[::2], holes[1::2]))]
    big_b, _ = chain(nb, 2, t0=rng.randrange(0, 5))
    yield ("isect", big_a, few)
    yield ("isect", few, big_b)
    yield ("isect", big_a, big_b)
    yield ("union", anyl(na, 1, 3 * na), anyl(7, 2, 3 * na))
    yield ("union", anyl(5, 1, 5 * nb), anyl(nb, 2, 5 * nb))


# ---------------------------------------------------------------------------------------
# running the implementation


def build(Event, specs, unaligned=False):
    objs = []
    for t, d, x, i in specs:
        e = mk_event(Event, t, d, copy.deepcopy(x), eid=i)
        if unaligned:
            dict.__setitem__(e, "timestamp", dt(t))
        objs.append(e)
    return objs


def snapshot(objs):
    return [(id(o), json.dumps({"id": o.get("id"), "ts": us_of_dt(o["timestamp"]), "dur": us_of_td(o["duration"]),
                                "data": o.get("data"), "keys": sorted(o.keys())}, sort_keys=True, default=str))
            for o in objs]


def errcode(ex):
    return ERRCODE.get(type(ex).__name__, 10)


def hidden_state(objs):
    """instance attributes of the Event objects (Event is a dict subclass: what a memo hung on the INSTANCE changes,
    invisible to ==, to the dict view and to JSON)"""
    return [(id(o), sorted((k, repr(v)) for k, v in getattr(o, "__dict__", {}).items())) for o in objs]


def observe_call(kind, a, b, fn, labels, strict=False):
    """Run one call fn(a, b) on the given list objects (whatever their history) -> (canonical result, views of the
    inputs as the implementation received them, modification report or None, the returned list).
    strict: also report instance attributes appearing on / disappearing from the input Event objects."""
    va = [ev_view(e, labels) for e in a]
    vb = [ev_view(e, labels) for e in b]
    sa, sb = snapshot(a), snapshot(b)
    ha, hb = (hidden_state(a), hidden_state(b)) if strict else (None, None)
    la, lb = list(a), list(b)
    try:
        out = fn(a, b)
        res = [0, [ev_view(e, labels) for e in out]]
    except Exception as ex:  # noqa: BLE001 -- the class is the observable
        res = [1, errcode(ex)]
        out = []
    mod = None
    if len(a) != len(la) or len(b) != len(lb) or any(x is not y for x, y in zip(a, la)) \
            or any(x is not y for x, y in zip(b, lb)):
        mod = "an input list was reordered or resized"
    elif kind == "union":
        pass            # period_union: the documented weaker frame (heap-level model, harness/theap.py)
    elif snapshot(a) != sa or snapshot(b) != sb:
        mod = "an input event was modified"
    elif {id(o) for o in out} & {id(i) for i in la + lb}:
        mod = "an output event is an input object (not a copy)"
    elif {id(o.data) for o in out if o.data != {}} & {id(i.data) for i in la + lb}:
        mod = "an output event shares its data dict with an input event"
    elif strict and (hidden_state(a) != ha or hidden_state(b) != hb):
        mod = "an input event was modified (its instance attributes changed: %s)" % sorted(
            {k for _, kv in hidden_state(a) + hidden_state(b) for k, _ in kv} ^ {k for _, kv in ha + hb for k, _ in kv})
    return res, va, vb, mod, out


def run_impl(case, Event, fpi, labels):
    """-> (canonical result, views of the inputs as the implementation received them,
           modification report or None)"""
    kind, A, B = case[0], case[1], case[2]
    unaligned = len(case) > 3
    a = build(Event, A, unaligned)
    b = build(Event, B, unaligned)
    fn = fpi.filter_period_intersect if kind == "isect" else fpi.period_union
    res, va, vb, mod, _ = observe_call(kind, a, b, fn, labels)
    return res, va, vb, mod


# ---------------------------------------------------------------------------------------
# the property statement, computed independently on the implementation's output


def measure_common(A, B):
    """measure of (union of A) ∩ (union of B) by a boundary sweep (coverage counters; n log n)"""
    evs = []
    for side, L in ((0, A), (1, B)):
        for t, d in L:
            if d > 0:
                evs.append((t, 0, side, 1))
                evs.append((t + d, 0, side, -1))
    evs.sort()
    cov = [0, 0]
    tot, prev = 0, None
    for p, _, side, step in evs:
        if prev is not None and cov[0] > 0 and cov[1] > 0:
            tot += p - prev
        cov[side] += step
        prev = p
    return tot


def measure_common_cells(A, B):
    """the same by testing every elementary cell against every interval (quadratic; cross-checked on small cases)"""
    pts = sorted({p for t, d in A + B for p in (t, t + d)})
    tot = 0
    for lo, hi in zip(pts, pts[1:]):
        if any(t <= lo and hi <= t + d for t, d in A) and any(t <= lo and hi <= t + d for t, d in B):
            tot += hi - lo
    return tot


def closed_union(ivs):
    """the unique list of maximal closed intervals whose union is the union of the closed
    input intervals [t, t+d] (isolated points stay as zero-length intervals)"""
    out = []
    for s, e in sorted((t, t + d) for t, d in ivs):
        if out and s <= out[-1][1]:
            out[-1][1] = max(out[-1][1], e)
        else:
            out.append([s, e])
    return [tuple(x) for x in out]


def pieces_of_pairs(va, vb, force=None):
    """([e∩f with e's id and data for every positively overlapping pair], [the zero-length e∩f of touching pairs]).
    Small inputs: every pair is looked at.  Large inputs (a 10^4-event list on each side would be 10^8 pairs):
    for each f only the e whose start lies in [start f - longest e, end f] (bisection on the sorted starts) - every
    other e ends before f starts or starts after f ends.  Both routes are compared on the small cases of every run."""
    expected, touching = [], []
    indexed = force if force is not None else len(va) * len(vb) > 250_000
    if not indexed:
        for (i, t, d, x) in va:
            for (_, t2, d2, _) in vb:
                lo, hi = max(t, t2), min(t + d, t2 + d2)
                if lo < hi:
                    expected.append((i, lo, hi - lo, x))
                elif lo == hi:
                    touching.append((i, lo, 0, x))
        return expected, touching
    import bisect
    sa = sorted(va, key=lambda e: e[1])
    starts = [e[1] for e in sa]
    longest = max([e[2] for e in sa] + [0])
    for (_, t2, d2, _) in vb:
        k0 = bisect.bisect_left(starts, min(t2, t2 + d2) - longest)
        k1 = bisect.bisect_right(starts, max(t2, t2 + d2))
        for (i, t, d, x) in sa[k0:k1]:
            lo, hi = max(t, t2), min(t + d, t2 + d2)
            if lo < hi:
                expected.append((i, lo, hi - lo, x))
            elif lo == hi:
                touching.append((i, lo, 0, x))
    return expected, touching


def brief(lst, n=12):
    return lst if len(lst) <= n else "%s ... (%d in all)" % (lst[:n], len(lst))


def oracle_isect(va, vb, res, mod, labels):
    if mod:
        return "not-modified: " + mod
    if res[0] != 0:
        return f"raises: error class {res[1]}"
    out = res[1]
    in_domain = wide_ok([(t, d) for _, t, d, _ in va]) and wide_ok([(t, d) for _, t, d, _ in vb])
    expected, touching = pieces_of_pairs(va, vb)
    pos = [o for o in out if o[2] > 0]
    rest = [o for o in out if o[2] <= 0]
    touching_s, expected_s, pos_s = set(touching), set(expected), set(pos)
    for o in rest:
        if o[2] < 0:
            return f"sound: piece of negative length {o}"
        if in_domain and o not in touching_s:
            return f"sound: zero-length piece {o} is not e∩f of any pair"
    for o in pos:
        if o not in expected_s:
            return f"sound: piece {o} is not e∩f (with e's id and data) of any positively overlapping pair"
    if not in_domain:
        return None
    for p in expected:
        if p not in pos_s:
            return f"complete: overlapping pair's piece {p} missing from {brief(out)}"
    if sorted(pos, key=repr) != sorted(expected, key=repr):
        return f"no-duplicate: pieces {brief(pos)} vs pairs {brief(expected)}"
    m = measure_common([(t, d) for _, t, d, _ in va], [(t, d) for _, t, d, _ in vb])
    if sum(o[2] for o in out) != m:
        return f"measure: total duration {sum(o[2] for o in out)} != common time {m}"
    return None


def oracle_union(va, vb, res, labels, grid_unit=None):
    if res[0] != 0:
        return f"raises: error class {res[1]}"
    out = res[1]
    ins = [(t, d) for _, t, d, _ in va + vb]
    if any(d < 0 for _, d in ins):
        return None
    for o in out:
        if labels.value(o[3]) != {}:
            return f"data-less: output {o} carries data {labels.value(o[3])}"
        if o[2] < 0:
            return f"covers: output of negative length {o}"
    for a, b in zip(out, out[1:]):
        if not a[1] + a[2] < b[1]:
            return f"sorted-gapped: {a} then {b} are not separated by a strictly positive gap"
    if [(o[1], o[1] + o[2]) for o in out] != closed_union(ins):
        return f"covers: output {[(o[1], o[1] + o[2]) for o in out]} != union of inputs {closed_union(ins)}"
    if grid_unit:      # point-set check on the grid cells, independent of closed_union
        lo = min([t for t, _ in ins], default=0)
        for k in range(0, 8):
            c0, c1 = lo + k * grid_unit, lo + (k + 1) * grid_unit
            cin = any(t <= c0 and c1 <= t + d for t, d in ins)
            cout = any(o[1] <= c0 and c1 <= o[1] + o[2] for o in out)
            if cin != cout:
                return f"covers: grid cell {k} covered by inputs={cin} by output={cout}"
    tot = sum(o[2] for o in out)
    if tot != sum(e - s for s, e in closed_union(ins)):
        return f"measure: total duration {tot} != covered time"
    return None


def oracle_slot(s1, e1, s2, e2, r):
    """Timeslot: what aw-core relies on, for valid (non-negative) slots."""
    inter, gap, uni, flags = r
    if e1 < s1 or e2 < s2:
        return None
    lo, hi = max(s1, s2), min(e1, e2)
    if lo < hi and inter != [[lo, hi]]:
        return f"intersection of positively overlapping slots is {inter}, expected {(lo, hi)}"
    if inter != [] and (inter != [[lo, hi]] or lo > hi):
        return f"intersection {inter} is not [max starts, min ends]"
    sep = e1 < s2 or e2 < s1
    if sep != (gap != []):
        return f"gap is {gap} for slots separated={sep}"
    if sep != (uni[0] == 1):
        return f"union raised={uni[0] == 1} for slots separated={sep}"
    if not sep and uni != [0, [min(s1, s2), max(e1, e2)]]:
        return f"union is {uni}"
    return None


def run_slot(Timeslot, s1, e1, s2, e2):
    p, q = Timeslot(dt(s1), dt(e1)), Timeslot(dt(s2), dt(e2))

    def sl(x):
        return [] if x is None else [[us_of_dt(x.start), us_of_dt(x.end)]]
    inter = sl(p.intersection(q))
    gap = sl(p.gap(q))
    try:
        u = p.union(q)
        uni = [0, [us_of_dt(u.start), us_of_dt(u.end)]]
    except Exception as ex:  # noqa: BLE001
        uni = [1, errcode(ex)]
    flags = [int(p.contains(q)), int(p.overlaps(q)), int(p.adjacent(q)), us_of_td(p.duration)]
    return [inter, gap, uni, flags]


# ---------------------------------------------------------------------------------------


def wire_events(views):
    return [ev_wire(v) for v in views]


def canon_out(res):
    return [0, [tuple(e) for e in res[1]]] if res[0] == 0 else list(res)


def decode_model(m):
    if m[0] == 0:
        return [0, [ev_unwire(e) for e in m[1]]]
    return m


def shrink_case(case, fails):
    kind, A, B = case[0], case[1], case[2]
    tail = tuple(case[3:])
    A = common.shrink_list(A, lambda a: fails((kind, a, B) + tail))
    B = common.shrink_list(B, lambda b: fails((kind, A, b) + tail))
    return (kind, A, B) + tail


def main(argv=None):
    ck = Check("C09", argv)
    common.setup_impl_env()
    from aw_core.models import Event
    import importlib
    fpi = importlib.import_module("aw_transform.filter_period_intersect")   # the package re-exports a function of the same name
    from timeslot import Timeslot
    ck.coverage["timeslot_source"] = getattr(sys.modules["timeslot.timeslot"], "__file__", "?")
    from . import c09_hist
    hist_runner = c09_hist.make_runner(sys.modules[__name__])     # pristine snapshot: nothing of aw-core has been called yet

    ck.prove(extra_targets=EXTRA_TARGETS + ["Props/C09own.v"], gen_kernels=GEN_KERNELS)
    have_driver = ck.driver()
    from . import theap            # "inputs not modified": heap-level model (Props/C09own.v), tie A with aliasing
    theap.heap_check(ck, ["filter_period_intersect", "period_union"], have_driver=theap.prepare(ck))

    labels = common.Labels()
    empty = labels.label({})
    wire, checks = [], []          # checks[i] = (stream, description prefix, expected canonical, replay)

    # ---- Timeslot itself
    for s1, e1, s2, e2 in itertools.product(range(5), repeat=4):
        args = [BASE + s1 * 1000, BASE + e1 * 1000, BASE + s2 * 1000, BASE + e2 * 1000]
        r = run_slot(Timeslot, *args)
        ck.count("timeslot")
        ck.note_case(["slot", s1, e1, s2, e2], nontrivial=(r[0] != []))
        bad = oracle_slot(*args, r)
        if bad:
            ck.failing_input("C09:timeslot", "Timeslot: " + bad,
                             {"call": "Timeslot(start1,end1) vs Timeslot(start2,end2)", "slots_us": args, "impl": r})
        for tag, exp in zip((3, 4, 5, 6), r):
            wire.append(sx([tag] + args))
            checks.append(("timeslot", f"Timeslot method {tag} on {args}", exp, {"case": wire[-1], "impl": exp}))

    # ---- histories: sequences of calls in one process on live objects (harness/c09_hist.py).  Every session runs in
    # a process forked from the pristine snapshot, so its findings are self-contained scripts; they are looked for first
    # because a single case of the stream below that fails only through what earlier cases left behind in this process
    # could not be replayed on its own
    c09_hist.run(ck, hist_runner, labels, wire, checks, wire_events, canon_out, empty)
    hist_runner.close()

    # ---- the two transforms
    n_rand = 2500 if ck.tier == "quick" else 100000
    cases = itertools.chain(gen_grid(ck.rng, ck.tier), gen_random(ck.rng, n_rand), gen_large(ck.rng))
    branch_rows = []
    for case in cases:
        kind, A, B = case[0], case[1], case[2]
        unaligned = len(case) > 3
        res, va, vb, mod = run_impl(case, Event, fpi, labels)
        ck.count(kind + ("-unaligned" if unaligned else ""))
        ck.count("len=%d+%d" % (min(len(A), 4), min(len(B), 4)) if len(A) < 4 and len(B) < 4 else
                 ("len>=4" if max(len(A), len(B)) <= 10_000 else "len>10000"))
        if len(A) * len(B) <= 64:       # the fast forms of the oracle's helpers against their definitions
            ia, ib = [(t, d) for _, t, d, _ in va], [(t, d) for _, t, d, _ in vb]
            p1, p2 = pieces_of_pairs(va, vb, force=False), pieces_of_pairs(va, vb, force=True)
            if wide_ok(ia) != wide_ok_pairwise(ia) or measure_common(ia, ib) != measure_common_cells(ia, ib) \
                    or [sorted(x, key=repr) for x in p1] != [sorted(x, key=repr) for x in p2]:
                raise AssertionError("harness bug: fast and defining forms of an oracle helper differ on %r" % (case,))
        rel = [kind, [(t - BASE, d, labels.label(x), i) for t, d, x, i in A],
               [(t - BASE, d, labels.label(x), i) for t, d, x, i in B]]
        bad = None
        if kind == "isect":
            posov = any(max(t, t2) < min(t + d, t2 + d2) for _, t, d, _ in va for _, t2, d2, _ in vb)
            dom = chain_ok([(t, d) for _, t, d, _ in va]) and chain_ok([(t, d) for _, t, d, _ in vb])
            wdom = wide_ok([(t, d) for _, t, d, _ in va]) and wide_ok([(t, d) for _, t, d, _ in vb])
            ck.count("isect-in-A1-domain" if dom else ("isect-in-wide-domain-only" if wdom else "isect-outside-domain"))
            ck.note_case(rel, nontrivial=posov)
            if not unaligned:
                bad = oracle_isect(va, vb, res, mod, labels)
            elif mod:
                bad = "not-modified: " + mod
            wire.append(sx([0, wire_events(va), wire_events(vb)]))
            checks.append(("filter_period_intersect", f"{rel}", canon_out(res), {"case": wire[-1], "impl": res}))
            wire.append(sx([2, wire_events(va), wire_events(vb)]))
            checks.append(("branches", None, None, None))
            if len(ck.samples) < 3 and posov and len(A) >= 2 and res[0] == 0 and len(res[1]) >= 2:
                ck.sample({"call": "filter_period_intersect", "events_us_rel": rel[1], "filterevents_us_rel": rel[2],
                           "impl": [[i, t - BASE, d, labels.value(x)] for i, t, d, x in res[1]]})
        else:
            merged = res[0] == 0 and len(res[1]) < len(A) + len(B)
            ck.count("union-merged" if merged else "union-no-merge")
            ck.note_case(rel, nontrivial=merged)
            if not unaligned:
                grid_unit = 1000 if all((t - BASE) % 1000 == 0 and d % 1000 == 0 and t - BASE <= 7000 and d <= 7000
                                        for t, d, _, _ in A + B) else None
                bad = oracle_union(va, vb, res, labels, grid_unit)
            wire.append(sx([1, empty, wire_events(va), wire_events(vb)]))
            checks.append(("period_union", f"{rel}", canon_out(res), {"case": wire[-1], "impl": res}))
            if 3 <= len(ck.samples) < 6 and merged and len(res[1]) >= 2:
                ck.sample({"call": "period_union", "events1_us_rel": rel[1], "events2_us_rel": rel[2],
                           "impl": [[i, t - BASE, d, labels.value(x)] for i, t, d, x in res[1]]})
        if bad:
            def fails(c, _kind=kind, _unal=unaligned):
                r2, a2, b2, m2 = run_impl(c, Event, fpi, labels)
                if _kind == "isect":
                    return bool(m2) if _unal else oracle_isect(a2, b2, r2, m2, labels) is not None
                return oracle_union(a2, b2, r2, labels) is not None
            small = shrink_case(case, fails) if len(ck.violations) < 3 else case
            r2, a2, b2, m2 = run_impl(small, Event, fpi, labels)
            clause = bad.split(":")[0]
            if kind == "isect":
                bad = (("not-modified: " + m2) if (unaligned and m2) else oracle_isect(a2, b2, r2, m2, labels)) or bad
            else:
                bad = oracle_union(a2, b2, r2, labels) or bad
            ck.failing_input(f"C09:{kind}:{clause}", f"{kind}: {bad}",
                             {"call": "filter_period_intersect" if kind == "isect" else "period_union",
                              "events1": [list(x) for x in small[1]], "events2": [list(x) for x in small[2]],
                              "unaligned": unaligned, "impl_output": r2, "violated": bad,
                              "rerun": "PYTHONPATH=%s:%s /venv/bin/python -m harness.c09_replay '%s'" % (
                                  common.REPO, common.VERIF,
                                  json.dumps([small[0], [list(x) for x in small[1]], [list(x) for x in small[2]]]
                                             + list(small[3:])))})

    # ---- round 5 (harness/c09_edge.py): containers other than list, data dict types, numeric extremes, faults
    from . import c09_edge
    try:
        c09_edge.run(ck, Event, fpi, labels, wire, checks, empty, sys.modules[__name__])
    except Exception as ex:  # noqa: BLE001 -- a tree on which the edge streams cannot run must not cost the findings made so far
        ck.disagreement("edge streams", "harness/c09_edge.py could not complete against this tree: %s: %s" % (type(ex).__name__, str(ex)[:300]),
                        {"stream": "c09_edge.run", "error": type(ex).__name__})

    if have_driver:
        model = common.run_driver("C09", wire)
        for (stream, desc, exp, replay), mo in zip(checks, model):
            if stream == "branches":
                for code in mo:
                    ck.count("model-branch-%d" % code)
                if 5 in mo or 9 in mo:
                    ck.disagreement("sweep", f"model reached the unreachable/out-of-fuel branch: {mo}", {"branches": mo})
                continue
            got = mo if stream == "timeslot" else decode_model(mo)
            want = exp
            if stream != "timeslot":
                want = canon_out(exp)
            else:
                got = json.loads(json.dumps(got))
            if got != want:
                ck.disagreement(stream, f"{desc}: model {got} impl {want}", dict(replay() if callable(replay) else replay, model=mo))
        for b in (1, 2, 3, 4):
            if not ck.dist.get("model-branch-%d" % b):
                ck.coverage.setdefault("unreached_model_branches", []).append(b)
    ck.coverage["ties"] = TIES
    ck.assumptions += [
        "event data enters the model as harness-assigned labels (one per Python == class); {} has its own label, "
        "passed to the model's period_union",
        "intersection theorems: both lists, after the function's own stable sort by timestamp, have non-negative "
        "durations and consecutive end_i <= start_{i+1} (sound/complete/no-dup/output-nonoverlapping/covers/measure), or, "
        "wider, no two events of a list overlap for a positive time (complete/no-dup/total duration); timestamps "
        "millisecond-aligned (Event's setter guarantees it); the oracle checks the wide domain",
        "union theorems: non-negative durations, millisecond-aligned timestamps; otherwise arbitrary",
        "'inputs are not modified' (filter_period_intersect): theorem over the heap-level model (Props/C09own.v: frame, "
        "freshness, refinement for every aliasing; period_union: refinement + exactly which cells change), tied by "
        "harness/theap.py; in the functional model deepcopy is the identity on values, sorted()/list.sort a stable insertion sort",
    ]
    return ck.finish(RULE)


EXTRA_TARGETS = ["Bridge/BridgeTimeslot.v"]
GEN_KERNELS = ["Timeslot.duration", "Timeslot.contains", "Timeslot.overlaps", "Timeslot.intersection",
               "Timeslot.adjacent", "Timeslot.gap", "Timeslot.union", "_get_event_period",
               "_replace_event_period", "_intersecting_eventpairs.body", "period_union.body"]
TIES = {"Timeslot.duration/contains/overlaps/intersection/adjacent/gap/union": "A+B",
        "_get_event_period, _replace_event_period": "A+B",
        "_intersecting_eventpairs": "A+B (loop body as a step function; loop skeleton and sorts matched "
                                    "syntactically by the translator and tied by A)",
        "period_union": "A+B (loop body; sort, seeding and data-clearing matched syntactically, tied by A)",
        "filter_period_intersect": "A"}

if __name__ == "__main__":
    sys.exit(main())
