"""C12 — queries only read: bucket data is unchanged and scoped to the query window.

Proof side: Props/C12.v (heap model Model/MemHeap.v + Model/MemHeapQuery.v).
Tie A, on every run:
  1. generated query programs (annotating, data-clearing, re-timing, sorting, limiting built-ins;
     programs that raise midway: unknown bucket, wrong types, unknown function, syntax error after
     valid statements, missing RETURN) on all three real back ends with a full dump of every
     bucket (metadata, events with ids, lookup by id, count) through the storage API before and
     after -- the property oracle;
  2. query_bucket(b) == datastore[b].get(starttime, endtime) and query_bucket_eventcount(b) ==
     datastore[b].get_eventcount(starttime, endtime) for many windows (any whole-minute UTC
     offset, sub-millisecond instants, zero-width and inverted windows) on all three back ends,
     and iso8601.parse_date(x.isoformat()) == x on every generated window (the oracle hypothesis
     of C12_query_bucket_is_get); and the same comparison for EVERY read of EVERY generated program
     at the moment its result is handed out (harness/c12_reads.py: second and later reads of a
     bucket after built-ins changed the earlier results in place, counts after reads, reads after
     the program assigned another window, reads of a later query of the same process after a
     mutating query or a write to the bucket), plus the reads a program returns untouched;
  3. on the memory back end the storage calls a query makes are observed (spy on the storage
     object) and replayed on the extracted heap model (coq/Extract/ExC12.v): which methods a
     query calls (only reads), what each read returns, the store's content after each read, and
     the sharing graph (id()-walk of everything the query got hold of and of storage.db /
     storage._metadata: disjoint, as `Sep` says); window plumbing is compared with the model's
     q2_query_bucket / q2_query_bucket_eventcount too;
  4. the ownership histories of harness/c01_own.py (storage calls interleaved with caller
     mutations at every depth) against the same model;
  5. (round 5) harness/c12_faults.py: queries whose storage read fails, after writes nobody has read; the state afterwards is
     compared with the harness's own ledger of its writes (a dump before the query would flush the sqlite store's lazily
     committed transaction); on sqlite a second connection checks that everything is durable after a failed read of events
     (Props/C12sqlfault.v: the failing read's script is [Commit; ReadFails]);
  6. a static cross-check (an ast scan, not a proof): aw_query/functions.py, aw_query/query2.py and
     aw_transform/* reach a datastore/storage only through buckets, __getitem__, metadata, get,
     get_eventcount."""
import ast
import copy
import json
import os
import random
import subprocess
import sys
from datetime import datetime, timedelta, timezone

from . import common
from . import c01_own as own
from . import c12_reads as reads
from . import c12_faults as faults
from .common import Check, sx
from .evutil import BASE, dt, us_of_dt, us_of_td

RULE = ("boundary windows and programs first (zero-width, inverted, sub-millisecond, every UTC offset class; per built-in that "
        "mutates its arguments: the plain call, and the call followed by a re-read of the same bucket (events and count) returned "
        "untouched -- reads nested in the call, the count taken first, an earlier untouched read of the same bucket kept; a program "
        "that assigns STARTTIME/ENDTIME between reads; one program per failure kind after valid statements), then seeded random "
        "programs of 2-12 statements over 1-3 populated buckets and random windows with reads of events and counts at any position "
        "(preferably of a bucket read before), built-ins and window assignments in between, returning the reads no later statement "
        "was given; sequences of queries on one Datastore object (mutating query, reading query over the same window under equal / "
        "re-offset datetimes, the same bucket name and window on a second live storage instance (memory, sqlite), an insert/delete/"
        "replace in between, another window and back); one bucket of 10 050 events read, annotated, re-read and read again by later "
        "queries (sqlite; every back end in the thorough tier); per window a program with counts "
        "before/between/after two reads and an annotating built-in.  Every read of every program is compared at hand-out with the "
        "direct windowed read.  Round 5: windows whose UTC offset has a seconds part (fixed offsets such as +01:00:30, -00:44:30, "
        "+00:00:00.000001; Europe/Amsterdam before 1937, Africa/Monrovia before 1972; also assigned by the program): the query raises or "
        "equals the direct read; queries whose storage read FAILS (a stored event that ends in year 10000 -- put there by replace_last / "
        "replace / insert --, the k-th SELECT raising at execute or after j fetched rows on sqlite, at execute on peewee, the storage read "
        "method raising before / after its work on every back end) after 0-45 writes nobody has read yet (single and bulk inserts, "
        "replace, replace_last, delete, in the bucket read and in the others): every bucket afterwards against the harness's own record "
        "of what it wrote, then the same query without the fault.  non-trivial = a program that read at least one bucket with events in the window and then applied a "
        "mutating built-in or raised midway")

READ_METHODS = {"buckets", "get_metadata", "get_events", "get_eventcount", "get_event"}
ALLOWED_DS_ATTRS = {"buckets", "__getitem__", "metadata", "get", "get_eventcount"}
WRITE_METHODS = {"create_bucket", "update_bucket", "delete_bucket", "insert_one", "insert_many", "replace",
                 "replace_last", "delete"}

APPS = ["firefox", "code", "term", "slack"]
TITLES = ["inbox - mail", "main.py - code", "bash", "general | slack", "docs.python.org - firefox"]


# ---------------------------------------------------------------------------
# static cross-check

def static_scan(repo):
    """every attribute access / call on a name that holds a datastore, bucket or storage in the query
    and transform modules; returns (violations, summary)"""
    files = [os.path.join(repo, "aw_query", "functions.py"), os.path.join(repo, "aw_query", "query2.py")]
    tdir = os.path.join(repo, "aw_transform")
    files += sorted(os.path.join(tdir, f) for f in os.listdir(tdir) if f.endswith(".py"))
    bad, seen = [], {}
    for path in files:
        src = open(path).read()
        tree = ast.parse(src)
        rel = os.path.relpath(path, repo)
        if "aw_transform" in rel:
            # transform modules must not even import a datastore
            for node in ast.walk(tree):
                if isinstance(node, (ast.Import, ast.ImportFrom)):
                    names = [a.name for a in node.names] + [getattr(node, "module", "") or ""]
                    if any("aw_datastore" in n for n in names):
                        bad.append(f"{rel}:{node.lineno}: imports aw_datastore")
        for node in ast.walk(tree):
            if isinstance(node, ast.Attribute):
                base = node.value
                # datastore.<attr>, datastore[...].<attr>, *.storage_strategy.<attr>
                via = None
                if isinstance(base, ast.Name) and base.id in ("datastore", "ds"):
                    via = "datastore"
                elif isinstance(base, ast.Subscript) and isinstance(base.value, ast.Name) and base.value.id in ("datastore", "ds"):
                    via = "bucket"
                elif isinstance(base, ast.Attribute) and base.attr == "storage_strategy":
                    via = "storage"
                if node.attr == "storage_strategy":
                    bad.append(f"{rel}:{node.lineno}: reaches the storage strategy directly")
                if via:
                    seen[f"{via}.{node.attr}"] = seen.get(f"{via}.{node.attr}", 0) + 1
                    if node.attr not in ALLOWED_DS_ATTRS:
                        bad.append(f"{rel}:{node.lineno}: {via}.{node.attr}")
                if node.attr in WRITE_METHODS and not (isinstance(base, ast.Name) and base.id in ("self", "namespace")):
                    # any call spelled like a storage write, whatever the receiver
                    par = f"{rel}:{node.lineno}: .{node.attr}"
                    if "aw_query" in rel or "aw_transform" in rel:
                        if node.attr not in ("replace", "delete"):      # str.replace / datetime.replace are everywhere
                            bad.append(par)
    return bad, seen


# ---------------------------------------------------------------------------
# populating, dumping

def populate(storage, Event, rng, nb, world=None):
    """1-3 buckets with events around BASE; returns {bucket: n}.  With a World (memory back end) every
    call goes through it, so that the model is brought to the same state op by op"""
    sizes = {}
    for b in range(1, nb + 1):
        name = own.bname(b)
        data = {"owner": {"n": b}} if b % 2 else None
        if world is not None:
            world.create_bucket(b, world.alloc(data) if data else None, None, "currentwindow", "c", "host%d" % (b % 2))
        else:
            storage.create_bucket(name, "currentwindow", "c", "host%d" % (b % 2), own.CREATED, None, data)
        n = rng.choice([0, 1, 3, 6, 10]) if b > 1 else rng.choice([3, 6, 10])
        t = BASE
        evs = []
        for _ in range(n):
            t += rng.choice([0, 1000, 500_000, 1_000_000, 3_000_000])
            d = rng.choice([0, 1000, 250_000, 1_000_000, 4_000_000])
            data = {"app": rng.choice(APPS), "title": rng.choice(TITLES)}
            if rng.random() < 0.3:
                data["url"] = "https://example.org/p?q=%d" % rng.randrange(5)
            if rng.random() < 0.2:
                data["nested"] = {"k": [1, {"z": None}]}
            evs.append(Event(timestamp=dt(t), duration=timedelta(microseconds=d), data=data))
        bulk = rng.random() < 0.5
        if evs and world is not None:
            refs = [world.alloc(e) for e in evs]
            if bulk:
                world.insert_many(b, refs)
            else:
                for r in refs:
                    world.insert_one(b, r)
            world.drop_all()
        elif evs:
            if bulk:
                storage.insert_many(name, evs)
            else:
                for e in evs:
                    storage.insert_one(name, e)
        sizes[name] = n
    return sizes


def full_dump(storage, by_id=True):
    out = []
    bs = storage.buckets()
    for b in sorted(bs):
        evs = storage.get_events(b, -1)
        rows = []
        for e in evs:
            g = storage.get_event(b, e.id) if by_id else e       # (no lookup per id in the round with the large bucket)
            rows.append((e.id, us_of_dt(e.timestamp), us_of_td(e.duration), json.dumps(e.data, sort_keys=True),
                         None if g is None else (us_of_dt(g.timestamp), us_of_td(g.duration), json.dumps(g.data, sort_keys=True))))
        rows.sort(key=lambda r: (r[1], r[0]))
        out.append((b, json.dumps(bs[b], sort_keys=True, default=str), json.dumps(storage.get_metadata(b), sort_keys=True, default=str),
                    rows, storage.get_eventcount(b)))
    return out


ev_rows = reads.ev_rows


def facade_dump(ds):
    """every bucket once more, through the Datastore object the queries of the round share (Bucket.metadata / get /
    get_eventcount): "exactly as they were" holds at this level of the API too"""
    out = []
    for b in sorted(ds.buckets()):
        bk = ds[b]
        rows = sorted(ev_rows(bk.get(-1)), key=lambda r: (r[1], r[0]))
        out.append((b, json.dumps(bk.metadata(), sort_keys=True, default=str), rows, bk.get_eventcount()))
    return out


def write_between(what, storage, world, Event, rng, bk, a, b, sizes, history):
    """the bucket changes between two queries (through the World on the memory back end, so that the model follows)"""
    bnum = int(bk[1:])
    t = a + rng.randrange(0, max(1, min(b - a, 20_000_000)))
    ev = Event(timestamp=dt(t - t % 1000), duration=timedelta(microseconds=rng.choice([0, 1000, 2_000_000])),
               data={"app": rng.choice(APPS), "title": "written between two queries", "url": "https://example.org/w?q=%d" % rng.randrange(5)})
    existing = sorted(e.id for e in storage.get_events(bk, -1))
    if what != "insert" and not existing:
        what = "insert"
    eid = rng.choice(existing) if existing else None
    if world is not None:
        if what == "insert":
            world.insert_one(bnum, world.alloc(ev))
        elif what == "delete":
            world.delete(bnum, eid)
        else:
            world.replace(bnum, eid, world.alloc(ev))
        world.drop_all()
    elif what == "insert":
        storage.insert_one(bk, ev)
    elif what == "delete":
        storage.delete(bk, eid)
    else:
        storage.replace(bk, eid, ev)
    sizes[bk] = storage.get_eventcount(bk)
    history.append(f"{what} in {bk!r}: " + (f"event id {eid}" if what == "delete" else f"{'id %s <- ' % eid if what == 'replace' else ''}"
                                           f"timestamp {us_of_dt(ev.timestamp)} us, duration {us_of_td(ev.duration)} us, data {json.dumps(ev.data)}"))


# ---------------------------------------------------------------------------
# programs

RULES = '[[["Work"], {"type": "regex", "regex": "code|term"}], [["Web", "Docs"], {"type": "regex", "regex": "python", "ignore_case": true}]]'
TAGS = '[["t1", {"type": "regex", "regex": "."}], ["t2", {"type": "regex", "regex": "mail"}]]'

MUTATING = [                                      # built-ins that change or re-time what they are given
    ("categorize", lambda v, w: f"categorize({v}, {RULES})"),
    ("tag", lambda v, w: f"tag({v}, {TAGS})"),
    ("period_union", lambda v, w: f"period_union({v}, {w})"),
    ("flood", lambda v, w: f"flood({v})"),
    ("merge_events_by_keys", lambda v, w: f'merge_events_by_keys({v}, ["app"])'),
    ("chunk_events_by_key", lambda v, w: f'chunk_events_by_key({v}, "app")'),
    ("filter_period_intersect", lambda v, w: f"filter_period_intersect({v}, {w})"),
    ("union_no_overlap", lambda v, w: f"union_no_overlap({v}, {w})"),
    ("sort_by_duration", lambda v, w: f"sort_by_duration({v})"),
    ("sort_by_timestamp", lambda v, w: f"sort_by_timestamp({v})"),
    ("limit_events", lambda v, w: f"limit_events({v}, 2)"),
    ("split_url_events", lambda v, w: f"split_url_events({v})"),
    ("simplify_window_titles", lambda v, w: f'simplify_window_titles({v}, "title")'),
    ("filter_keyvals", lambda v, w: f'filter_keyvals({v}, "app", ["code", "term"])'),
    ("exclude_keyvals", lambda v, w: f'exclude_keyvals({v}, "app", ["code"])'),
    ("filter_keyvals_regex", lambda v, w: f'filter_keyvals_regex({v}, "title", "py")'),
    ("concat", lambda v, w: f"concat({v}, {w})"),
]

FAILING = [
    ("unknown-bucket", 'x = query_bucket("nope")'),
    ("unknown-bucket-count", 'x = query_bucket_eventcount("nope")'),
    ("wrong-type", 'x = limit_events(e1, "two")'),
    ("wrong-type-2", "x = flood(1)"),
    ("wrong-type-3", 'x = merge_events_by_keys(e1, "app")'),
    ("unknown-function", "x = frobnicate(e1)"),
    ("unknown-variable", "x = flood(nosuchvar)"),
    ("syntax", "x = flood(e1"),
    ("syntax-2", "x = "),
    ("syntax-3", "flood(e1)"),
    ("wrong-type-4", 'x = period_union(e1, "e2")'),
    ("find-bucket-miss", 'x = find_bucket("zzz")'),
    ("too-many-args", "x = flood(e1, e1)"),
]


IN_PLACE = [m for m in MUTATING if m[0] in ("categorize", "tag", "period_union", "split_url_events", "merge_events_by_keys",
                                             "chunk_events_by_key", "sort_by_duration", "limit_events", "concat")]


def reread_tail(b, tag=""):
    """re-read bucket b (events and count) into variables nothing else is given; -> (statements, return entries, ret_spec)"""
    return ([f'again{tag} = query_bucket("{b}")', f'n{tag} = query_bucket_eventcount("{b}")'],
            [f'"again{tag}": again{tag}', f'"n{tag}": n{tag}'],
            {f"again{tag}": ("events", b), f"n{tag}": ("count", b)})


def boundary_programs(buckets, rnd=0):
    """(kind, statements, expected failure, ret_spec); ret_spec names the RETURN entries that hold the untouched result
    of a read (see c12_reads.check_returned).  Of the two longer re-read shapes each built-in gets one per round,
    alternating between rounds."""
    b1 = buckets[0]
    b2 = buckets[-1]
    head = [f'e1 = query_bucket("{b1}")', f'e2 = query_bucket("{b2}")']
    for idx, (name, mk) in enumerate(MUTATING):
        yield (name, head + [f"r = {mk('e1', 'e2')}", "RETURN = r"], None, None)
        # the same bucket read again after the built-in ran on the first result
        st, ent, spec = reread_tail(b1)
        yield (name + "+reread", head + [f"r = {mk('e1', 'e2')}"] + st + ["RETURN = {" + ", ".join(ent + ['"r": r']) + "}"], None, spec)
        # ... with the reads nested in the call, the count taken first, and the second bucket re-read too
        st2, ent2, spec2 = reread_tail(b2, "2")
        if (idx + rnd) % 2 == 0:
            yield (name + "+reread-nested",
                   [f'n0 = query_bucket_eventcount("{b1}")', "r = " + mk(f'query_bucket("{b1}")', f'query_bucket("{b2}")')] + st + st2
                   + ["RETURN = {" + ", ".join(ent + ent2 + ['"r": r', '"n0": n0']) + "}"], None,
                   dict(spec, n0=("count", b1), **spec2))
        else:
            # ... an earlier untouched read must survive the built-in applied to a later read of the same bucket
            yield (name + "+reread-earlier",
                   [f'keep = query_bucket("{b1}")', f'e1 = query_bucket("{b1}")', f'e2 = query_bucket("{b2}")', f"e1 = {mk('e1', 'e2')}",
                    f"e1 = {mk('e1', 'e1')}"] + st + ["RETURN = {" + ", ".join(ent + ['"keep": keep', '"r": e1']) + "}"], None,
                   dict(spec, keep=("events", b1)))
    for name, stmt in FAILING:
        yield ("fail:" + name, head + [f"e1 = categorize(e1, {RULES})", "e1 = flood(e1)", stmt, "RETURN = e1"], name, None)
    yield ("fail:no-return", head + ["r = period_union(e1, e2)"], "no-return", None)
    yield ("find_bucket", [f'b = find_bucket("{b1[:1]}")', "e = query_bucket(b)", "n = query_bucket_eventcount(b)",
                           'e = chunk_events_by_key(e, "app")', 'RETURN = {"events": e, "n": n}'], None, None)
    yield ("find_bucket-host", [f'b = find_bucket("b", "host0")', "RETURN = query_bucket(b)"], None, None)
    # the program assigns the window itself between reads of the same bucket: each read is over the window in force
    s1, x1 = rebind("ENDTIME", BASE + 2_000_000 + 999 * (rnd % 2), 0)
    s2, x2 = rebind("STARTTIME", BASE + 1_000_000 + 500, 60)
    s3, x3 = rebind("ENDTIME", BASE + 40_000_000, 345)
    yield ("rebind-window",
           [f'e1 = query_bucket("{b1}")', f'n1 = query_bucket_eventcount("{b1}")', f"t = categorize(e1, {RULES})", s1,
            f'e2 = query_bucket("{b1}")', f'n2 = query_bucket_eventcount("{b1}")', f"u = tag(e2, {TAGS})", s2,
            f'e3 = query_bucket("{b1}")', f'n3 = query_bucket_eventcount("{b1}")', s3,
            f'e4 = query_bucket("{b1}")', f'n4 = query_bucket_eventcount("{b1}")', f'o4 = query_bucket("{b2}")',
            'RETURN = {"n1": n1, "n2": n2, "e3": e3, "n3": n3, "e4": e4, "n4": n4, "o4": o4, "t": t, "u": u}'], None,
           {"n1": ("count", b1), "n2": ("count", b1, (None, x1)), "e3": ("events", b1, (x2, x1)), "n3": ("count", b1, (x2, x1)),
            "e4": ("events", b1, (x2, x3)), "n4": ("count", b1, (x2, x3)), "o4": ("events", b2, (x2, x3))})
    # ... to an instant whose UTC offset has a seconds part: its isoformat does not parse back, the next read raises (it
    # must not quietly read over another window)
    off = ODD_OFFSETS[rnd % len(ODD_OFFSETS)]
    s4, _x4 = rebind("STARTTIME", BASE + 20_000_000, off)
    s5, _x5 = rebind("ENDTIME", BASE - 1_000_000, ODD_OFFSETS[(rnd + 3) % len(ODD_OFFSETS)])
    for tag, sx_ in (("start", s4), ("end", s5)):
        yield ("rebind-odd-window-" + tag,
               [f'e1 = query_bucket("{b1}")', f"t = categorize(e1, {RULES})", sx_, f'e2 = query_bucket("{b1}")', 'RETURN = {"e2": e2, "t": t}'],
               "odd-window", None)
        yield ("rebind-odd-window-" + tag + "-count",
               [f'n1 = query_bucket_eventcount("{b1}")', sx_, f'n2 = query_bucket_eventcount("{b1}")', 'RETURN = {"n1": n1, "n2": n2}'],
               "odd-window", None)
    yield ("empty", ["RETURN = 1"], None, None)


def random_program(rng, buckets):
    """reads (events and counts) at any position, preferably of a bucket read before; built-ins in between; the RETURN value
    carries the reads no later statement was given"""
    stmts = []
    vars_ = []
    pristine = {}          # variable -> ("events" | "count", bucket): assigned by a read, given to nothing since
    read_buckets = []
    counter = [0]
    win = [None, None]     # the window the program assigned itself (None = the query's own instant)
    odd_rebound = [False]  # ... to an instant whose isoformat iso8601 rejects: the reads after it raise

    def read():
        counter[0] += 1
        b = rng.choice(read_buckets) if read_buckets and rng.random() < 0.7 else rng.choice(buckets)
        if rng.random() < 0.75:
            v = f"e{counter[0]}"
            stmts.append(f'{v} = query_bucket("{b}")')
            vars_.append(v)
            pristine[v] = ("events", b, tuple(win))
        else:
            v = f"n{counter[0]}"
            stmts.append(f'{v} = query_bucket_eventcount("{b}")')
            pristine[v] = ("count", b, tuple(win))
        read_buckets.append(b)

    for i in range(rng.randrange(1, 3)):
        counter[0] += 1
        v = f"e{counter[0]}"
        b = rng.choice(buckets)
        stmts.append(f'{v} = query_bucket("{b}")')
        vars_.append(v)
        pristine[v] = ("events", b)
        read_buckets.append(b)
    if rng.random() < 0.3:
        read()
    for _ in range(rng.randrange(1, 7)):
        if rng.random() < 0.3:
            read()
            continue
        if rng.random() < 0.1:
            i = rng.randrange(2)
            stmt, x = rebind(["STARTTIME", "ENDTIME"][i], BASE + rng.choice([-2, 0, 1, 3, 10, 40]) * 1_000_000 + rng.choice([0, 1, 999, 1000]),
                             rng.choice([0, 60, -300, 345, rng.choice(ODD_OFFSETS)]))
            odd_rebound[0] = odd_rebound[0] or not parses_back(x)
            stmts.append(stmt)
            win[i] = x
            read()
            continue
        name, mk = rng.choice(MUTATING)
        tgt = rng.choice(vars_ + [f"r{len(vars_)}"])
        a1, a2 = rng.choice(vars_), rng.choice(vars_)
        stmts.append(f"{tgt} = {mk(a1, a2)}")
        for v in (tgt, a1, a2):
            pristine.pop(v, None)
        if tgt not in vars_:
            vars_.append(tgt)
    if rng.random() < 0.5:
        read()
    fail = None
    if rng.random() < 0.4:
        fail, stmt = rng.choice(FAILING)
        stmts.insert(rng.randrange(2, len(stmts) + 1), stmt)
    if odd_rebound[0] and fail is None:
        fail = "odd-window"
    spec = None
    if rng.random() < 0.9:
        keys = sorted(pristine)
        if keys and rng.random() < 0.6:
            rng.shuffle(keys)
            keys = sorted(keys[:3])
            extra = rng.choice(vars_)
            ent = [f'"{k}": {k}' for k in keys] + ([f'"other": {extra}'] if extra not in keys else [])
            stmts.append("RETURN = {" + ", ".join(ent) + "}")
            spec = {k: pristine[k] for k in keys}
        else:
            v = rng.choice(vars_)
            stmts.append("RETURN = " + v)
            spec = {None: pristine[v]} if v in pristine else None
    elif fail is None:
        fail = "no-return"
    if fail is not None:
        spec = None
    return ("random", stmts, fail, spec)


def reader_program(b):
    st, ent, spec = reread_tail(b)
    return ("reader", st + ["RETURN = {" + ", ".join(ent) + "}"], None, spec)


def mutator_program(rng, b, buckets):
    """read b, run one or two built-ins on what was read, read again"""
    name, mk = rng.choice(IN_PLACE)
    stmts = [f'e1 = query_bucket("{b}")', f'e2 = query_bucket("{rng.choice(buckets)}")', f"e1 = {mk('e1', 'e2')}"]
    if rng.random() < 0.5:
        name2, mk2 = rng.choice(IN_PLACE)
        stmts.append(f"e2 = {mk2('e1', 'e1')}")
    st, ent, spec = reread_tail(b)
    return ("mutator", stmts + st + ["RETURN = {" + ", ".join(ent + ['"r": e1']) + "}"], None, spec)


def window_program(b):
    """counts before, between and after the reads, an annotating built-in in between"""
    return ("window-reads",
            [f'n0 = query_bucket_eventcount("{b}")', f'e = query_bucket("{b}")', f'n1 = query_bucket_eventcount("{b}")',
             f"t = tag(e, {TAGS})", f'e2 = query_bucket("{b}")', f'n2 = query_bucket_eventcount("{b}")',
             'RETURN = {"e2": e2, "n0": n0, "n1": n1, "n2": n2, "t": t}'], None,
            {"e2": ("events", b), "n0": ("count", b), "n1": ("count", b), "n2": ("count", b)})


def windows_boundary():
    ms = 1000
    s = 1_000_000
    tz = [0, 60, -60, 330, 345, -570, 840, -720]
    pts = [BASE, BASE + 1, BASE + 999, BASE + ms, BASE + s - 1, BASE + s, BASE + 999_999, BASE + 2 * s + 500,
           BASE + 10 * s, BASE - s, BASE + 30 * s]
    for i, a in enumerate(pts):
        for b in (a, a + 1, a + ms, a + 3 * s, a - s, BASE + 40 * s):
            yield (a, tz[i % len(tz)], b, tz[(i + 3) % len(tz)])


def aware(us, off_min):
    return dt(us).astimezone(timezone(timedelta(minutes=off_min)))


def aware_odd(us, off):
    """off = (seconds, microseconds) of a UTC offset that is not a whole number of minutes"""
    return dt(us).astimezone(timezone(timedelta(seconds=off[0], microseconds=off[1])))


# round 5: UTC offsets with a seconds (or sub-second) part.  Python renders them as +01:00:30 / +00:00:00.000001, which
# iso8601.parse_date rejects: the window cannot travel through the namespace strings.  The direct windowed read works.
ODD_OFFSETS = [(30, 0), (3630, 0), (-2670, 0), (1172, 0), (1, 0), (-1, 0), (59, 0), (86399, 0), (-86399, 0), (0, 1), (19800, 500000)]


def odd_windows():
    """(start, end) datetimes at least one of which has such an offset; spans that hold part of a populated bucket"""
    s = 1_000_000
    spans = [(BASE + s, BASE + 3 * s), (BASE + 500, BASE + s + 500), (BASE + 2 * s, BASE + 2 * s), (BASE - s, BASE + 999)]
    for i, off in enumerate(ODD_OFFSETS):
        a, b = spans[i % len(spans)]
        yield aware_odd(a, off), aware_odd(b, off)
        a, b = spans[(i + 1) % len(spans)]
        yield aware_odd(a, off), aware(b, [0, 60, -300][i % 3])
        a, b = spans[(i + 2) % len(spans)]
        yield aware(a, [0, 345][i % 2]), aware_odd(b, off)
    # the same through the zone database: local mean time before the zone adopted a whole-minute offset
    try:
        from zoneinfo import ZoneInfo
        ams, mon = ZoneInfo("Europe/Amsterdam"), ZoneInfo("Africa/Monrovia")
        yield datetime(1930, 6, 1, 12, tzinfo=ams), datetime(1930, 6, 2, 12, tzinfo=ams)            # +01:19:32, nothing inside
        yield datetime(1930, 6, 1, 12, tzinfo=ams), aware(BASE + 2 * s, 60)                         # everything up to the end
        yield datetime(1960, 6, 1, 12, 0, 0, 250, tzinfo=mon), datetime(1971, 6, 1, tzinfo=mon)     # -00:44:30
        yield aware(BASE + s, 0), datetime(1960, 6, 1, tzinfo=mon)                                  # inverted
    except Exception:
        pass


def parses_back(x):
    import iso8601
    try:
        y = iso8601.parse_date(x.isoformat())
    except iso8601.ParseError:
        return False
    return y == x and y.utcoffset() == x.utcoffset()


REBOUND = {}          # isoformat string the generator wrote into a program -> the datetime it stands for


def rebind(var, us, off_min):
    """the statement `STARTTIME = "<isoformat>"` / `ENDTIME = ...` and the datetime it stands for"""
    x = aware_odd(us, off_min) if isinstance(off_min, tuple) else aware(us, off_min)
    REBOUND[x.isoformat()] = x
    return f'{var} = "{x.isoformat()}"', x


# ---------------------------------------------------------------------------
# one back end (runs in this process for memory/sqlite, in a child process for peewee)

def run_backend(backend, tier, seed, repo, have_driver=True):
    """returns a JSON-able report: counts, failing inputs, memory worlds' wire/obs for the model"""
    common.setup_impl_env()
    import iso8601
    from aw_core.models import Event
    from aw_datastore import Datastore
    from aw_query import query2
    from aw_query.exceptions import QueryException
    rng = random.Random(seed)
    quick = tier == "quick"
    rep = {"backend": backend, "failing": [], "counts": {}, "cases": [], "disagreements": [], "samples": [], "oracle_dev": 0}

    def count(k, n=1):
        rep["counts"][k] = rep["counts"].get(k, 0) + n

    fac = own.make_memory if backend == "memory" else own.SqlFactory(backend)
    # rounds stay small (the model's heap only grows within a round); thorough = many more rounds
    # (the extracted model's run time grows faster than quadratically with the steps of a round: more, shorter rounds)
    n_rounds = (4 if quick else 100) if backend == "memory" else (2 if quick else 30)
    n_random = (25 if quick else 50) if backend == "memory" else (15 if quick else 60)
    n_windows = (35 if quick else 60) if backend == "memory" else (25 if quick else 80)
    n_seq = (2 if quick else 3) if backend == "memory" else (2 if quick else 6)
    from aw_query import functions as qfunctions
    cur = {}              # the running round / query: storage, world, window

    def quiet(f):
        w = cur.get("world")
        if w is None:
            return f()
        on, w.spy_on = w.spy_on, False
        try:
            return f()
        finally:
            w.spy_on = on

    def window_in_force(namespace, window):
        """the (start, end) datetimes a read is over: the query's own, unless the program assigned STARTTIME / ENDTIME
        (the generator wrote those strings itself from datetimes it keeps in REBOUND: nothing is parsed here)"""
        st, en = cur["st"], cur["en"]
        if window is not None:
            return (window[0] or st), (window[1] or en)
        if namespace is not None:
            s1, s2 = namespace.get("STARTTIME"), namespace.get("ENDTIME")
            if s1 != st.isoformat():
                st = REBOUND.get(s1, st)
            if s2 != en.isoformat():
                en = REBOUND.get(s2, en)
        return st, en

    def direct_read(bucket, namespace=None, window=None):
        """the direct windowed read over the window in force, through a fresh Datastore facade"""
        st, en = window_in_force(namespace, window)
        label = [st.isoformat(), en.isoformat()]

        def f():
            bk = Datastore(lambda testing=False, **kw: cur["storage"])[bucket]
            return (ev_rows(bk.get(starttime=st, endtime=en)), bk.get_eventcount(starttime=st, endtime=en), label)
        # one direct read per bucket and window while the query runs (at the first hand-out) and one after it has ended;
        # that the store is the same throughout is what the dumps before/after decide
        memo = cur["direct_memo"]
        key = (bucket, label[0], label[1])
        if key not in memo:
            memo[key] = quiet(f)
        return memo[key]

    probe = reads.ReadProbe(qfunctions.functions, Event, direct_read,
                            (lambda: cur["world"].spy_calls if cur.get("world") is not None else []))
    if sorted(probe.installed) != sorted(reads.READERS):
        rep["disagreements"].append([f"the table of query functions has no entry for {sorted(set(reads.READERS) - set(probe.installed))}", {}])

    def run_program(rnd, ds, sizes, kind, stmts, fail, spec, a, b, st, en, mirror=True):
        """one query: dumps before/after, every read observed at hand-out, untouched reads in RETURN compared"""
        storage, world = cur["storage"], cur["world"]
        cur["st"], cur["en"] = st, en
        text = ";\n".join(stmts) + ";"
        # (the dump taken after the previous query of the round is this query's "before", unless the harness wrote since)
        by_id = not cur.get("big")
        before = cur.get("dump") or (full_dump_quiet(world, storage, by_id), quiet(lambda: facade_dump(ds)))
        status = "ok"
        if world is not None:
            world.spy_on = mirror
            world.spy_calls = []
        cur["direct_memo"] = {}
        probe.begin()
        try:
            res = query2.query("q", text, st, en, ds)
        except QueryException as ex:
            status = "query-error:" + type(ex).__name__
            res = None
        except Exception as ex:  # other classes are C17's business; the store must still be intact
            status = "other-error:" + type(ex).__name__
            res = None
        finally:
            calls = probe.end()
            cur["direct_memo"] = {}
            if world is not None:
                world.spy_on = False
        after = full_dump_quiet(world, storage, by_id), quiet(lambda: facade_dump(ds))
        cur["dump"] = after
        count(f"program:{status.split(':')[0]}")
        count("kind:" + (("fail:" + fail) if fail else "ok-program"))
        if fail and status == "ok":
            count("expected-failure-did-not-fail")
        replay = {"backend": backend, "query": text, "start": st.isoformat(), "end": en.isoformat(),
                  "population_seed": seed, "round": rnd, "kind": kind, "history": list(cur["history"])}
        if before != after:
            diff = [(x, y) for x, y in zip(before[0] + before[1], after[0] + after[1]) if x != y][:1]
            rep["failing"].append({"signature": "C12:query-changed-store",
                                   "description": f"[{backend}] bucket data differs after running a query ({status})",
                                   "replay": dict(replay, first_difference=diff)})
        # every read the program made, at the moment its result was handed out
        bad, dis = reads.check_calls(calls, world is not None and mirror)
        nreads = sum(1 for c in calls if "error" not in c)
        count("reads-observed", nreads)
        seen_b = [c.get("bucket") for c in calls if "error" not in c and c["fn"] == "query_bucket"]
        rereads = len(seen_b) - len(set(seen_b))
        count("re-reads-of-a-bucket-within-a-query", rereads)
        # programs that assign STARTTIME / ENDTIME: each read is compared over the window in force at the call; how often
        # that differs from the read over the instants the query was started with is recorded (see notes, Round 2)
        own_label = [st.isoformat(), en.isoformat()]
        for c in calls:
            if "error" not in c and c.get("window") not in (None, own_label) and c.get("bucket") is not None:
                count("reads-over-a-window-the-program-assigned")
                o = direct_read(c["bucket"])
                if c["handed_out"] != (o[0] if c["fn"] == "query_bucket" else o[1]):
                    count("reads-over-a-window-the-program-assigned:differ-from-the-read-over-the-query's-own-instants")
        if status == "ok" and spec:
            bad += reads.check_returned(res, spec, direct_read, calls)
            count("untouched-reads-returned", len(spec))
        if bad or dis:
            # self-contained: the buckets as they are stored (id, timestamp us, duration us, data), before == after or reported above
            replay["stored_events"] = ({row[0]: [list(r[:4]) for r in row[3]] for row in after[0]} if by_id else
                                       f"bucket b1: {BIG} events, event i at BASE + i ms (see populate_big)")
        if not by_id:
            for _, _, detail in bad:
                for k in ("handed_out", "direct", "returned"):
                    if isinstance(detail.get(k), list) and len(detail[k]) > 40:
                        detail[k] = {"length": len(detail[k]), "first": detail[k][:5], "last": detail[k][-5:]}
        for sig, what, detail in bad[:2]:
            rep["failing"].append({"signature": sig, "description": f"[{backend}] {what}", "replay": dict(replay, **detail)})
        for what, detail in dis[:1]:
            rep["disagreements"].append([f"[{backend}] {what}", dict(replay, **detail)])
        got_events = any(n > 0 for n in sizes.values())
        nontriv = got_events and (fail is not None or any(m[0] in text for m in MUTATING[:10]))
        rep["cases"].append([[backend, rnd, text, a, b, len(cur["history"])], bool(nontriv)])
        if world is not None and mirror:
            wrote = [c for c in world.spy_calls if c in WRITE_METHODS]
            if wrote:
                rep["failing"].append({"signature": "C12:query-called-a-write",
                                       "description": f"[memory] the query called storage write method(s) {sorted(set(wrote))}",
                                       "replay": {"query": text}})
            for c in world.spy_calls:
                count("storage-call:" + c)
        if world is not None:
            # what the query returned is a caller-held value too
            if own.is_cell(res) and kind != "window-reads":
                shared = set(own.walk(res)) & world.store_ids()
                if shared:
                    rep["failing"].append({"signature": "C12:query-result-shares-object-with-store",
                                           "description": "[memory] the value a query returned shares a mutable object with the store",
                                           "replay": {"query": text}})
                # ... and mutating it, at every depth, must not change the store
                own.mutate_everything(type("W", (), {"handles": [res], "Event": Event})())
                if (full_dump_quiet(world, storage), quiet(lambda: facade_dump(ds))) != after:
                    rep["failing"].append({"signature": "C12:mutating-query-result-changes-store",
                                           "description": "[memory] mutating the value a query returned changed bucket data",
                                           "replay": {"query": text, "start": st.isoformat(), "end": en.isoformat()}})
            if mirror:
                world.drop_all()
        if len(rep["samples"]) < 2 and fail and got_events:
            rep["samples"].append({"backend": backend, "query": text, "outcome": status, "store_unchanged": before == after})
        if len(rep["samples"]) < 4 and rereads and status == "ok" and spec and got_events and kind in ("random", "mutator"):
            rep["samples"].append({"backend": backend, "query": text, "outcome": status, "reads_observed": nreads,
                                   "re_reads": rereads, "untouched_reads_compared": sorted(str(k) for k in spec)})
        cur["history"].append(f"query[{kind}] over [{st.isoformat()}, {en.isoformat()}]: {text if len(text) < 400 else text[:400] + '...'}")
        del cur["history"][:-4]
        return status

    # the plan of rounds (one population each).  SQL back ends: every round has everything.  Memory (mirrored into the
    # model): the boundary programs of each bucket configuration are spread over separate short rounds, the boundary
    # windows have a round of their own
    plan = []
    if backend == "memory":
        parts = 2
        for cfg in range(3):
            for part in range(parts):
                plan.append({"nb": [3, 1, 2][cfg], "boundary": (cfg, part, parts), "random": 0, "seq": 0, "windows": 0, "bwin": False})
        plan.append({"nb": 3, "boundary": None, "random": 0, "seq": 0, "windows": 0, "bwin": True})
        for r in range(n_rounds):
            plan.append({"nb": [3, 1, 2][r % 3], "boundary": None, "random": n_random, "seq": n_seq, "windows": n_windows, "bwin": False})
    else:
        for r in range(n_rounds):
            plan.append({"nb": [3, 1, 2][r % 3], "boundary": (r, 0, 1) if r < 3 else None, "random": n_random, "seq": n_seq,
                         "windows": n_windows, "bwin": r == 0})
    # one round with a bucket of more than 10 000 events (not mirrored into the model): sqlite in the quick tier (that
    # child has the time to spare), every back end in the thorough tier
    if backend == "sqlite" or not quick:
        plan.append({"nb": 1, "big": True})
    for rnd, rd in enumerate(plan):
        storage = fac()
        nb = rd["nb"]
        world = None
        if rd.get("big"):
            cur.update(storage=storage, world=None, history=[], dump=None, big=True)
            sizes = populate_big(storage, Event)
            bk = sorted(sizes)[0]
            ds = Datastore(lambda testing=False, **kw: storage)
            a, b = BASE - 1_000_000 + 999, BASE + 60_000_000
            st, en = aware(a, 60), aware(b, 0)
            stl, entl, spec = reread_tail(bk)
            run_program(rnd, ds, sizes, "big-bucket",
                        [f'n0 = query_bucket_eventcount("{bk}")', f'e1 = query_bucket("{bk}")', f"e1 = tag(e1, {TAGS})"] + stl
                        + ["RETURN = {" + ", ".join(entl + ['"n0": n0']) + "}"], None, dict(spec, n0=("count", bk)), a, b, st, en, mirror=False)
            a2, b2 = BASE + 2_000_500, BASE + 9_000_000       # a sub-window of some 7000 events, then the whole again
            kind, stmts, fail, spec = reader_program(bk)
            run_program(rnd, ds, sizes, "big-bucket", stmts, fail, spec, a2, b2, aware(a2, 0), aware(b2, 345), mirror=False)
            run_program(rnd, ds, sizes, "big-bucket", stmts, fail, spec, a, b, st, en, mirror=False)
            count("big-bucket-events", BIG)
            cur["big"] = False
            continue
        if backend == "memory":
            world = own.World(storage, Event, "memory")
            install_spy(world, storage, rep)
        cur.update(storage=storage, world=world, history=[], dump=None)
        sizes = populate(storage, Event, rng, nb, world)
        buckets = sorted(sizes)
        ds = Datastore(lambda testing=False, **kw: storage)
        programs = []
        if rd["boundary"]:
            cfg, part, parts = rd["boundary"]
            programs = list(boundary_programs(buckets, cfg))
            programs = programs[part::parts]
        programs += [random_program(rng, buckets) for _ in range(rd["random"])]
        for kind, stmts, fail, spec in programs:
            a = BASE + rng.choice([-2, 0, 0, 1, 3]) * 1_000_000 + rng.choice([0, 0, 1, 999, 1000])
            b = a + rng.choice([0, 1000, 5_000_000, 60_000_000, 60_000_000])
            if "+reread" in kind and rng.random() < 0.7:
                b = a + 60_000_000         # mostly windows with events in them
            st, en = aware(a, rng.choice([0, 60, -300, 345])), aware(b, rng.choice([0, 0, 120]))
            # (the two longer re-read shapes are decided by the oracle alone; "+reread" and the random programs are
            # mirrored into the model as well)
            mirror = not (kind.endswith("-nested") or kind.endswith("-earlier"))
            if kind == "random" and quick and backend == "memory" and rng.random() < 0.35:
                mirror = False           # (keeps the rounds of the quick tier short; the oracle sees every program)
            run_program(rnd, ds, sizes, kind, stmts, fail, spec, a, b, st, en, mirror=mirror)
        # ---- sequences of queries in this process, same Datastore object: a mutating query, a reading query over the same
        # window (the same datetime objects, equal ones, the same instants under another UTC offset), a write to the bucket
        # in between, another window and back
        other = second_instance(backend, fac, rnd) if rd["seq"] else None
        if other is not None:
            sizes_other = populate(other, Event, rng, nb, None)
            ds_other = Datastore(lambda testing=False, **kw: other)
        for _ in range(rd["seq"]):
            full = [x for x in buckets if sizes[x]]
            bk = rng.choice(full) if full else rng.choice(buckets)
            a = BASE + rng.choice([-2, 0, 1]) * 1_000_000 + rng.choice([0, 1, 999, 1000])
            b = a + rng.choice([5_000_000, 60_000_000, 60_000_000, 1000])
            oa, ob = rng.choice([0, 60, 345]), rng.choice([0, 120])
            st, en = aware(a, oa), aware(b, ob)
            variants = [(st, en), (aware(a, oa), aware(b, ob)), (aware(a, ob), aware(b, oa))]
            steps = ["mutate", "read", "other-instance", "read", rng.choice(["insert", "delete", "replace"]), "read", "mutate",
                     "other-window", "read", rng.choice(["insert", "delete"]), "read"]
            for what in steps:
                if what == "other-instance":
                    # the same bucket name and window on a second storage object that is alive at the same time
                    if other is None:
                        continue
                    saved = {k: cur[k] for k in ("storage", "world", "dump")}
                    cur.update(storage=other, world=None, dump=None)
                    cur["history"].append("(the next two queries run on a second storage instance of the same class)")
                    try:
                        kind, stmts, fail, spec = mutator_program(rng, bk, buckets)
                        run_program(rnd, ds_other, sizes_other, kind + "@second-instance", stmts, fail, spec, a, b, st, en, mirror=False)
                        kind, stmts, fail, spec = reader_program(bk)
                        run_program(rnd, ds_other, sizes_other, kind + "@second-instance", stmts, fail, spec, a, b, st, en, mirror=False)
                    finally:
                        cur.update(saved)
                    cur["history"].append("(back on the first instance)")
                    count("queries-on-a-second-instance", 2)
                elif what == "mutate":
                    kind, stmts, fail, spec = mutator_program(rng, bk, buckets)
                    run_program(rnd, ds, sizes, kind, stmts, fail, spec, a, b, st, en)
                elif what == "read":
                    s2, e2 = rng.choice(variants)
                    kind, stmts, fail, spec = reader_program(bk)
                    run_program(rnd, ds, sizes, kind, stmts, fail, spec, a, b, s2, e2)
                elif what == "other-window":
                    a2 = a + rng.choice([0, 1_000_000, 500])
                    b2 = a2 + rng.choice([2_000_000, 10_000_000])
                    kind, stmts, fail, spec = mutator_program(rng, bk, buckets)
                    run_program(rnd, ds, sizes, kind, stmts, fail, spec, a2, b2, aware(a2, oa), aware(b2, ob))
                else:
                    write_between(what, storage, world, Event, rng, bk, a, b, sizes, cur["history"])
                    cur["dump"] = None
                    count("write-between-queries:" + what)
        # ---- windows
        wins = list(windows_boundary()) if rd["bwin"] else []
        for _ in range(rd["windows"]):
            a = BASE + rng.randrange(-3_000_000, 15_000_000) if rng.random() < 0.7 else BASE + rng.choice([0, 1, 999, 1000, 1001]) + 500_000 * rng.randrange(0, 20)
            b = a + rng.choice([0, 1, 1000, rng.randrange(0, 30_000_000), rng.randrange(0, 30_000_000),
                                rng.randrange(5_000_000, 60_000_000), rng.randrange(5_000_000, 60_000_000), -rng.randrange(0, 5_000_000)])
            wins.append((a, rng.choice([0, 60, -60, 330, 345, 765, -720, 840]), b, rng.choice([0, 0, 60, -210])))
        wlist = [(a, oa, b, ob, aware(a, oa), aware(b, ob), False) for a, oa, b, ob in wins]
        # round 5: windows whose UTC offset has a seconds part (outside the domain of parse_inverts_isoformat): the query
        # raises, or query_bucket is the direct windowed read -- never another set of events
        odd = list(odd_windows()) if rd["bwin"] else []
        for _ in range(rd["windows"] // 8):
            off = rng.choice(ODD_OFFSETS)
            a = BASE + rng.randrange(-3_000_000, 15_000_000)
            b = a + rng.choice([0, 1000, rng.randrange(0, 30_000_000), rng.randrange(5_000_000, 60_000_000)])
            odd.append(rng.choice([(aware_odd(a, off), aware_odd(b, off)), (aware_odd(a, off), aware(b, rng.choice([0, 60]))),
                                   (aware(a, rng.choice([0, -210])), aware_odd(b, off))]))
        wlist += [(us_of_dt(x), str(x.utcoffset()), us_of_dt(y), str(y.utcoffset()), x, y, True) for x, y in odd]
        for a, oa, b, ob, st, en, is_odd in wlist:
            for x in (st, en):
                if is_odd:
                    count("window-instant-with-a-sub-minute-offset:" + ("parses back" if parses_back(x) else "iso8601 rejects its isoformat"))
                    continue
                y = iso8601.parse_date(x.isoformat())
                if y != x or y.utcoffset() != x.utcoffset() or y.microsecond != x.microsecond:
                    rep["oracle_dev"] += 1
                    rep["failing"].append({"signature": "C12:parse_date-isoformat",
                                           "description": f"iso8601.parse_date(x.isoformat()) != x for x = {x!r}: {y!r}",
                                           "replay": {"x": x.isoformat()}})
            full = [x for x in buckets if sizes[x]]
            bk = rng.choice(full) if full and rng.random() < 0.8 else rng.choice(buckets)
            if world is not None:
                world.spy_on = False
            # counts before / between / after two reads of the bucket, an annotating built-in in between (not mirrored)
            kind, stmts, fail, spec = window_program(bk)
            run_program(rnd, ds, sizes, kind, stmts, fail, spec, a, b, st, en, mirror=False)
            try:
                direct = ev_rows(ds[bk].get(starttime=st, endtime=en))
                dcount = ds[bk].get_eventcount(starttime=st, endtime=en)
            except Exception as ex:
                if not is_odd:
                    raise
                count("window:sub-minute-offset:the direct read raises " + type(ex).__name__)
                continue
            if is_odd:
                got = []
                for q in (f'RETURN = query_bucket("{bk}");', f'RETURN = query_bucket_eventcount("{bk}");'):
                    try:
                        r = query2.query("q", q, st, en, ds)
                        got.append(ev_rows(r) if isinstance(r, list) else r)
                    except (QueryException, iso8601.ParseError) as ex:
                        got.append(None)
                        count("window:sub-minute-offset:query raised " + type(ex).__name__)
                    except Exception as ex:
                        got.append(None)
                        count("window:sub-minute-offset:query raised another class: " + type(ex).__name__)
                via, vcount = (direct if got[0] is None else got[0]), (dcount if got[1] is None else got[1])
                if got[0] is not None or got[1] is not None:
                    count("window:sub-minute-offset:query answered")
            elif world is not None:
                # through the model's q2_query_bucket / q2_query_bucket_eventcount as well
                bnum = int(bk[1:])
                r1 = world.call([17, bnum, [a, oa * 60_000_000], [b, ob * 60_000_000]], f"query_bucket({bk!r}) over [{st.isoformat()}, {en.isoformat()}]",
                                lambda: query2.query("q", f'RETURN = query_bucket("{bk}");', st, en, ds), special=own.EVENT_LIST)
                r2 = world.call([18, bnum, [a, oa * 60_000_000], [b, ob * 60_000_000]], f"query_bucket_eventcount({bk!r})",
                                lambda: query2.query("q", f'RETURN = query_bucket_eventcount("{bk}");', st, en, ds))
                via = ev_rows(r1[1]) if r1[0] == "ok" else r1
                vcount = r2[1] if r2[0] == "ok" else r2
                world.drop_all()
            else:
                via = ev_rows(query2.query("q", f'RETURN = query_bucket("{bk}");', st, en, ds))
                vcount = query2.query("q", f'RETURN = query_bucket_eventcount("{bk}");', st, en, ds)
            count("windows")
            count("window:nonempty" if direct else "window:empty")
            if via != direct or vcount != dcount:
                rep["failing"].append({"signature": "C12:query_bucket-is-not-the-windowed-read",
                                       "description": f"[{backend}] query_bucket/query_bucket_eventcount differ from Bucket.get/get_eventcount "
                                                      f"over the query window: {len(via) if isinstance(via, list) else via} events / count {vcount} "
                                                      f"vs {len(direct)} / {dcount}",
                                       "replay": {"backend": backend, "bucket": bk, "start": st.isoformat(), "end": en.isoformat(),
                                                  "query_bucket": via, "direct": direct, "count_via": vcount, "count_direct": dcount,
                                                  "population_seed": seed, "round": rnd}})
            rep["cases"].append([[backend, rnd, "window", a, oa, b, ob, bk], bool(direct)])
        if other is not None and backend == "sqlite":
            other.conn.close()
        if world is not None and have_driver:
            w = {"wire": world.wire, "obs": world.impl_obs, "log": world.log, "lenient": sorted(world.lenient)}
            rep["disagreements"] += compare_worlds([w])
            count("model-steps", len(world.wire))
    # ---- round 5: queries whose storage read fails (an event no read can decode, one-off engine faults), after writes
    # nobody has read yet; every bucket afterwards compared with the harness's own record of what it wrote
    faults.run_fault_rounds(backend, fac, rng, Event, Datastore, query2, QueryException, rep, count,
                            n_random=(15 if quick else 400), seed=seed)
    if backend != "memory":
        fac.close()
    return rep


def full_dump_quiet(world, storage, by_id=True):
    if world is not None:
        on = world.spy_on
        world.spy_on = False
        try:
            return full_dump(storage, by_id)
        finally:
            world.spy_on = on
    return full_dump(storage, by_id)


BIG = 10_050          # more events than any plausible page / chunk constant (2000, 5000, 10 000)


def populate_big(storage, Event):
    name = own.bname(1)
    storage.create_bucket(name, "currentwindow", "c", "host1", own.CREATED, None, None)
    storage.insert_many(name, [Event(timestamp=dt(BASE + 1000 * i), duration=timedelta(microseconds=1000 * (i % 3)),
                                     data={"app": APPS[i % 4], "title": TITLES[i % 5], "n": i}) for i in range(BIG)])
    return {name: BIG}


def second_instance(backend, fac, rnd):
    """another storage object of the same class, alive at the same time as the round's own (same bucket names, other
    events).  Peewee binds its models to one database per process: no second instance there."""
    if backend == "memory":
        return own.make_memory()
    if backend == "sqlite":
        from aw_datastore.storages import SqliteStorage
        return SqliteStorage(testing=True, filepath=os.path.join(fac.dir, f"other{rnd}.db"))
    return None


def install_spy(world, storage, rep):
    """every call a query makes on the storage object goes through the World, which mirrors the
    reads into model ops (and keeps what they returned as caller-held values)"""
    world.spy_on = False
    world.spy_calls = []
    world.lenient = set()        # steps after which the namespace values were mutated by built-ins

    def wrap(name, orig):
        def f(*a, **k):
            if not world.spy_on:
                return orig(*a, **k)
            world.spy_calls.append(name)
            world.spy_on = False            # the storage's own nested calls (buckets -> get_metadata) are one op
            try:
                if name == "buckets":
                    r = world.call([4], "buckets()", lambda: orig(), special=own.BUCKETS_DICT)
                elif name == "get_metadata":
                    r = world.call([3, int(a[0][1:])], f"get_metadata({a[0]!r})", lambda: orig(*a, **k))
                elif name == "get_events":
                    b, limit = a[0], a[1]
                    st = a[2] if len(a) > 2 else k.get("starttime")
                    en = a[3] if len(a) > 3 else k.get("endtime")
                    r = world.call([10, int(b[1:]), limit, common.opt(None if st is None else us_of_dt(st)),
                                    common.opt(None if en is None else us_of_dt(en))],
                                   f"get_events({b!r}, {limit}, {st}, {en})", lambda: orig(*a, **k), special=own.EVENT_LIST)
                elif name == "get_eventcount":
                    b = a[0]
                    st = a[1] if len(a) > 1 else k.get("starttime")
                    en = a[2] if len(a) > 2 else k.get("endtime")
                    r = world.call([11, int(b[1:]), common.opt(None if st is None else us_of_dt(st)),
                                    common.opt(None if en is None else us_of_dt(en))],
                                   f"get_eventcount({b!r}, {st}, {en})", lambda: orig(*a, **k))
                else:
                    return orig(*a, **k)     # a write or an unexpected read: recorded in spy_calls, reported by the caller
            finally:
                world.spy_on = True
            world.lenient.add(len(world.wire) - 1)
            if r[0] == "err":
                raise world.last_exc
            return r[1]
        return f
    for name in sorted(READ_METHODS | WRITE_METHODS):
        setattr(storage, name, wrap(name, getattr(storage, name)))
    # keep the exception object so that the spy can re-raise it into the query
    orig_call = world.call

    def call(wire, text, f, new_handle=True, special=None):
        def g():
            try:
                return f()
            except Exception as ex:
                world.last_exc = ex
                raise
        return orig_call(wire, text, g, new_handle, special)
    world.call = call


def compare_worlds(worlds):
    out = []
    cases = [sx(w["wire"]) for w in worlds]
    model = common.run_driver("C12", cases)
    for w, mo in zip(worlds, model):
        io = w["obs"]
        lenient = set(w["lenient"])
        bad = None
        if len(mo) != len(io):
            bad = (min(len(mo), len(io)) - 1, "number of observations")
        else:
            seen_lenient = False
            for k, (m, i) in enumerate(zip(mo, io)):
                if not (isinstance(m, list) and len(m) == 5):
                    bad = (k, "model could not decode the step")
                    break
                if w["wire"][k] == [19]:
                    seen_lenient = False          # nothing is held any more: strict comparison again
                seen_lenient = seen_lenient or k in lenient
                parts = []
                if m[0] != i[0]:
                    parts.append("status")
                if m[1] != i[1]:
                    parts.append("returned")
                if m[3] != i[3]:
                    parts.append("store content")
                if [r[0] for r in m[2]] != [r[0] for r in i[2]]:
                    parts.append("which caller values share an object with the store")
                if not seen_lenient:
                    if m[2] != i[2]:
                        parts.append("sharing among caller values")
                    if m[4] != i[4]:
                        parts.append("caller values")
                elif i[1] == [1] and m[4] and i[4] and m[4][-1] != i[4][-1]:
                    parts.append("the value the read returned")      # compared at the moment it is handed out
                if parts:
                    bad = (k, ", ".join(parts))
                    break
        if bad:
            k, what = bad
            out.append([f"step {k} ({w['log'][k] if 0 <= k < len(w['log']) else '?'}): model and MemoryStorage differ in: {what}",
                        {"history": w["log"][max(0, k - 5):k + 1], "model": mo[k] if 0 <= k < len(mo) else None,
                         "impl": io[k] if 0 <= k < len(io) else None}])
    return out


def main(argv=None):
    if argv is None:
        argv = sys.argv[1:]
    if len(argv) >= 2 and argv[0] == "--child":
        rep = run_backend(argv[1], argv[2], int(argv[3]), common.REPO, have_driver=(argv[4] == "1"))
        json.dump(rep, sys.stdout, default=str)
        return 0
    ck = Check("C12", argv)
    common.setup_impl_env()
    ck.run_witnesses(["w01"])
    ck.prove(extra_targets=["Props/C01own.v", "Props/C12transforms.v", "Props/C12sqlfault.v"])
    have_driver = ck.driver()

    # static cross-check (named as such: not a proof)
    bad, seen = static_scan(common.REPO)
    ck.coverage["static_effect_scan"] = {"datastore_accesses_seen": seen, "outside_allowed_set": bad,
                                         "allowed": sorted(ALLOWED_DS_ATTRS), "what": "ast scan of aw_query/functions.py, aw_query/query2.py, aw_transform/*"}
    if bad:
        ck.disagreement("static-effect-scan", "the query/transform modules reach the datastore outside buckets/__getitem__/metadata/get/get_eventcount: "
                        + "; ".join(bad[:5]), {"hits": bad})
    if not {"datastore.buckets", "bucket.get", "bucket.get_eventcount"} <= set(seen):
        ck.disagreement("static-effect-scan", f"the scan no longer sees the expected datastore reads (saw {sorted(seen)})", {"seen": seen})

    # the three back ends, each in its own process (one PeeweeStorage per process; also runs them in parallel)
    procs = {}
    for backend in ("memory", "sqlite", "peewee"):
        env = dict(os.environ)
        procs[backend] = subprocess.Popen([sys.executable, "-m", "harness.c12", "--child", backend, ck.tier,
                                           str(ck.rng.randrange(1 << 30)), "1" if have_driver else "0"], stdout=subprocess.PIPE, stderr=subprocess.PIPE,
                                          text=True, env=env, cwd=common.VERIF)
    # meanwhile: the ownership histories (memory, model) in this process
    saved, ck.violations = ck.violations, []
    own.ownership_check(ck, "C12", backends=("memory",), have_driver=have_driver,
                        n_random=(100 if ck.tier == "quick" else 4000))
    own_violations, ck.violations = ck.violations, saved      # reported after the query streams' own findings
    from . import theap2           # filter_keyvals_regex as a heap program (Props/C12transforms.v), tie A with aliasing
    if "C12" in theap2.GROUPS:
        theap2.heap_check(ck, "C12", have_driver=theap2.prepare(ck, "C12"))
    for backend, p in procs.items():
        out, err = p.communicate(timeout=3000)
        if p.returncode != 0:
            ck.broken.append(f"harness child for {backend} failed: {err[-400:]}")
            continue
        rep = json.loads(out)
        for k, v in rep["counts"].items():
            ck.count(f"{backend}:{k}", v)
        for f in rep["failing"]:
            ck.failing_input(f["signature"], f["description"], f["replay"])
        for canon, nt in rep["cases"]:
            ck.note_case(canon, nontrivial=nt)
        for s in rep["samples"]:
            ck.sample(s)
        ck.coverage.setdefault("oracle_hypothesis_deviation", {})[f"parse_date∘isoformat ({backend} run)"] = rep["oracle_dev"]
        for desc, replay in rep["disagreements"]:
            ck.disagreement("query-reads", desc, replay)
    ck.violations += own_violations[:max(0, 20 - len(ck.violations))]
    ck.assumptions += [
        "builtins_confined (a built-in touches only what its arguments reach, plus fresh objects) is a hypothesis of "
        "C12_store_unchanged; it is PROVED for every function registered in aw_query/functions.py as a heap-level program "
        "(Props/C12transforms.v: C12_transform_builtins_confined, C12_store_unchanged_transforms; filter_keyvals_regex "
        "included since Model/FilterRegexHeap.v). PARTIAL in that the heap programs are tied to the code by correspondence "
        "(harness/theap.py, theap2.py; filter_keyvals_regex in this check), not by construction; supported by the static "
        "scan and by the spy on the storage object",
        "oracle hypothesis parse_inverts_isoformat: iso8601.parse_date(x.isoformat()) == x for aware datetimes; validated on every "
        "generated window (whole-minute UTC offsets)",
        "Bucket.get's int(us / 1000) float division is modelled as integer division (C13_int_div_1000 is the finite fact)",
        "SQL back ends hand out freshly decoded objects by construction; checked by the dump oracle, not modelled",
    ]
    return ck.finish(RULE)


if __name__ == "__main__":
    sys.exit(main())
