"""Re-run one concrete C18 session on the implementation and print what the property oracle
says.  usage: python -m harness.c18_replay '{"lazy": true, "layer": "storage" | "api", "steps": [[dt_us, tick_us, [call, args...]], ...]}'
The clock advances dt_us before the call and tick_us after every reading during it.  layer "api": the store is opened
through Datastore(...) and every call is made through Datastore / Bucket (default: the storage object).  The step
["reopen", mode, down_us] closes the store (mode "crash": as at process exit; "flush": after a commit), lets down_us pass
and opens a new store instance on the same file; ["companion", [call, args...]] is a call on a second store (another
file) alive in the same process.  '{"big": {"layer": .., "n": ..}}' re-runs the large-write run.
With "faults": true the store's connection is wrapped (harness/c18_fault.py) and a step ["fault", kind, nth, [call, args...]]
runs the call with the engine raising once; '{"real_lock": {"layer": ..}}' re-runs the run in which a reader's lock makes the
store's COMMIT raise 'database is locked' by itself."""
import json
import sys

from . import common
from . import c18_lib as lib18


def main():
    arg = sys.argv[1]
    case = json.load(open(arg)) if not arg.lstrip().startswith("{") else json.loads(arg)
    while "history" not in case and "big" not in case and "real_lock" not in case and "replay" in case:
        case = case["replay"]
    if "history" in case:
        case = case["history"]
    common.setup_impl_env()
    import aw_datastore.storages.sqlite as sq
    from aw_core.models import Event
    if "big" in case:
        v = lib18.big_writes_run(sq, Event, case["big"]["layer"], case["big"].get("n", lib18.BIG_N))
        for sig, d in v:
            print("VIOLATES", sig, "-", d)
        if not v:
            print("oracle: ok")
        return 1 if v else 0
    if "real_lock" in case:
        from . import c18_fault
        v, info = c18_fault.real_lock_run(sq, Event, case["real_lock"].get("layer", "storage"))
        print("real-lock run:", info)
        for sig, d in v:
            print("VIOLATES", sig, "-", d)
        if not v:
            print("oracle: ok")
        return 1 if v else 0
    layer = case.get("layer", "storage")
    if case.get("faults"):
        # steps may contain ["fault", kind, nth, [call, args...]]: the call runs with the engine raising once
        # (kind "commit": its nth conn.commit(); "execute": its nth write statement; "executemany": after nth rows)
        from . import c18_fault
        s = c18_fault.run_fault_session(sq, Event, case["lazy"], case["steps"], layer)
        v = c18_fault.session_violations(s)
    else:
        s = lib18.run_session(sq, Event, case["lazy"], case["steps"], layer)
        v = lib18.c18_violations(s)
    for r in s.segments:
        print(f"store instance #{r.index} ({layer} layer) opened at t={r.t0 / 1e6:.6f}s on {'the existing' if r.existing else 'a new'} file: "
              f"{len(r.steps)} calls, {len(r.rec.issue_time)} write statements, {len(r.rec.obs)} crash points observed")
        for o in r.rec.obs:
            if o["kind"] == "call-end":
                c = r.rec.calls[o["call"]]
                J = o.get("J") or []
                eff = c.get("effect")
                seen = "" if not eff else (" effect-visible" if not (eff["missing"] or eff["still"]) else " effect-NOT-visible")
                print(f"  t={o['t'] / 1e6:16.6f}s  {str(c['spec']):48s} issued={o['issued']:4d} committed-prefix={J[-1] if J else '??':>4} "
                      f"n={o['n']}{seen} {'raised ' + c['outcome'] if c['outcome'] else ''}")
    for sig, d in v:
        print("VIOLATES", sig, "-", d)
    if not v:
        print("oracle: ok")
    return 1 if v else 0


if __name__ == "__main__":
    sys.exit(main())
