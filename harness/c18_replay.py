"""Re-run one concrete C18 session on the implementation and print what the property oracle
says.  usage: python -m harness.c18_replay '{"lazy": true, "steps": [[dt_us, tick_us, [call, args...]], ...]}'
The clock advances dt_us before the call and tick_us after every reading during it; the step
["reopen", mode, down_us] closes the store (mode "crash": as at process exit; "flush": after a
commit), lets down_us pass and opens a new store instance on the same file."""
import json
import sys

from . import common
from . import c18_lib as lib18


def main():
    arg = sys.argv[1]
    case = json.load(open(arg)) if not arg.lstrip().startswith("{") else json.loads(arg)
    while "history" not in case and "replay" in case:
        case = case["replay"]
    if "history" in case:
        case = case["history"]
    common.setup_impl_env()
    import aw_datastore.storages.sqlite as sq
    from aw_core.models import Event
    s = lib18.run_session(sq, Event, case["lazy"], case["steps"])
    v = lib18.c18_violations(s)
    for r in s.segments:
        print(f"store instance #{r.index} opened at t={r.t0 / 1e6:.6f}s on {'the existing' if r.existing else 'a new'} file: "
              f"{len(r.steps)} calls, {len(r.rec.issue_time)} write statements, {len(r.rec.obs)} crash points observed")
        for o in r.rec.obs:
            if o["kind"] == "call-end":
                c = r.rec.calls[o["call"]]
                J = o.get("J") or []
                print(f"  t={o['t'] / 1e6:16.6f}s  {str(c['spec']):48s} issued={o['issued']:4d} committed-prefix={J[-1] if J else '??':>4} "
                      f"n={o['n']} {'raised ' + c['outcome'] if c['outcome'] else ''}")
    for sig, d in v:
        print("VIOLATES", sig, "-", d)
    if not v:
        print("oracle: ok")
    return 1 if v else 0


if __name__ == "__main__":
    sys.exit(main())
