"""Conversions between aw_core Event objects and the model's integer view."""
from datetime import datetime, timedelta, timezone

EPOCH = datetime(1970, 1, 1, tzinfo=timezone.utc)
US = timedelta(microseconds=1)
BASE = 1_600_000_000_000_000  # 2020-09-13T12:26:40Z in µs, ms-aligned; small grids are offsets from it


def dt(us):
    return EPOCH + timedelta(microseconds=us)


def us_of_dt(d):
    return (d - EPOCH) // US


def us_of_td(td):
    return td // US


def pulse_us(seconds):
    """What timedelta(seconds=x) makes of a pulsetime (Python's own rounding)."""
    return timedelta(seconds=seconds) // US


def mk_event(Event, ts_us, dur_us, data, eid=None):
    return Event(id=eid, timestamp=dt(ts_us), duration=timedelta(microseconds=dur_us), data=data)


def ev_view(e, labels):
    """(id, ts_us, dur_us, label)"""
    return (e.id, us_of_dt(e.timestamp), us_of_td(e.duration), labels.label(e.data))


def ev_wire(view):
    i, t, d, x = view
    return [[] if i is None else [i], t, d, x]


def ev_unwire(w):
    i, t, d, x = w
    return (None if i == [] else i[0], t, d, x)
