"""Conversions between aw_core Event objects and the model's integer view."""
from datetime import datetime, timedelta, timezone, tzinfo

EPOCH = datetime(1970, 1, 1, tzinfo=timezone.utc)
US = timedelta(microseconds=1)
BASE = 1_600_000_000_000_000  # 2020-09-13T12:26:40Z in µs, ms-aligned; small grids are offsets from it


def dt(us):
    return EPOCH + timedelta(microseconds=us)


def us_of_dt(d):
    return (d - EPOCH) // US


def us_of_td(td):
    return td // US


def pulse_us(seconds):
    """What timedelta(seconds=x) makes of a pulsetime (Python's own rounding)."""
    return timedelta(seconds=seconds) // US


class SynthZone(tzinfo):
    """A legal PEP 495 time zone with ONE offset change at the UTC instant `t_us` (from `before` to `after` minutes).
    `after > before` leaves a gap in wall time, `after < before` a fold.  The transitions sit a few seconds after
    BASE, where the small grids of the transform checks live, so that an implementation which stops normalising
    event timestamps to UTC (wall-clock arithmetic on aware datetimes, comparisons that ignore `fold`) goes wrong
    on generated inputs.  For the unchanged code the zone is irrelevant: Event converts to UTC on assignment."""

    def __init__(self, t_us, before, after, name):
        self.args = (t_us, before, after, name)
        self.t = datetime(1970, 1, 1) + timedelta(microseconds=t_us)   # naive UTC
        self.before, self.after, self.name = timedelta(minutes=before), timedelta(minutes=after), name

    def utcoffset(self, d):
        w = d.replace(tzinfo=None)
        is_before, is_after = w - self.before < self.t, w - self.after >= self.t
        if is_before and is_after:      # ambiguous wall time (fold)
            return self.after if d.fold else self.before
        if is_before:
            return self.before
        if is_after:
            return self.after
        return self.after if d.fold else self.before   # wall time inside the gap (PEP 495)

    def dst(self, d):
        return timedelta(0)

    def tzname(self, d):
        return self.name

    def fromutc(self, d):
        u = d.replace(tzinfo=None)
        if u < self.t:
            return (u + self.before).replace(tzinfo=self)
        w = u + self.after
        return w.replace(tzinfo=self, fold=1 if w - self.before < self.t else 0)

    def __repr__(self):
        return f"SynthZone({self.name})"

    def __reduce__(self):            # copyable / picklable like zoneinfo.ZoneInfo (implementations deep-copy events)
        return (SynthZone, self.args)

    def __deepcopy__(self, memo):
        return self

    def __eq__(self, other):
        return isinstance(other, SynthZone) and self.args == other.args

    def __hash__(self):
        return hash(self.args)


ZONES = [timezone.utc, timezone.utc, timezone.utc,
         timezone(timedelta(hours=5, minutes=30)), timezone(timedelta(hours=-8)),
         SynthZone(BASE + 3_000_000, 60, 120, "gap"), SynthZone(BASE + 5_000_000, 120, 60, "fold"),
         SynthZone(BASE - 2_000_000, -300, -240, "gap-west"), SynthZone(BASE + 40_000_000, 0, -60, "fold-late"),
         # zones that sit at UTC+0 on one side of the change (London-like): `utcoffset()` is falsy there
         SynthZone(BASE + 2_000_000, 0, 60, "zero-gap"), SynthZone(BASE + 4_000_000, 60, 0, "zero-fold")]


def dt_zoned(us):
    """The instant `us` as an aware datetime in a zone chosen deterministically from the instant."""
    z = ZONES[(us // 1000) % len(ZONES)]
    return dt(us) if z is timezone.utc else dt(us).astimezone(z)


def mk_event(Event, ts_us, dur_us, data, eid=None):
    return Event(id=eid, timestamp=dt_zoned(ts_us), duration=timedelta(microseconds=dur_us), data=data)


def ev_view(e, labels):
    """(id, ts_us, dur_us, label)"""
    return (e.id, us_of_dt(e.timestamp), us_of_td(e.duration), labels.label(e.data))


def ev_wire(view):
    i, t, d, x = view
    return [[] if i is None else [i], t, d, x]


def ev_unwire(w):
    i, t, d, x = w
    return (None if i == [] else i[0], t, d, x)
