"""C16 helper — adversarial look-alike values.

merge_events_by_keys makes a value hashable and puts it into a composite dictionary key;
chunk_events_by_key and filter_keyvals compare values with ==.  The statement's notion of "the same
value" is Python's == on the value (for a list: on its elements in order).  Any step that turns a value
(or the whole composite key) into *something else* before comparing - a serialisation, a
normalisation, a sort, a set, a hash, a truncation, a join - is injective on the plain values the
ordinary pools hold and goes unseen.  This module derives, from any value / data dict the generator
draws, the values of the *domain* (str / int / float / bool / None / flat lists of those) that such a
step would conflate with it although == separates them (and the ones == unites although a textual step
would split them: 1 / 1.0 / True, 0 / -0.0 / False).

Nothing here looks at the code under test."""
import ast
import json
import unicodedata

SCALARS = (str, int, float, bool, type(None))


def in_domain(v):
    if isinstance(v, float) and v != v:      # NaN is not == itself: outside the label model
        return False
    if isinstance(v, SCALARS):
        return True
    return type(v) is list and all(isinstance(x, SCALARS) and in_domain(x) for x in v)


def _typed(v):
    """a key that tells apart everything the generator should keep apart (1 / 1.0 / True, list / str)"""
    if type(v) is list:
        return ("list", tuple(_typed(x) for x in v))
    return (type(v).__name__, repr(v))


def dedup(vals):
    seen, out = set(), []
    for v in vals:
        if not in_domain(v):
            continue
        k = _typed(v)
        if k not in seen:
            seen.add(k)
            out.append(v)
    return out


JOINERS = ["", ",", ", ", " ", "|", ";", "/", "\x00", "\n"]


def _texts(v):
    """every usual textual spelling of a value (and of its tuple form when it is a list)"""
    out = [json.dumps(v), json.dumps(v, sort_keys=True), json.dumps(v, separators=(",", ":")),
           json.dumps(v, ensure_ascii=False), json.dumps(v, indent=0), repr(v), str(v), ascii(v), "%s" % (v,)]
    if type(v) is list:
        t = tuple(v)
        out += [repr(t), str(t), repr(frozenset(map(str, v))) if v else "frozenset()", repr(set(map(str, v))) if v else "set()"]
        out += [j.join(map(str, v)) for j in JOINERS]
        out += [j.join(map(repr, v)) for j in JOINERS[:3]]
        out += [json.dumps(sorted(v, key=repr)), repr(sorted(v, key=repr))]
    return out


def _parses(s):
    """values a string spells (what a 'parse it back' or 'coerce' step would see)"""
    out = []
    for f in (json.loads, ast.literal_eval, int, float):
        try:
            x = f(s)
        except Exception:  # noqa: BLE001
            continue
        if isinstance(x, tuple):
            x = list(x)
        out.append(x)
    return out


def lookalikes(v):
    """domain values that are not == v (mostly) but look like it under some serialisation /
    normalisation, plus the ones that are == v under another type.  Deterministic order."""
    out = []
    out += _texts(v)
    if type(v) is list:
        uniq = [x for i, x in enumerate(v) if _typed(x) not in [_typed(y) for y in v[:i]]]
        out += [list(reversed(v)), sorted(v, key=repr), uniq,
                v + v[-1:], v + v, v[:-1], v[:1], v[1:], [str(x) for x in v], [json.dumps(x) for x in v],
                [repr(x) for x in v], v + [None], v + [""], [None] + v, [len(v)], len(v)]
        out += [x.lower() if type(x) is str else x for x in v], [x.upper() if type(x) is str else x for x in v]
        if len(v) == 1:
            out += [v[0]] + lookalikes_scalar(v[0])
        if len(v) >= 2 and all(type(x) is str for x in v):
            out += [["".join(v)], [",".join(v)], [v[0], "".join(v[1:])], ["".join(v[:-1]), v[-1]], [v[0] + v[1][:1], v[1][1:]] + v[2:]]
        if not v:
            out += [None, "", 0, False, 0.0, [None], [""], [0], "[]", "()", "null", "None"]
        if all(type(x) in (int, float, bool) for x in v) and v:
            out += [[float(x) for x in v], [int(x) for x in v], [bool(x) for x in v], sum(v), [sum(v)]]
        out.append(hash(tuple(v)))
    else:
        out += lookalikes_scalar(v)
        out += [[v], [v, v], [str(v)], [repr(v)], [json.dumps(v)]]
        out += _texts([v])
    return [w for w in dedup(out) if _typed(w) != _typed(v)]


def lookalikes_scalar(v):
    out = []
    if type(v) is str:
        out += [v.upper(), v.lower(), v.swapcase(), v.title(), v.casefold(), v + " ", " " + v, v + "\n", v.strip(),
                v + "\x00", "﻿" + v, v + v, v[:-1], v[1:], v[::-1],
                unicodedata.normalize("NFD", v), unicodedata.normalize("NFC", v), unicodedata.normalize("NFKC", v),
                unicodedata.normalize("NFKD", v), v.encode("ascii", "ignore").decode(), v.encode("unicode_escape").decode()]
        out += _parses(v)
        out += [v.split(","), v.split(), list(v) if len(v) <= 4 else v[:4], len(v), hash(v)]
        if len(v) >= 1:
            out += [v + "x" * 40, v * 40, (v * 40)[:-1] + "~"]          # equal long prefixes (truncation)
        if v == "":
            out += [None, 0, False, [], [""], " ", "\x00"]
    elif v is None:
        out += ["None", "null", "", 0, False, [], [None], 0.0, "none", "NULL"]
    elif type(v) is bool:
        out += [int(v), float(v), str(v), str(v).lower(), json.dumps(v), not v, [v], "1" if v else "0", "" if not v else "x"]
    elif type(v) in (int, float):
        out += [str(v), repr(v), json.dumps(v), "%d" % v if v == int(v) else "%r" % v, "%.1f" % v, "%g" % v, "%e" % v]
        if v == int(v):
            out += [int(v), float(v), str(int(v)), str(float(v)), int(v) + 1, int(v) - 1, -int(v), abs(int(v))]
            if v in (0, 1):
                out += [bool(v), str(bool(v)), "true" if v else "false"]
            if v == 0:
                out += [-0.0, 0.0, None, "", [], 2 ** 61 - 1, "-0.0"]          # hash(2**61-1) == hash(0)
            if v == -1:
                out += [-2, -2.0]                                            # hash(-1) == hash(-2)
            if v == -2:
                out += [-1]
            out += [int(v) + 2 ** 61 - 1, float(int(v)) + 0.5, int(v) + 2 ** 64]
        else:
            out += [int(v), round(v), float(int(v)), v + 1e-9, -v, float.hex(v), str(v)[:3]]
        out.append(hash(v))
    return out


# --------------------------------------------------------------------------- composite keys

PAIR_SEPS = [("", ""), ("=", ","), ("=", "&"), (":", ","), (": ", ", "), ("=", ";"), ("=", " "), (" ", " "),
             ("\t", "\n"), ("\x00", "\x00"), ("', '", "'), ('"), ("', ", "), ('")]


def hz(v):
    return tuple(v) if type(v) is list else v


def composite_lookalikes(data, keys):
    """data dicts (over the same key names, values in the domain) whose composite key would coincide with
    that of `data` if the composite key were a serialisation / flattening / unordered collection of the
    (key, value) pairs instead of the tuple of pairs.  `data` has at least one of `keys`."""
    present = [k for k in keys if k in data]
    if not present:
        return []
    k0 = present[0]
    pairs = [(k, data[k]) for k in present]
    ck = tuple((k, hz(v)) for k, v in pairs)
    out = []
    # the whole composite key spelled as text under the first key
    for txt in (repr(ck), str(ck), json.dumps(ck), json.dumps(ck, separators=(",", ":")), json.dumps(dict(pairs)),
                json.dumps(dict(pairs), sort_keys=True), repr(dict(pairs)), repr(ck[0]), json.dumps(ck[0]),
                repr(ck[1:]) if len(ck) > 1 else repr(ck[0][1])):
        out.append({k0: txt})
    # joined text: first key holds "v0<item>k1<pair>v1..." so that "k0<pair>v0<item>k1<pair>v1" is the same text
    for ps, it in PAIR_SEPS:
        for conv in (str, repr, json.dumps):
            try:
                s = it.join(k + ps + conv(v) for k, v in pairs)
            except Exception:  # noqa: BLE001
                continue
            out.append({k0: s[len(k0 + ps):]})
    if len(pairs) >= 2:
        (ka, va), (kb, vb) = pairs[0], pairs[1]
        # flattening: (ka, va, kb, vb) against a list value [va, kb, vb] / nested-free variants
        if isinstance(va, SCALARS) and isinstance(vb, SCALARS):
            out.append({ka: [va, kb, vb]})
            out.append({ka: [va, repr((kb, vb))]})
        # values swapped between the keys (unordered collection of values / of pairs)
        d = dict(data)
        d[ka], d[kb] = data[kb], data[ka]
        out.append(d)
        # the same pairs in the other dict order, one key dropped, one value replaced by the other
        out.append({kb: vb, ka: va})
        out.append({ka: va})
        out.append({kb: vb})
        out.append({ka: va, kb: va})
        out.append({ka: vb, kb: vb})
        # key names as values
        out.append({ka: kb, kb: ka})
        out.append({ka: ka, kb: kb})
        # list values split differently across the keys (concatenated element sequences)
        if type(va) is list and type(vb) is list:
            out.append({ka: va + vb[:1], kb: vb[1:]})
            out.append({ka: va[:-1], kb: va[-1:] + vb})
            out.append({ka: va + vb, kb: []})
    else:
        (ka, va) = pairs[0]
        others = [k for k in keys if k != ka]
        if others:
            kb = others[0]
            out.append({kb: va})                       # the same value under another key
            out.append({ka: va, kb: None})             # present-with-None against absent
            out.append({ka: va, kb: ""})
            out.append({ka: va, kb: []})
            out.append({ka: va, kb: 0})
            out.append({ka: va, kb: False})
            out.append({ka: kb, kb: va})
            out.append({kb: ka})
    out.append({})
    res, seen = [], set()
    for d in out:
        if not all(in_domain(v) for v in d.values()):
            continue
        key = tuple((k, _typed(v)) for k, v in d.items())
        if key in seen:
            continue
        seen.add(key)
        res.append(d)
    return res


# --------------------------------------------------------------------------- deterministic corpus

BASE_VALUES = [["Work", "Programming"], ["x"], ["x", "y"], [], [1], [1, "1"], ["a", "b"], [True, 1.0], ["é"], [None],
               [""], ["x", "x"], "x", "1", "", "é", "Work", "a", "[]", 1, 0, -1, 1.5, True, False, None, 1.0]

BASE_DATAS = [
    ({"a": "x", "b": "y"}, ["a", "b"]),
    ({"a": 1, "b": 2}, ["a", "b"]),
    ({"a": ["x"], "b": ["y", "z"]}, ["a", "b"]),
    ({"a": "b", "b": "a"}, ["a", "b"]),
    ({"a": "x", "b": 1, "c": ["y"]}, ["a", "b", "c"]),
    ({"a": "x", "b": 1, "c": ["y"]}, ["c", "a"]),
    ({"a": "x"}, ["a", "b"]),
    ({"a": None}, ["a", "b"]),
    ({"b": ["x", 1]}, ["a", "b"]),
    ({"a": "x", "b": "y"}, ["a", "a"]),
    ({"a": "1", "b": "2", "c": "3"}, ["a", "b", "c"]),
]
