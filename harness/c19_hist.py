"""C19 (round 3): categorize / tag / split_url_events / simplify_string under HISTORY, through the QUERY LAYER, with
results EDITED IN PLACE by their consumer, and on LARGE inputs.

The models (Model/Classify.v, Model/ClassifyHeap.v) are pure functions of one call's arguments.  harness/c19.py used to
give every call fresh objects and the anchored function only; it could therefore never see

  * state that outlives a call: a cache / memo of compiled rules, of categories, of results (keyed on less than what
    the result depends on, on identity, on ==), a default mutable argument, a module-level constant that is handed out;
  * the layer above aw_transform.classify: the registered query functions aw_query.functions.functions["categorize" |
    "tag" | "split_url_events" | "simplify_window_titles"] (rule DICTS instead of Rule objects) and whole query2 programs
    run by aw_query.query against a datastore;
  * results that share containers with each other or with something the package keeps: visible only when a consumer
    edits what it was handed.

Sessions.  A session is a list of steps run one after the other in ONE process.  A step is one call
(kind = categorize | tag | split | simplify) by a route

  direct     aw_transform.classify.categorize(events, [(category, Rule(rule_dict)), ...]) etc.
  registry   aw_query.functions.functions[name](datastore, namespace, events, [[category, rule_dict], ...]): the way
             QFunction.interpret calls it
  query      aw_query.query(name, program, start, end, datastore): the events sit in a bucket of a memory datastore,
             the rules are literals of the program (forms: plain, rules in a variable, under sort_by_timestamp; an
             optional first stage categorize / tag in the same program)

on fresh objects, or on the objects the previous step returned (the same list / a new list around the same events), with
fresh rule objects or with the previous step's rule objects edited in place to the new value.  EVERY step is judged
alone: c19's property oracle and the extracted model get the call's arguments as they are at call time, so any
dependence on what happened before is a failing input (categorize / tag) or a model/implementation disagreement.

Edited results (step flag `mutate`).  After the call every container the call handed out or was given - each data dict,
each list / dict inside it ($category, $tags, ...), the returned list, each rule dict, select_keys list, category list,
the rule list - is edited in place, ONE AT A TIME, and after every edit all events of the result, all input events and
all rules are compared with their state before the edit.  Only what the heap model (Props/C19own.v) says is the same
object may change: the event the container was reached through (and the input event it is, for the three transforms that
annotate in place), what already shared it before the call, and - $category only - the events won by the same rule,
whose own list object it is.  Anything else is signature `C19:aliasing`.  The edits stay; the following steps of the
session (fresh events, fresh rules) then show whether the package kept any of those containers.

Earlier results.  What a call returned is remembered (as the consumer left it); after the NEXT call on other objects
the returned list must still hold the same events and every event must read the same (`earlier_result_check`,
signature `C19:aliasing`): no list or event of the package's own is handed out and recycled.

A failing step is re-run in a fresh interpreter (`python -m harness.c19_hist judge <file>`): alone, after its session's
prefix, after everything the process ran before; the history is minimised there (common.shrink_list) and the replay
says whether it reproduced.

usage: python -m harness.c19_hist judge <file>     (VERDICT line for the last step of a session)
       python -m harness.c19_hist replay <replay.json | session file>
"""
import ast
import copy
import itertools
import json
import os
import subprocess
import sys
import tempfile

from . import common
from .evutil import BASE, dt

ROUTES = ("direct", "registry", "query")
Q2NAME = {"categorize": "categorize", "tag": "tag", "split": "split_url_events", "simplify": "simplify_window_titles"}
INPLACE = ("categorize", "tag", "split")          # the model: these annotate the caller's events and hand them back
OWNED = {"categorize": "$category", "tag": "$tags"}
BIG_N = 10_001                                    # larger than any plausible chunk constant (2000 / 5000 / 10000)
H = 3_600_000_000


def fastcopy(x):
    """deep copy of plain data (lists / dicts / tuples of immutable leaves); much cheaper than copy.deepcopy"""
    t = type(x)
    if t is list:
        return [fastcopy(y) for y in x]
    if t is dict:
        return {k: fastcopy(v) for k, v in x.items()}
    if t is tuple:
        return tuple(fastcopy(y) for y in x)
    if t in (str, int, float, bool, bytes) or x is None:
        return x
    return copy.deepcopy(x)


class Env:
    def __init__(self):
        from aw_core.models import Event
        import aw_transform.classify as cl
        from aw_transform.split_url_events import split_url_events
        from aw_transform.simplify import simplify_string
        import aw_query.functions as qf
        import aw_query.query2 as q2
        import aw_query
        from aw_datastore import Datastore, get_storage_methods
        self.Event, self.cl, self.split, self.simplify, self.qf, self.q2 = Event, cl, split_url_events, simplify_string, qf, q2
        self.query = aw_query.query
        self.ds = Datastore(get_storage_methods()["memory"], testing=True)
        self.nbucket = 0


# --------------------------------------------------------------------------- query2 program text


def _lit_ok(s):
    return type(s) is str and ";" not in s and '"' not in s and "'" not in s and not s.endswith("\\")


def lit(v, n=0):
    """query2 literal of a value, None when the language has none for it (None, floats, strings with ; or quotes)"""
    if v is True:
        return ("true", "True")[n % 2]
    if v is False:
        return ("false", "False")[n % 2]
    if type(v) is str:
        return '"%s"' % v if _lit_ok(v) else None
    if type(v) is list:
        xs = [lit(x, n) for x in v]
        return None if None in xs else "[" + ", ".join(xs) + "]"
    if type(v) is dict:
        xs = [(lit(k, n), lit(x, n)) for k, x in v.items()]
        return None if any(a is None or b is None for a, b in xs) else "{" + ", ".join(f"{a}: {b}" for a, b in xs) + "}"
    return None


def classes_value(classes):
    return [[fastcopy(c), fastcopy(rd)] for c, rd, _ in classes]


def program_of(step, bid, n=0):
    """text of the query2 program of a query-route step, or None when some argument has no literal"""
    kind = step["kind"]
    src = f'query_bucket("{bid}")'
    form = step.get("form", "plain")
    if form == "sorted":
        src = f"sort_by_timestamp({src})"
    stmts = [f"events = {src}"]
    stages = list(step.get("pre") or []) + [{"kind": kind, "classes": step.get("classes"), "key": step.get("key")}]
    for k, st in enumerate(stages):
        last = k == len(stages) - 1
        tgt = "RETURN" if last else "events"
        name = Q2NAME[st["kind"]]
        if st["kind"] in OWNED:
            rl = lit(classes_value(st["classes"]), n + k)
            if rl is None:
                return None
            if form == "var":
                stmts.append(f"rules{k} = {rl}")
                rl = f"rules{k}"
            stmts.append(f"{tgt} = {name}(events, {rl})")
        elif st["kind"] == "split":
            stmts.append(f"{tgt} = {name}(events)")
        else:
            kl = lit(st["key"])
            if kl is None:
                return None
            stmts.append(f"{tgt} = {name}(events, {kl})")
    return ";\n".join(stmts) + ";"


# --------------------------------------------------------------------------- the specification of one stage


def spec_out(C, kind, events, classes):
    """what the property says categorize / tag return (d[key] = value on the ordered dict), as views"""
    out = []
    for i, t, d, items in events:
        data = dict(items)
        m = [c for c, rd, l in classes if C.spec_match(rd, l, dict(items))]
        data[OWNED[kind]] = C.spec_category(m)[0] if kind == "categorize" else m
        out.append((i, t, d, list(copy.deepcopy(data).items())))
    return out


def winners(C, case):
    """categorize: per event the index of the rule whose category the statement selects (None: a new
    ['Uncategorized'])"""
    res = []
    for _, _, _, items in case["events"]:
        d = dict(items)
        best, bl = None, 0
        for j, (c, rd, l) in enumerate(case["classes"]):
            if len(c) >= max(bl, 1) and C.spec_match(rd, l, d):
                best, bl = j, len(c)
        res.append(best)
    return res


# --------------------------------------------------------------------------- one step


class Live:
    """what a session carries from one step to the next"""

    def __init__(self):
        self.out = None          # the list the previous call returned
        self.classes = None      # the rule list object of the previous call, (route, kind, rule dict values)
        self.cmeta = None
        self.kept = None         # what the previous call handed out, as the consumer left it


class Rec:
    pass


def morph(old, new):
    """edit `old` in place until it equals `new` (containers of the same type are kept, recursively)"""
    if type(old) is list and type(new) is list:
        xs = [morph(o, x) for o, x in zip(old, new)] + [copy.deepcopy(x) for x in new[len(old):]]
        old[:] = xs
        return old
    if type(old) is dict and type(new) is dict:
        xs = [(k, morph(old[k], v) if k in old else copy.deepcopy(v)) for k, v in new.items()]
        old.clear()
        old.update(xs)
        return old
    return copy.deepcopy(new)


def live_classes(env, C, step, route, live):
    kind = step["kind"]
    val = classes_value(step["classes"])
    meta = live.cmeta
    reuse = step.get("reuse_classes") and live.classes is not None and meta[0] == route and meta[1] == kind
    if route == "direct":
        out = []
        for j, (c, rd) in enumerate(val):
            if reuse and j < len(live.classes):
                oc, orule = live.classes[j]
                if type(oc) is list and type(c) is list:
                    oc[:] = c
                    c = oc
                rule = orule if C.same(meta[2][j], rd) else env.cl.Rule(rd)
            else:
                rule = env.cl.Rule(rd)
            out.append((c, rule))
        if reuse:
            live.classes[:] = out
            out = live.classes
    else:
        out = morph(live.classes, val) if reuse else val
    live.classes, live.cmeta = out, (route, kind, [copy.deepcopy(rd) for _, rd, _ in step["classes"]])
    return out


def run_step(env, C, step, live):
    """runs the call of `step`; -> Rec (case = the call's arguments as values at call time, res in c19.run_impl's form)"""
    kind, route = step["kind"], step["route"]
    r = Rec()
    r.step, r.kind, r.route = step, kind, route
    r.objs = r.out = r.classes = None
    r.program = None
    spec_events = [tuple(e) for e in step["events"]]
    if route == "query":
        return _run_query(env, C, step, r, live, spec_events)
    prev = live.out if step.get("reuse_events") and isinstance(live.out, list) and live.out else None
    if prev is not None and all(isinstance(e, env.Event) for e in prev):
        objs = prev if step["reuse_events"] == "list" else list(prev)
    else:
        objs = C.build(env.Event, spec_events)
    r.objs = objs
    case = {"kind": kind, "route": route, "events": fastcopy([C.view(e) for e in objs])}
    if kind in OWNED:
        case["classes"] = [(fastcopy(c), fastcopy(rd), l) for c, rd, l in step["classes"]]
        r.classes = live_classes(env, C, step, route, live)
    if kind == "simplify":
        case["key"] = step["key"]
    r.case = case
    r.reach_before = reach_map(r)
    try:
        if route == "direct":
            if kind == "categorize":
                out = env.cl.categorize(objs, r.classes)
            elif kind == "tag":
                out = env.cl.tag(objs, r.classes)
            elif kind == "split":
                out = env.split(objs)
            else:
                out = env.simplify(objs, step["key"])
        else:
            ns = env.q2.create_namespace()
            ns.update({"NAME": "c19", "STARTTIME": dt(BASE - H).isoformat(), "ENDTIME": dt(BASE + H).isoformat()})
            f = env.qf.functions[Q2NAME[kind]]
            if kind in OWNED:
                out = f(env.ds, ns, objs, r.classes)
            elif kind == "split":
                out = f(env.ds, ns, objs)
            else:
                out = f(env.ds, ns, objs, step["key"])
        r.out = out
        r.res = ("ok", fastcopy([C.view(e) for e in out]))
    except Exception as ex:  # noqa: BLE001 - the exception class is the observable
        r.res = ("err", type(ex).__name__)
    live.out = r.out
    return r


def _run_query(env, C, step, r, live, spec_events):
    kind = step["kind"]
    env.nbucket += 1
    bid = "c19h%d" % env.nbucket
    r.program = program_of(step, bid, env.nbucket)
    if r.program is None:
        raise ValueError("step has no query2 program")
    bucket = env.ds.create_bucket(bucket_id=bid, type="t", client="c", hostname="h", name=bid)
    try:
        bucket.insert(C.build(env.Event, [(None, t, d, items) for _, t, d, items in spec_events]))
        before = [C.view(e) for e in env.ds[bid].get(limit=-1)]
        ins = sorted((t, d, repr(items)) for _, t, d, items in spec_events)
        r.store_ok = ins == sorted((t, d, repr(items)) for _, t, d, items in before)
        if step.get("form") == "sorted":
            before = sorted(before, key=lambda v: v[1])
        for st in step.get("pre") or []:
            before = spec_out(C, st["kind"], before, st["classes"])
        case = {"kind": kind, "route": "query", "events": fastcopy(before), "program": r.program.replace(bid, "B")}
        if kind in OWNED:
            case["classes"] = [(fastcopy(c), fastcopy(rd), l) for c, rd, l in step["classes"]]
        if kind == "simplify":
            case["key"] = step["key"]
        r.case = case
        r.reach_before = {}
        ts = [t for _, t, _, _ in spec_events] or [BASE]
        try:
            out = env.query("c19", r.program, dt(min(ts) - H), dt(max(ts) + H), env.ds)
            r.res = ("ok", fastcopy([C.view(e) for e in out]))
            r.out = out
        except Exception as ex:  # noqa: BLE001
            name = type(ex).__name__
            if name == "QueryInterpretException" and "invalid amount of arguments" in str(ex):
                name = "TypeError"       # QFunction.interpret reports ANY TypeError of the call this way
            r.res = ("err", name)
    finally:
        env.ds.delete_bucket(bid)
    live.out = r.out
    return r


# --------------------------------------------------------------------------- results edited in place


def containers(o, path=(), depth=0):
    """(path, object) of o and of the lists / dicts inside it"""
    if type(o) not in (list, dict) or depth > 3:
        return
    yield path, o
    for k, v in (o.items() if type(o) is dict else enumerate(o)):
        yield from containers(v, path + (k,), depth + 1)


def rule_parts(pair):
    """the containers of one (category, rule) entry: [(name, object)]"""
    out = []
    c, rule = pair[0], pair[1]
    if type(pair) is list:
        out.append(("entry", pair))
    if type(c) is list:
        out.append(("category", c))
    if type(rule) is dict:
        out += [("rule" + "".join("[%r]" % (p,) for p in path), o) for path, o in containers(rule)]
    else:
        sk = getattr(rule, "select_keys", None)
        if type(sk) in (list, dict):
            out.append(("Rule.select_keys", sk))
    return out


def reach_map(r):
    """id(container) -> the slots it is reachable from before the call"""
    m = {}
    for i, e in enumerate(r.objs or []):
        try:
            for _, o in containers(e.data):
                m.setdefault(id(o), set()).add(("in", i))
        except Exception:  # noqa: BLE001
            pass
    for j, pair in enumerate(r.classes or []):
        for _, o in rule_parts(pair):
            m.setdefault(id(o), set()).add(("cls", j))
    if r.objs is not None:
        m.setdefault(id(r.objs), set()).add(("inlist",))
    if r.classes is not None:
        m.setdefault(id(r.classes), set()).add(("clslist",))
    return m


def rule_value(pair):
    c, rule = pair[0], pair[1]
    if type(rule) is dict:
        return [fastcopy(c), fastcopy(rule)]
    rx = getattr(rule, "regex", None)
    return [fastcopy(c), fastcopy(getattr(rule, "select_keys", None)), getattr(rule, "ignore_case", None),
            None if rx is None else [rx.pattern, rx.flags]]


def snapshot(C, r):
    s = {}
    for i, e in enumerate(r.objs or []):
        s[("in", i)] = fastcopy(C._norm(C.view(e)))
    for i, e in enumerate(r.out):
        s[("out", i)] = fastcopy(C._norm(C.view(e)))
    for j, pair in enumerate(r.classes or []):
        s[("cls", j)] = rule_value(pair)
    if r.objs is not None:
        s[("inlist",)] = [id(e) for e in r.objs]
    s[("outlist",)] = [id(e) for e in r.out]
    if r.classes is not None:
        s[("clslist",)] = len(r.classes)
    return s


def resolve(o, path):
    for k in path:
        o = o[k]
    return o


def slot_name(s):
    return {"in": "input event %s", "out": "returned event %s", "cls": "rule %s of the caller's rule list"}.get(s[0], s[0]) \
        % s[1:] if len(s) > 1 else {"inlist": "the caller's event list", "outlist": "the returned list",
                                    "clslist": "the caller's rule list"}[s[0]]


def isolation_check(C, r):
    """Edits, one at a time, every container the call handed out or was given and demands that nothing changes but what
    the model says is the same object.  -> None | (description, detail)"""
    kind = r.kind
    if r.res[0] != "ok" or type(r.out) is not list:
        return None
    try:
        snap = snapshot(C, r)
    except Exception:  # noqa: BLE001 - a result that cannot be read: the property oracle has reported it
        return None
    win = winners(C, r.case) if kind == "categorize" else []
    n_in = len(r.objs) if r.objs is not None else 0
    seen, nmut = set(), [0]

    def closure(al):
        al = set(al)
        if kind in INPLACE:
            al |= {("out", s[1]) for s in al if s[0] == "in"} | {("in", s[1]) for s in al if s[0] == "out" and s[1] < n_in}
        if kind == "categorize":
            for j in {s[1] for s in al if s[0] == "cls"}:
                for i, w in enumerate(win):
                    if w == j:
                        al |= {("out", i)} | ({("in", i)} if i < n_in else set())
        if kind == "split" and (("inlist",) in al or ("outlist",) in al):
            al |= {("inlist",), ("outlist",)}
        return al

    def edit(X, how):
        nmut[0] += 1
        mark = "edit%d" % nmut[0]
        if how == "add":
            if type(X) is list:
                X.append(mark)
                return "%s.append(%r)" % ("%s", mark)
            X[mark] = mark
            return "%s[%r] = %r" % ("%s", mark, mark)
        if type(X) is list:
            X[:] = [mark]
            return "%s[:] = [%r]" % ("%s", mark)
        for k in list(X):
            X[k] = [mark] if type(X[k]) is list else mark
        return "every value of %s replaced by %r" % ("%s", mark)

    def check(X, where, al, how="add"):
        nonlocal snap
        what = edit(X, how) % where
        now = snapshot(C, r)
        for s in sorted(now, key=lambda s: (s[0] != "out", s)):      # name a returned event first
            if s in al or C.same(now[s], snap.get(s)):
                continue
            return ("aliasing: after %s(%s) returned by route %s, the consumer's edit `%s` also changed %s: %r -> %r; "
                    "the model: %s" % (kind, "events, classes" if kind in OWNED else "events", r.route, what, slot_name(s),
                                       _brief(snap.get(s), now[s])[0], _brief(snap.get(s), now[s])[1],
                                       "that is a separate object, only %s may change" % ", ".join(sorted(slot_name(a) for a in al))),
                    {"edit": what, "changed": slot_name(s), "before": snap.get(s), "after": now[s],
                     "may_change": sorted(slot_name(a) for a in al)})
        snap = now
        return None

    # 1. what the call handed out
    for i, e in enumerate(r.out):
        try:
            conts = list(containers(e.data))
        except Exception:  # noqa: BLE001
            continue
        for path, X in conts:
            if id(X) in seen:
                continue
            seen.add(id(X))
            # simplify_string returns copies: nothing it hands out is an object the caller already had
            al = (set(r.reach_before.get(id(X), ())) if kind != "simplify" else set()) | {("out", i)}
            if kind == "simplify" and r.objs is not None and i < n_in:
                try:   # the copy of an input container stands where that container stood
                    Y = resolve(r.objs[i].data, path)
                    al |= {("out", s[1]) for s in r.reach_before.get(id(Y), ()) if s[0] == "in"}
                except Exception:  # noqa: BLE001
                    pass
            if kind == "categorize" and path == ("$category",) and i < len(win) and win[i] is not None:
                al |= {("cls", win[i])}
            where = "result[%d].data%s" % (i, "".join("[%r]" % (p,) for p in path))
            bad = check(X, where, closure(al))
            if bad:
                return bad
    if id(r.out) not in seen:
        seen.add(id(r.out))
        nmut[0] += 1
        r.out.append("edit%d" % nmut[0])
        now = snapshot_lists_only(C, r, snap)
        al = closure(set(r.reach_before.get(id(r.out), ())) | {("outlist",)})
        r.out.pop()
        for s in (("inlist",), ("clslist",)):
            if s in now and s not in al and now[s] != snap[s]:
                return ("aliasing: after %s returned by route %s, `result.append(...)` also changed %s; the model: the "
                        "returned list is a new list" % (kind, r.route, slot_name(s)),
                        {"edit": "result.append(...)", "changed": slot_name(s)})
    # 2. what the call was given: the rules
    for j, pair in enumerate(r.classes or []):
        for name, X in rule_parts(pair):
            if id(X) in seen:
                continue
            seen.add(id(X))
            al = closure(set(r.reach_before.get(id(X), ())) | {("cls", j)})
            for how in ("add", "replace") if name != "entry" else ():
                bad = check(X, "classes[%d] %s" % (j, name), al, how)
                if bad:
                    return bad
    return None


def snapshot_lists_only(C, r, snap):
    now = dict(snap)
    if r.objs is not None:
        now[("inlist",)] = [id(e) for e in r.objs]
    if r.classes is not None:
        now[("clslist",)] = len(r.classes)
    return now


def _brief(a, b):
    """the differing part of two event views, for the description"""
    try:
        if type(a) is list and type(b) is list and len(a) == 4 and len(b) == 4:
            da, db = dict(map(tuple_, a[3])), dict(map(tuple_, b[3]))
            ks = [k for k in list(da) + [k for k in db if k not in da] if k not in da or k not in db or repr(da[k]) != repr(db[k])]
            return {k: da.get(k, "<absent>") for k in ks}, {k: db.get(k, "<absent>") for k in ks}
    except Exception:  # noqa: BLE001
        pass
    return a, b


def tuple_(kv):
    return kv[0], kv[1]


def keep_result(C, r, live):
    """remember what the call handed out (as it is after the consumer's edits)"""
    live.kept = None
    if r.res[0] == "ok" and type(r.out) is list:
        try:
            live.kept = (r.out, list(r.out), [fastcopy(C._norm(C.view(e))) for e in r.out], r.kind, r.route)
        except Exception:  # noqa: BLE001
            pass


def earlier_result_check(C, live, st):
    """What a call returned belongs to the caller: a later call on OTHER objects leaves it as it is (no list or event
    of the package's own is handed out and recycled).  -> None | description"""
    k = live.kept
    if k is None or st.get("reuse_events") or st.get("reuse_classes"):
        return None
    out, elems, views, kind, route = k
    what = "%s by route %s" % (kind, route)
    now_call = "%s by route %s" % (st["kind"], st["route"])
    if len(out) != len(elems) or any(a is not b for a, b in zip(out, elems)):
        return ("aliasing: the list returned by the previous call (%s) has other elements after the next call (%s, on new "
                "objects): %d -> %d elements; the model: every call returns a new list (split_url_events: the caller's own)"
                % (what, now_call, len(elems), len(out)))
    for i, e in enumerate(elems):
        try:
            now = C._norm(C.view(e))
        except Exception:  # noqa: BLE001
            now = None
        if not C.same(now, views[i]):
            a, b = _brief(views[i], now)
            return ("aliasing: event %d returned by the previous call (%s) changed when the next call (%s) was made on new "
                    "objects: %r -> %r; the model: a call writes the data dicts of ITS events only" % (i, what, now_call, a, b))
    return None


# --------------------------------------------------------------------------- judging in a fresh process, replays


class _NoCount:
    def count(self, *a, **k):
        pass


def judge_steps(env, C, steps, verbose=False):
    """runs the steps in this process; verdict (signature | None) of the LAST one"""
    live = Live()
    v = None
    for k, st in enumerate(steps):
        if st.get("new_session"):
            live = Live()
        r = run_step(env, C, st, live)
        v = None
        try:
            bad = C.oracle(r.case, r.res, _NoCount())
        except Exception as ex:  # noqa: BLE001
            bad = "malformed: %s" % type(ex).__name__
        if bad:
            v = ("C19:" + bad.split(":")[0], bad)
        earlier = earlier_result_check(C, live, st)
        if earlier and v is None:
            v = ("C19:aliasing", earlier)
        if st.get("mutate"):
            iso = isolation_check(C, r)
            if r.route == "direct":
                live.classes = None          # the Rule objects hold the edited select_keys lists
            if iso and v is None:
                v = ("C19:aliasing", iso[0])
        keep_result(C, r, live)
        if verbose:
            print("step %d  %s by %s  %s" % (k, st["kind"], st["route"], "ok" if v is None else "FAILS " + v[1]))
            if r.program:
                print("   program: " + r.program.replace("\n", " "))
            print("   events at the call: %r" % (r.case["events"][:8],))
            if "classes" in r.case:
                print("   rules: %r" % ([(c, rd) for c, rd, _ in r.case["classes"]],))
            print("   result: %r" % (r.res if r.res[0] == "err" else r.res[1][:8],))
    return v


def _write_session(steps):
    fd, path = tempfile.mkstemp(prefix="c19hist-", suffix=".session")
    with os.fdopen(fd, "w") as f:
        f.write(repr(steps))
    return path


class JudgeServer:
    """A pristine interpreter (package imported, nothing of it called) that forks one child per candidate session: each
    candidate runs with the process state of a fresh interpreter, at the cost of a fork."""

    def __init__(self):
        env = dict(os.environ)
        env["PYTHONPATH"] = f"{common.REPO}:{common.VERIF}"
        env["VERIF_REPO"] = common.REPO
        self.p = subprocess.Popen([sys.executable, "-m", "harness.c19_hist", "serve"], cwd=common.VERIF, env=env, text=True,
                                  stdin=subprocess.PIPE, stdout=subprocess.PIPE, stderr=subprocess.DEVNULL)
        self.n = 0

    def judge(self, steps):
        """None (the last step passes) | 'signature description'"""
        self.n += 1
        path = _write_session(steps)
        try:
            self.p.stdin.write(path + "\n")
            self.p.stdin.flush()
            while True:
                line = self.p.stdout.readline()
                if not line:
                    return "judge-failed (server gone)"
                if line.startswith("VERDICT "):
                    v = line[len("VERDICT "):].rstrip("\n")
                    return None if v == "OK" else v
        finally:
            os.unlink(path)

    def close(self):
        try:
            self.p.stdin.close()
            self.p.wait(timeout=10)
        except Exception:  # noqa: BLE001
            self.p.kill()


def serve():
    import signal
    from . import c19 as C
    common.setup_impl_env()
    env = Env()
    for line in sys.stdin:
        path = line.strip()
        if not path:
            continue
        sys.stdout.flush()
        pid = os.fork()
        if pid == 0:
            out = "VERDICT judge-failed"
            try:
                signal.alarm(120)
                v = judge_steps(env, C, _load_steps(path))
                out = "VERDICT " + ("OK" if v is None else (v[0] + " " + v[1]).replace("\n", " "))
            except BaseException as ex:  # noqa: BLE001
                out = "VERDICT judge-failed %s" % type(ex).__name__
            finally:
                sys.stdout.write(out + "\n")
                sys.stdout.flush()
                os._exit(0)
        _, status = os.waitpid(pid, 0)
        if status != 0:
            sys.stdout.write("VERDICT judge-failed status %d\n" % status)
            sys.stdout.flush()
    return 0


def minimise(sig, prefix, whole, step, budget=160):
    """-> (steps, reproduced in a fresh process?, how, verdict text of the minimised session)"""
    srv = JudgeServer()
    last = [None]

    def fails(steps):
        if srv.n >= budget:
            return False
        try:
            v = srv.judge(steps)
        except Exception:  # noqa: BLE001
            return False
        ok = v is not None and v.split(" ")[0] == sig
        if ok:
            last[0] = v[len(sig) + 1:]
        return ok

    try:
        if fails([step]):
            hist, how = [], "the call fails on its own in a fresh process"
        elif prefix and fails(list(prefix) + [step]):
            hist = common.shrink_list(prefix, lambda c: fails(list(c) + [step]), 12)
            how = "needs the earlier calls shown (history and arguments minimised in fresh processes)"
        elif len(whole) > len(prefix) and fails(list(whole) + [step]):
            hist = common.shrink_list(whole, lambda c: fails(list(c) + [step]), 60)
            how = ("needs earlier calls of the run (history and arguments minimised in fresh processes; a step marked "
                   "new_session started a new session)")
        else:
            return list(prefix) + [step], False, "did NOT reproduce in a fresh process from the calls shown", None
        steps = [dict(st) for st in hist] + [dict(step)]
        # the arguments: events and rules of every call, the failing call first
        for k in reversed(range(len(steps))):
            for field in ("events", "classes"):
                if not steps[k].get(field):
                    continue

                def with_field(c, k=k, field=field):
                    return steps[:k] + [dict(steps[k], **{field: list(c)})] + steps[k + 1:]
                steps[k][field] = common.shrink_list(steps[k][field], lambda c: fails(with_field(c)), 14)
            for flag in ("mutate", "reuse_events", "reuse_classes", "form"):
                if steps[k].get(flag) and k < len(steps) - (1 if flag == "mutate" and sig == "C19:aliasing" else 0):
                    cand = {f: v for f, v in steps[k].items() if f != flag}
                    if fails(steps[:k] + [cand] + steps[k + 1:]):
                        steps[k] = cand
        fails(steps)
        return steps, True, how, last[0]
    finally:
        srv.close()


def readable(steps):
    out = []
    for st in steps:
        d = {"call": "%s by route %s" % (st["kind"], st["route"]),
             "events": [[i, t - BASE, du, items] for i, t, du, items in st["events"]]}
        if "classes" in st:
            d["rules"] = [[c, rd] for c, rd, _ in st["classes"]]
        for k in ("key", "form", "reuse_events", "reuse_classes", "mutate", "new_session"):
            if st.get(k):
                d[k] = st[k]
        if st.get("pre"):
            d["first_stage_in_the_same_program"] = [[p["kind"], [[c, rd] for c, rd, _ in p["classes"]]] for p in st["pre"]]
        out.append(d)
    return out


HOW_TO_READ = ("`session`: calls made one after the other in one process (event = [id, timestamp_us - base_us, duration_us, "
               "data items]); reuse_events: the call gets the objects the previous call returned ('list': the same list, "
               "'elements': a new list around them) instead of new ones; reuse_classes: the previous call's rule objects, "
               "edited in place to the value shown; mutate: after the call every container it handed out / was given is "
               "edited in place, one at a time (isolation_check); the LAST step is the failing one.  `session_literal` is "
               "the same as a Python literal: /venv/bin/python -m harness.c19_hist replay <this file> runs it")


# --------------------------------------------------------------------------- the runner used by harness/c19.py


class Runner:
    def __init__(self, ck, C, process):
        self.ck, self.C, self.process = ck, C, process
        self.env = Env()
        self.history = []
        self.nmin = 0
        self.t_query = 0.0

    def run_session(self, steps):
        ck, C = self.ck, self.C
        live = Live()
        prefix = []
        for k, st in enumerate(steps):
            st = dict(st)
            if k == 0:
                st["new_session"] = True
            if st["route"] == "query" and program_of(st, "B") is None:
                st["route"] = "registry"
                st.pop("pre", None)
                ck.count("hist:query-route-not-expressible->registry")
            r = run_step(self.env, C, st, live)
            ck.count("hist:%s:%s" % (st["route"], st["kind"]))
            for f in ("reuse_events", "reuse_classes", "mutate", "pre"):
                if st.get(f):
                    ck.count("hist:%s" % f)
            if st["route"] == "query" and not r.store_ok:
                ck.disagreement("hist-store", "the memory datastore did not hand back the events inserted",
                                {"session": readable(prefix + [st])})
            failed = []
            self.process(r.case, r.res, r.objs if st["kind"] == "simplify" else None,
                         on_bad=lambda bad: failed.append(("C19:" + bad.split(":")[0], bad, {"impl_output": r.res})))
            earlier = earlier_result_check(C, live, st)
            if earlier:
                failed.append(("C19:aliasing", earlier, {}))
            if st.get("mutate"):
                iso = isolation_check(C, r)
                if r.route == "direct":
                    live.classes = None      # the Rule objects hold the edited select_keys lists
                ck.count("hist:isolation-checked")
                if iso:
                    failed.append(("C19:aliasing", iso[0], iso[1]))
            keep_result(C, r, live)
            for sig, desc, detail in failed[:1]:
                self.report(sig, desc, detail, prefix, st, r)
            prefix.append(st)
            self.history.append(st)

    def report(self, sig, desc, detail, prefix, st, r):
        if any(s == sig for s, _, _ in self.ck.violations) and self.nmin >= 1:
            steps, ok, how = prefix + [st], None, "not re-run (an earlier failing input of this signature was)"
        elif self.nmin < 3:
            self.nmin += 1
            steps, ok, how, text = minimise(sig, prefix, self.history, st)
            if text:
                desc = text
        else:
            steps, ok, how = prefix + [st], None, "not re-run"
        if len(steps) > 1:
            desc += "  [history: %d earlier call(s) in the same process; %s]" % (len(steps) - 1, how)
        self.ck.failing_input(sig, desc, dict(detail, session=readable(steps), session_literal=repr(steps), base_us=BASE,
                                              program=r.program, reproduced_in_a_fresh_process=ok, minimisation=how,
                                              how_to_read=HOW_TO_READ))


# --------------------------------------------------------------------------- generators


def _ev(n, items, eid=None, dur=1000):
    return (eid, BASE + 1000 * n, dur, list(items))


SEL_VARIANTS = ["absent", ["title"], ["app"], ["url"], [], ["missing"], ["title", "url"]]
IC_VARIANTS = ["absent", False, True]


def rule_dict(rx, sel, ic):
    rd = {}
    if rx != "absent":
        rd["regex"] = rx
    if sel != "absent":
        rd["select_keys"] = copy.deepcopy(sel)
    if ic != "absent":
        rd["ignore_case"] = ic
    return rd


def tok_events(tok):
    """events in which the word `tok` occurs under exactly one key, in its own / the other case, or nowhere"""
    T = tok.upper()
    return [_ev(0, [("title", f"{tok} keynote"), ("app", "a"), ("url", "https://v.example/w/1")]),
            _ev(1, [("title", "Pull requests"), ("app", "a"), ("url", f"https://{tok}.example/pulls")]),
            _ev(2, [("title", f"{T} Universe"), ("app", "b"), ("url", "https://mail.example/")]),
            _ev(3, [("app", f"x{tok}"), ("title", "Inbox")]),
            _ev(4, [("title", "Inbox"), ("app", "mail"), ("url", f"https://x.example/{T}")]),
            _ev(5, [("title", "nothing"), ("other", f"{tok} elsewhere")]),
            _ev(6, [("title", "nothing at all"), ("app", "c")])]


def gen_rule_variant_sessions(tier):
    """rule lists that share a regex and differ in select_keys / ignore_case / category: every ordered pair of variants,
    one call each, then both variants in one rule list (two Rule objects alive at once); routes and kinds rotate"""
    variants = list(itertools.product(SEL_VARIANTS, IC_VARIANTS))
    n = 0
    for m, ((s1, i1), (s2, i2)) in enumerate(itertools.product(variants, repeat=2)):
        for kind in ("categorize", "tag") if tier != "quick" else [("categorize", "tag")[(m + m // 21) % 2]]:
            routes = ROUTES if tier != "quick" else [ROUTES[n % 3]]
            for route in routes:
                n += 1
                tok = "q%dz" % n
                r1, r2 = rule_dict(tok, s1, i1), rule_dict(tok, s2, i2)
                if kind == "categorize":
                    c1, c2, c3 = ["Media%d" % n, "Talks"], ["Work%d" % n], ["Work%d" % n, "Code", "Review"]
                else:
                    c1, c2, c3 = "code%d" % n, "talk%d" % n, "both%d" % n
                lt = tok
                evs = tok_events(tok)
                k2 = ("tag", "categorize")[n % 2] if n % 5 == 0 else kind        # the second call by the other function
                c2b = (["Work%d" % n] if k2 == "categorize" else "talk%d" % n)
                second_route = route if n % 7 else ROUTES[(n // 7) % 3]
                yield [
                    {"kind": kind, "route": route, "events": evs, "classes": [(c1, r1, lt)], "form": ("plain", "var", "sorted")[n % 3]},
                    {"kind": k2, "route": second_route, "events": evs, "classes": [(c2b, r2, lt)], "form": ("var", "sorted", "plain")[n % 3]},
                    {"kind": kind, "route": route, "events": evs, "classes": [(c3, r1, lt), (c2, r2, lt), (c1, r1, lt)][:2 + n % 2],
                     "form": "plain"},
                ]


A_EVENTS = [
    [("app", "xterm"), ("title", "shell"), ("lst", ["a"]), ("nested", {"k": ["v"], "d": {}})],
    [("app", "editor"), ("title", "main.py")],
    [("app", "clock"), ("title", "12:00"), ("url", "http://www.clock.example/a;p?q#f")],
    [("app", "editor"), ("title", "(3) notes.txt"), ("$tags", ["old"]), ("$category", ["Old", "Cat"])],
    [("app", "player"), ("title", "● film FPS: 12.5"), ("url", "https://player.example/x")],
    [("title", "untouched")],
]
B_EVENTS = [
    [("app", "mail"), ("title", "inbox")],
    [("app", "editor"), ("title", "* notes.txt"), ("url", "http://www.editor.example/")],
    [("app", "player"), ("title", "(1) film")],
    [("app", "term"), ("title", "zsh"), ("lst", [])],
]


def ab_rules(kind, n):
    if kind == "categorize":
        return [(["Work"], {"regex": "editor"}, "editor"), (["Media", "Video"], {"regex": "player"}, "player"),
                ([], {"regex": "clock"}, "clock")][: 2 + n % 2]
    return [("work", {"regex": "editor"}, "editor"), ("media", {"regex": "player", "select_keys": ["app"]}, "player"),
            ("any", {"regex": "e", "ignore_case": True}, "e")][: 2 + n % 2]


def ab_step(kind, route, events, n, **kw):
    st = {"kind": kind, "route": route, "events": [_ev(i, items) for i, items in enumerate(events)]}
    if kind in OWNED:
        st["classes"] = ab_rules(kind, n)
    if kind == "simplify":
        st["key"] = "title"
    st.update(kw)
    return st


def gen_mutation_sessions(tier):
    """a call whose result (and arguments) the consumer then edits in place, followed by calls on fresh events and rules:
    every pair of transforms, every route; and the same with the second call on the first call's own objects"""
    kinds = ("categorize", "tag", "split", "simplify")
    n = 0
    for k1, k2 in itertools.product(kinds, repeat=2):
        for route in ROUTES:
            n += 1
            r2 = ROUTES[(n + (n // 3)) % 3]
            yield [ab_step(k1, route, A_EVENTS, n, mutate=True, form=("plain", "sorted", "var")[n % 3]),
                   ab_step(k2, r2, B_EVENTS, n, form="plain"),
                   ab_step(k1, route, B_EVENTS, n + 1, mutate=True),
                   ab_step(k1, ROUTES[n % 2], A_EVENTS, n)]
    for k1, k2 in itertools.product(kinds, repeat=2):       # the next call on the same objects (after the consumer's edits)
        for route in ROUTES[:2]:
            n += 1
            for reuse in ("list", "elements"):
                yield [ab_step(k1, route, A_EVENTS, n, mutate=(n % 2 == 0)),
                       ab_step(k2, ROUTES[n % 2], A_EVENTS, n + 1, reuse_events=reuse, mutate=True),
                       ab_step(k1, route, B_EVENTS, n)]


def gen_reuse_sessions(tier):
    """the caller keeps its rule objects and edits them in place between calls (one field at a time); the same events
    again with other rules; chains inside one query2 program"""
    base = {"regex": "editor", "select_keys": ["app"], "ignore_case": False}
    edits = [dict(base, select_keys=["title"]), dict(base, select_keys=["app", "title"]), dict(base, regex="Editor"),
             dict(base, ignore_case=True, regex="EDITOR"), {"regex": "editor"}, dict(base, select_keys=[]),
             dict(base, regex="player"), dict(base, regex=""), dict(base)]
    evs = [[("app", "editor"), ("title", "main.py")], [("app", "xterm"), ("title", "editor of things")],
           [("app", "Player"), ("title", "EDITOR")], [("app", "x"), ("title", "y")]]
    n = 0
    for kind in ("categorize", "tag"):
        for route in ROUTES[:2]:
            for e1, e2 in itertools.permutations(edits, 2):
                n += 1
                cA, cB = ((["Work"], ["Work", "Deep"]) if kind == "categorize" else ("w", "d"))
                other = (["Other", "Thing"], {"regex": "x"}, "x") if kind == "categorize" else ("o", {"regex": "x"}, "x")
                mk = lambda rd, c: {"kind": kind, "route": route, "events": [_ev(i, it) for i, it in enumerate(evs)],  # noqa: E731
                                    "classes": [(c, copy.deepcopy(rd), rd.get("regex") or None), other]}
                s1, s2, s3 = mk(e1, cA), mk(e2, cA if n % 3 else cB), mk(e1, cB)
                s2["reuse_classes"] = s3["reuse_classes"] = True
                if n % 2:
                    s2["reuse_events"] = ("list", "elements")[n % 4 // 2]
                yield [s1, s2, s3]
    # two stages in one program (query route): the second stage's input is what the statement says the first returns
    for k1, k2 in itertools.product(("categorize", "tag"), repeat=2):
        for m in range(4):
            n += 1
            tok = "c%dz" % n
            ra, rb = rule_dict(tok, SEL_VARIANTS[1 + m], True), rule_dict(tok, SEL_VARIANTS[(2 + m) % 7], IC_VARIANTS[m % 3])
            ca = ["One%d" % n, "Two"] if k1 == "categorize" else "a%d" % n
            cb = ["Three%d" % n] if k2 == "categorize" else "b%d" % n
            yield [{"kind": k2, "route": "query", "events": tok_events(tok), "classes": [(cb, rb, tok)],
                    "pre": [{"kind": k1, "classes": [(ca, ra, tok)]}], "form": ("plain", "var", "sorted")[m % 3]},
                   {"kind": k1, "route": "query", "events": tok_events(tok), "classes": [(ca, rb, tok)],
                    "pre": [{"kind": k2, "classes": [(cb, ra, tok)]}, {"kind": k1, "classes": [(ca, ra, tok)]}]}]


def gen_random_sessions(C, rng, n_sessions):
    for _ in range(n_sessions):
        pool_events = C.rand_events(rng, lambda: C.rand_data(rng), 6) or [_ev(0, [("app", "Firefox"), ("title", "a.b")])]
        rules = []
        for _ in range(rng.randrange(1, 4)):
            rd, l = C.derived_rule(rng, pool_events) if rng.random() < 0.7 else C.rand_rule(rng)
            rules.append((rd.get("regex", "absent"), l))
        steps = []
        for k in range(rng.randrange(2, 6)):
            kind = rng.choice(["categorize", "categorize", "tag", "tag", "split", "simplify"])
            route = rng.choice(ROUTES)
            if rng.random() < 0.6:
                events = [(i, t, d, copy.deepcopy(items)) for i, t, d, items in rng.sample(pool_events, rng.randrange(0, len(pool_events) + 1))]
            else:
                events = C.rand_events(rng, lambda: C.rand_data(rng), 5)
            if route == "query":
                events = [(None, t, d, items) for _, t, d, items in events]
            st = {"kind": kind, "route": route, "events": events, "form": rng.choice(["plain", "var", "sorted"])}
            if kind in OWNED:
                cl = []
                for _ in range(rng.randrange(0, 5)):
                    rx, l = rng.choice(rules)
                    rd = rule_dict(rx, rng.choice(C.SELECTS + ["absent"] * 4), rng.choice([False, True, "absent"]))
                    if route != "direct" and rd.get("select_keys", 0) is None and rng.random() < 0.5:
                        del rd["select_keys"]
                    cl.append((list(rng.choice(C.CATS)) if kind == "categorize" else rng.choice(C.TAGS), rd, l))
                st["classes"] = cl
                if steps and rng.random() < 0.3:
                    st["reuse_classes"] = True
            if kind == "simplify":
                st["key"] = rng.choice(["title", "title", "app", "name"])
                if rng.random() < 0.8:
                    events[:] = [(i, t, d, [(k_, v) for k_, v in items if k_ != st["key"]] + [(st["key"], rng.choice(C.TITLES))])
                                 for i, t, d, items in events]
            if steps and route != "query" and rng.random() < 0.3:
                st["reuse_events"] = rng.choice(["list", "elements"])
            if rng.random() < 0.4:
                st["mutate"] = True
            steps.append(st)
        yield steps


def gen_big_sessions(n=BIG_N):
    """one input per transform that is larger than any plausible chunk constant, through the registry; the data cycle over
    a few templates so that the regex table of the case stays small"""
    tpl = [[("app", "Firefox"), ("title", "(3) FIREFOX - Mozilla"), ("url", "http://www.example.com/a/b;p?q=1#frag")],
           [("title", "● Visual Studio Code"), ("app", "code"), ("url", "https://example.com")],
           [("app", "x"), ("title", "Cemu - FPS: 59.2 - game"), ("n", 1)],
           [("title", "plain"), ("app", "Ünïcödé Text")],
           [("app", "axb"), ("title", "* unsaved"), ("url", "http://www.a")]]
    evs = [(i, BASE + 1000 * i, 1000 + i % 3, list(tpl[(i * i + i // 7) % len(tpl)])) for i in range(n)]
    cats = [(["Work"], {"regex": "code", "ignore_case": True, "select_keys": ["app"]}, "code"),
            (["Web", "Fox"], {"regex": "fire", "ignore_case": True}, "fire"),
            (["Web"], {"regex": "Fire"}, "Fire"), (["Games", "Emu", "Cemu"], {"regex": "FPS: [0-9]+"}, None)]
    tags = [("t%d" % j, rd, l) for j, (_, rd, l) in enumerate(cats)]
    yield [{"kind": "categorize", "route": "registry", "events": evs, "classes": cats, "big": True},
           {"kind": "tag", "route": "direct", "events": evs, "classes": tags, "big": True},
           {"kind": "split", "route": "registry", "events": evs, "big": True},
           {"kind": "simplify", "route": "registry", "events": evs, "key": "title", "big": True}]


def gen_error_sessions():
    """the calls that raise (simplify_string: missing key, non-str value; split_url_events: what urlparse raises), by every
    route, each followed by a call that returns: the exception class is compared with the model, the events annotated
    before the exception stay annotated"""
    bad = [("simplify", [[("title", "(1) a"), ("app", "x")], [("title", 5), ("app", "b")]]),
           ("simplify", [[("title", "(1) a")], [("app", "b")]]),
           ("simplify", [[("title", None)]]),
           ("split", [[("url", "http://www.ok.org/x")], [("url", "http://[::1")], [("url", "http://www.b.org")]]),
           ("split", [[("url", "http://www.ok.org/x")], [("url", 5)]]),
           ("split", [[("url", None), ("title", "t")]])]
    n = 0
    for kind, evs in bad:
        for route in ROUTES:
            n += 1
            yield [ab_step(kind, route, evs, n), ab_step(kind, route, B_EVENTS, n, mutate=True),
                   ab_step(("categorize", "tag")[n % 2], route, evs, n)]


def sessions(C, rng, tier):
    yield from gen_rule_variant_sessions(tier)
    yield from gen_error_sessions()
    yield from gen_mutation_sessions(tier)
    yield from gen_reuse_sessions(tier)
    yield from gen_random_sessions(C, rng, 250 if tier == "quick" else 6000)
    yield from gen_big_sessions()


# --------------------------------------------------------------------------- command line


def _load_steps(path):
    txt = open(path).read()
    if txt.lstrip().startswith("{"):
        obj = json.loads(txt)
        rp = obj.get("replay", obj)
        txt = rp["session_literal"]
    return ast.literal_eval(txt)


def main(argv):
    from . import c19 as C
    common.setup_impl_env()
    if argv[0] == "serve":
        return serve()
    steps = _load_steps(argv[1])
    v = judge_steps(Env(), C, steps, verbose=argv[0] == "replay")
    print("VERDICT " + ("OK" if v is None else (v[0] + " " + v[1]).replace("\n", " ")))
    return 0


if __name__ == "__main__":
    sys.exit(main(sys.argv[1:]))
